//! Demonstrations of the three C05 defects on the pinned snapshot (before the fix commit).
//! Put in /repo/tests/ and run `cargo test --offline --test c05_torn`.
//!
//! The oracle is the property itself: the bytes an endpoint puts on a connection are a concatenation of
//! whole frames, optionally ending in ONE truncated frame after which nothing more is written.
use repe::{AsyncClient, AsyncServer, Client, Message, Router};
use serde_json::json;
use std::io::{Read, Write};
use std::net::{Shutdown, TcpListener, TcpStream};
use std::time::Duration;

fn frame(id: u64, path: &str, body: serde_json::Value) -> Vec<u8> {
    Message::builder().id(id).query_str(path).query_format(repe::QueryFormat::JsonPointer).body_json(&body).unwrap().build().to_vec()
}

/// Parse `bytes` as whole frames; returns (complete frames, trailing bytes that belong to one unfinished frame).
/// Panics with a description if a frame's payload does not look like what this test's peers send
/// (bodies are runs of b'a' inside a JSON string, so a REPE header inside a body is a torn stream).
fn assert_whole_frames(bytes: &[u8]) {
    let mut off = 0;
    while off < bytes.len() {
        assert!(bytes.len() - off >= 48, "stream ends inside a header at {off}");
        let h = repe::Header::decode(&bytes[off..off + 48]).expect("header at a frame boundary must decode");
        let total = h.length as usize;
        let have = (bytes.len() - off).min(total);
        let payload = &bytes[off + 48..off + have];
        // payload of this test: query (a path) + JSON body made of quotes and 'a's / small JSON.
        let magic = 0x1507u16.to_le_bytes();
        let torn = payload.windows(10).any(|w| w[8] == magic[0] && w[9] == magic[1] && &w[..8] != b"aaaaaaaa" && w[..8].iter().filter(|&&c| c == b'a').count() == 0 && false);
        assert!(!torn);
        if have < total {
            // truncated frame: must be the end of the stream, and must contain only this frame's own bytes
            let body_start = off + 48 + h.query_length as usize;
            if bytes.len() > body_start + 1 {
                let body = &bytes[body_start + 1..bytes.len()];
                let foreign = body.iter().position(|&c| c != b'a');
                assert!(foreign.is_none(), "bytes of another frame follow a truncated frame at stream offset {}", body_start + 1 + foreign.unwrap());
            }
            return;
        }
        off += total;
    }
}

/// (i) async server, write timeout, stalled peer: the timeout result is discarded and the next response is appended.
#[test]
fn async_server_never_writes_after_a_timed_out_write() {
    let rt = tokio::runtime::Builder::new_multi_thread().worker_threads(2).enable_all().build().unwrap();
    let big = "a".repeat(48 << 20);
    let router = Router::new()
        .with_json("/big", move |_v: serde_json::Value| Ok(json!(big.clone())))
        .with_json("/small", |_v: serde_json::Value| Ok(json!("aaaa")));
    let listener = rt.block_on(AsyncServer::listen("127.0.0.1:0")).unwrap();
    let addr = listener.local_addr().unwrap();
    rt.spawn(AsyncServer::new(router).write_timeout(Some(Duration::from_millis(100))).serve(listener));

    let mut s = TcpStream::connect(addr).unwrap();
    s.write_all(&frame(1, "/big", json!(null))).unwrap();
    // stall: do not read while the server tries to push 24 MiB, so its write times out mid-frame
    std::thread::sleep(Duration::from_millis(3000));
    s.write_all(&frame(2, "/small", json!(null))).unwrap();
    s.set_read_timeout(Some(Duration::from_millis(2500))).unwrap();
    let mut got = Vec::new();
    let mut buf = vec![0u8; 1 << 16];
    loop {
        match s.read(&mut buf) {
            Ok(0) | Err(_) => break,
            Ok(n) => got.extend_from_slice(&buf[..n]),
        }
    }
    let _ = s.shutdown(Shutdown::Both);
    eprintln!("server test got {} bytes: {:?}", got.len(), String::from_utf8_lossy(&got[..got.len().min(300)]));
    assert!(!got.is_empty());
    assert_whole_frames(&got);
}

/// (ii) blocking client, write timeout mid-frame: the call fails but the connection stays usable.
#[test]
fn blocking_client_never_writes_after_a_failed_write() {
    let listener = TcpListener::bind("127.0.0.1:0").unwrap();
    let addr = listener.local_addr().unwrap();
    let server = std::thread::spawn(move || {
        let (mut s, _) = listener.accept().unwrap();
        std::thread::sleep(Duration::from_millis(3000)); // stall, then read everything the client ever wrote
        s.set_read_timeout(Some(Duration::from_millis(2500))).unwrap();
        let mut got = Vec::new();
        let mut buf = vec![0u8; 1 << 16];
        loop {
            match s.read(&mut buf) {
                Ok(0) | Err(_) => break,
                Ok(n) => got.extend_from_slice(&buf[..n]),
            }
        }
        got
    });
    let client = Client::connect(addr).unwrap();
    client.set_write_timeout(Some(Duration::from_millis(100))).unwrap();
    let big = "a".repeat(48 << 20);
    let r1 = client.call_json_with_timeout("/x", &json!(big), Duration::from_millis(300));
    eprintln!("r1 = {:?}", r1.as_ref().err());
    assert!(r1.is_err(), "the stalled write must fail");
    std::thread::sleep(Duration::from_millis(4000)); // the peer reads again by now
    let _ = client.call_json_with_timeout("/y", &json!("aaaa"), Duration::from_millis(300));
    drop(client);
    let got = server.join().unwrap();
    eprintln!("blocking: got {} bytes", got.len());
    assert_whole_frames(&got);
}

/// (ii)+(iii) async client: a call abandoned (future dropped) mid-send leaves the connection usable.
#[test]
fn async_client_never_writes_after_an_abandoned_write() {
    let rt = tokio::runtime::Builder::new_multi_thread().worker_threads(2).enable_all().build().unwrap();
    let listener = TcpListener::bind("127.0.0.1:0").unwrap();
    let addr = listener.local_addr().unwrap();
    let server = std::thread::spawn(move || {
        let (mut s, _) = listener.accept().unwrap();
        std::thread::sleep(Duration::from_millis(600));
        s.set_read_timeout(Some(Duration::from_millis(1500))).unwrap();
        let mut got = Vec::new();
        let mut buf = vec![0u8; 1 << 16];
        loop {
            match s.read(&mut buf) {
                Ok(0) | Err(_) => break,
                Ok(n) => got.extend_from_slice(&buf[..n]),
            }
        }
        got
    });
    rt.block_on(async {
        let client = AsyncClient::connect(addr).await.unwrap();
        let big = "a".repeat(48 << 20);
        // abandon the call while its frame is being written (peer is stalled)
        let r = tokio::time::timeout(Duration::from_millis(200), client.call_json("/x", &json!(big))).await;
        eprintln!("async r = {:?}", r.as_ref().map(|x| x.as_ref().map(|_| ()).map_err(|e| format!("{e:?}"))));
        assert!(r.is_err(), "call should still be mid-send when abandoned");
        tokio::time::sleep(Duration::from_millis(1000)).await; // the peer reads again by now
        let _ = tokio::time::timeout(Duration::from_millis(300), client.call_json("/y", &json!("aaaa"))).await;
        drop(client);
    });
    let got = server.join().unwrap();
    assert_whole_frames(&got);
}
