//! Demonstration of the C02 defects on the pinned snapshot (before the fix commit).
//! Put in /repo/tests/ and run `cargo test --offline --test c02_hostile`.
//! Before the fix: the first two tests panic (debug build: "attempt to add with overflow"; release: the sum wraps,
//! the header is accepted and `Message::from_slice` then slices out of range) and the third aborts the whole
//! test process in the allocator (memory allocation of 4611686018427387904 bytes failed).
use repe::{Header, Message, MessageView, RepeError};
use std::io::Cursor;

fn header_bytes(length: u64, q: u64, b: u64) -> Vec<u8> {
    let mut h = Header::new();
    h.length = length;
    h.query_length = q;
    h.body_length = b;
    h.encode().to_vec()
}

#[test]
fn lengths_whose_sum_wraps_are_an_error_not_a_panic() {
    // 48 + (2^64 - 1) + 1 wraps to 48: "consistent" only modulo 2^64
    let bytes = header_bytes(48, u64::MAX, 1);
    let r = std::panic::catch_unwind(|| Header::decode(&bytes));
    assert!(matches!(r, Ok(Err(RepeError::LengthMismatch { .. }))), "decode: {r:?}");
    let r = std::panic::catch_unwind(|| Message::from_slice(&bytes).map(|_| ()));
    assert!(matches!(r, Ok(Err(_))), "from_slice: {r:?}");
    let r = std::panic::catch_unwind(|| MessageView::from_slice(&bytes).map(|_| ()));
    assert!(matches!(r, Ok(Err(_))), "view: {r:?}");
}

#[test]
fn stream_reader_rejects_wrapping_lengths() {
    let bytes = header_bytes(47, u64::MAX, 0);
    let r = std::panic::catch_unwind(|| repe::read_message(&mut Cursor::new(bytes.clone())).map(|_| ()));
    assert!(matches!(r, Ok(Err(_))), "read_message: {r:?}");
}

#[test]
fn unallocatable_declared_size_is_an_error_not_an_abort() {
    let q = 1u64 << 62;
    let bytes = header_bytes(48 + q, q, 0);
    let r = repe::read_message(&mut Cursor::new(bytes.clone()));
    assert!(r.is_err());
    let mut buf = Vec::new();
    let r = repe::read_message_into(&mut Cursor::new(bytes), &mut buf);
    assert!(r.is_err());
}
