//! Demonstration of the C19(d) defect on the pinned snapshot (before the fix commit):
//! a node answers one call, closes the connection while the fleet is idle, and is then healthy
//! again (keeps accepting).  Every later fleet call reused the dead cached client and failed with
//! BrokenPipe forever, because BrokenPipe is not "retryable" and the non-retryable branch left
//! without `invalidate_client`.  Put this file in /repo/tests/ and run
//! `cargo test --offline --test c19_wedge`.
use repe::{Fleet, FleetOptions, Message, NodeConfig, RetryPolicy};
use serde_json::json;
use std::io::{BufReader, BufWriter, Write};
use std::net::TcpListener;
use std::thread;
use std::time::Duration;

fn serve_n(listener: &TcpListener, n_requests: usize) {
    let (stream, _) = listener.accept().unwrap();
    let mut r = BufReader::new(stream.try_clone().unwrap());
    let mut w = BufWriter::new(stream);
    for _ in 0..n_requests {
        let req = match repe::read_message(&mut r) {
            Ok(m) => m,
            Err(_) => return,
        };
        let resp = Message::builder()
            .id(req.header.id)
            .query_bytes(req.query.clone())
            .body_json(&json!({"ok": true}))
            .unwrap()
            .build();
        repe::write_message(&mut w, &resp).unwrap();
        w.flush().unwrap();
    }
    // connection dropped here (closed while the client is idle)
}

#[test]
fn node_recovers_after_connection_closed_while_idle() {
    let listener = TcpListener::bind("127.0.0.1:0").unwrap();
    let port = listener.local_addr().unwrap().port();
    let server = thread::spawn(move || {
        serve_n(&listener, 1); // first connection: one reply, then close
        serve_n(&listener, 1); // node is healthy again: a fresh connection would be served
    });
    let fleet = Fleet::with_options(
        vec![NodeConfig::new("127.0.0.1", port).unwrap().with_name("n").unwrap()],
        FleetOptions { default_timeout: Duration::from_secs(2), retry_policy: RetryPolicy { max_attempts: 2, delay: Duration::from_millis(10) } },
    )
    .unwrap();
    let first = fleet.call_json("n", "/x", Some(&json!(1))).unwrap();
    assert!(first.succeeded(), "first call: {:?}", first.error);
    thread::sleep(Duration::from_millis(300)); // reader thread sees EOF and shuts the socket
    let mut last = None;
    for _ in 0..3 {
        let r = fleet.call_json("n", "/x", Some(&json!(2))).unwrap();
        if r.succeeded() {
            drop(server);
            return;
        }
        last = r.error;
    }
    panic!("node wedged: every call after the idle close failed, last error: {last:?}");
}
