"""C03 - every request gets exactly one matching response; notifies get none."""
from analysis.flow import must_cross, return_points, term_pt, path_counts, trace_op, INF
from analysis.guards import facts_at, field_writes, infeasible, path_facts
from analysis.mir import callee_matches, op_place
from analysis.sym import Sym, render, is_call, const_val, walk, split_rows
from rules.common import texts, blocks_assigning_variant, value_rows, render_n, option_fact

EXPLANATION = (
    "Decided structurally on the shared request pipeline (route -> dispatch[_view] -> connection loop) of all four dispatch "
    "paths. (handler-once) dispatch and dispatch_view call the erased handler exactly once on every path, route never calls "
    "one, and each connection loop dispatches only on the Dispatch outcome, once per frame read; the off-reader closure calls "
    "dispatch once. (response-count) dispatch* return None exactly on the notify edge and Some otherwise; the Reject arm "
    "answers iff !notify; each loop writes/enqueues one frame per Some and none otherwise, before reading the next frame. "
    "(rejected-not-dispatched, shared with C16) on the WebSocket off-reader path nothing is spawned from the saturated edge of the permit test and exactly one ResourceExhausted reply is sent for a non-notify. (id-echo) every response constructor copies header.id from the request it was given. (echo-rule) stamp_response_query and "
    "response_echo_query both take the request query iff the response's own query is empty (the guard set is exact: no further condition such as the error flag), and every server write site passes "
    "the query of the request being answered. (error-code-table) the rows of route (guard -> code) are exactly "
    "{version != 1 -> VersionMismatch, non-UTF-8 -> InvalidQuery, raw-binary/unknown query format -> InvalidQuery, unknown path "
    "-> MethodNotFound}; handler errors are reported with err.to_error_code(); RepeError::to_error_code agrees with the frozen "
    "table. (transport-twins) dispatch and dispatch_view have identical decision rows under the twin renaming. Arrival order of "
    "inline responses: no spawn between read and write in the TCP loops (C05) and one FIFO + one writer on WebSocket. "
    "(response-flushed) in both TCP loops every path from a response write to the next blocking read crosses writer.flush(). Not "
    "decided: enumeration of pipelined sequences; per-handler-kind agreement is C07."
    " (transport-agreement, request-is-the-routing-key: shared with C07) each handler's owned and borrowed paths have identical decision rows, mounts resolve the query of the request they were handed, and every in-crate delegation to a downstream handler hands on the request it received, so error responses built by inner handlers echo the caller's id and query."
)
ASSUMPTIONS = ["tokio mpsc channels are FIFO", "a `dyn HandlerErased` call runs the handler body once"]

SR = "server_request::"
TWIN = (("handle_view", "HANDLE"), ("handle_with_ctx", "HANDLE"),
        ("message::create_error_response_unstamped_view", "ERR"), ("message::create_error_response_like", "ERR"),
        ("{view: ", "{REQ: "), ("{req: ", "{REQ: "), ("arg1.view", "arg1.REQ"), ("arg1.req", "arg1.REQ"))

ROUTE_TABLE = {
    # code -> guard predicate description
    "VersionMismatch": "version",
    "InvalidQuery": "query",
    "MethodNotFound": "lookup",
}

# RepeError variant -> ErrorCode (docs/error handling + constants.rs doc comments)
TO_ERROR_CODE_FILE = "rules/spec/error_codes.json"


def _handler_calls(b):
    return [(i, t) for i, t in b.calls() if t["callee"]["decl"].startswith("server::HandlerErased::handle")]


def run(facts, R):
    has_ws = "websocket" in facts.features
    # ---------------- handler-once -----------------------------------------------------------------
    for fn in (SR + "dispatch_view", SR + "dispatch"):
        b = facts.body(fn)
        hc = _handler_calls(b)
        pc = path_counts(b, [i for i, _ in hc])
        R.check(pc == (1, 1), "handler-once", fn, "handler invoked exactly once on every path",
                "handler invocations per path: min/max = %s" % (pc,), b.span, "min=max=1 over %d call sites" % len(hc))
        names = {t["callee"]["name"] for _, t in hc}
        want = "handle_view" if fn.endswith("dispatch_view") else "handle_with_ctx"
        R.check(names == {want}, "handler-once", fn, "calls " + want, "dispatch path calls %s" % names, b.span)
    rb = facts.body(SR + "route")
    R.check(not _handler_calls(rb), "handler-once", rb.path, "route never runs a handler", "route invokes a handler", rb.span)
    for i, t in rb.calls():
        if t["callee"]["name"] in ("dispatch", "dispatch_view"):
            R.bad("handler-once", rb.path, "route dispatches", "route calls %s" % t["callee"]["name"], t.get("span"))

    # route_request_view: dispatch only on Dispatch, reject answers iff !notify
    rv = facts.body(SR + "route_request_view")
    rs = Sym(rv)
    rows = value_rows(rv, rs, facts, 0)
    n_d = n_r = 0
    for g, v in rows:
        if any(x.endswith("is Dispatch") for x in g):
            n_d += 1
            ok = v.startswith("server_request::dispatch_view(") and "as Dispatch).handler" in v and "as Dispatch).notify" in v and ", arg2, " in v
            R.check(ok, "handler-once", rv.path, "Dispatch arm -> dispatch_view(handler, view, ctx, notify)", "Dispatch row is %s" % v[:200], rv.span, v[:160])
        elif any(x.endswith("is Reject") for x in g):
            n_r += 1
            R.check("dispatch" not in v, "handler-once", rv.path, "Reject arm runs no handler", "Reject row dispatches: %s" % v[:160], rv.span)
        else:
            R.bad("handler-once", rv.path, "unguarded row", "route_request_view produces %s outside the two route outcomes" % v[:120], rv.span)
    # Reject answers iff !notify: either one row `(!notify).then(|| error)` or a None row under notify and a Some(error) row under !notify
    rej = [(g, v) for g, v in rows if any(x.endswith("is Reject") for x in g)]
    raw = [vv for gg, vv in value_rows(rv, rs, facts, 0, fmt=lambda z: z) if any(x.endswith("is Reject") for x in gg)]
    ok_then = len(raw) == 1 and is_call(raw[0], "then") and raw[0][2][0][0] == "un" and raw[0][2][0][1] == "Not" and render(raw[0][2][0][2]).endswith("as Reject).notify")
    ok_rows = len(rej) >= 2
    for g, v in rej:
        on_notify = any("as Reject).notify is True" in x for x in g)
        off_notify = any("as Reject).notify is False" in x for x in g)
        if on_notify and not off_notify:
            ok_rows = ok_rows and v == "Option::None{}"
        elif off_notify and not on_notify:
            ok_rows = ok_rows and v.startswith("Option::Some{0: message::create_error_response") and "as Reject).code" in v
        else:
            ok_rows = False
    R.check(ok_then or ok_rows, "response-count", rv.path, "Reject arm answers iff !notify", "Reject rows are %s" % [(g[:1], v[:80]) for g, v in rej], rv.span,
            "(!notify).then(error response)" if ok_then else "notify -> None, !notify -> Some(error response)")
    R.check(n_d == 1 and n_r >= 1, "handler-once", rv.path, "two rows", "rows: dispatch=%d reject=%d" % (n_d, n_r), rv.span)
    # the closure builds the error from the Reject payload and the view
    for c in facts.children(rv.path):
        cv = Sym(c).local(0)
        ok = is_call(cv, "message::create_error_response_unstamped_view") and render(cv[2][0]).endswith(".view") and render(cv[2][1]).endswith(".code")
        R.check(ok, "error-code-table", c.path, "Reject -> error(view, code, message)", "closure returns %s" % render(cv)[:160], c.span, render(cv)[:120])

    # ---------------- response-count: dispatch rows + twins -------------------------------------------
    drows = {}
    for fn in (SR + "dispatch_view", SR + "dispatch"):
        b = facts.body(fn)
        s = Sym(b)
        rws = value_rows(b, s, facts, 0)
        norm = []
        for g, v in rws:
            txt = " & ".join(g) + " => " + v
            for a, bname in TWIN:
                txt = txt.replace(a, bname)
            txt = txt.replace("HandlerErased::", "")
            norm.append(txt)
            is_none = v.startswith("Option::None")
            on_notify = any(x == "arg4 is True" for x in g)
            not_notify = any(x == "arg4 is False" for x in g)
            R.check((is_none and on_notify) or (not is_none and not_notify and v.startswith("Option::Some")), "response-count", fn, "None iff notify",
                    "row `%s` under %s" % (v[:120], g), b.span, ("None on notify" if is_none else "Some on !notify"))
            if not is_none and "is Err" in " ".join(g):
                R.check("to_error_code(" in v and "as Err).0" in v, "error-code-table", fn, "handler error -> err.to_error_code()",
                        "handler errors are reported as %s" % v[:200], b.span, "error response built from err.to_error_code(), err.to_string()")
        # `result.unwrap_or_else(|err| error response)` folds the Ok and Err rows into one: the closure is the Err row
        for c in facts.children(fn):
            cv = Sym(c).local(0)
            ctxt = render(cv)
            for a, bname in TWIN:
                ctxt = ctxt.replace(a, bname)
            norm.append("closure => " + ctxt)
            if any("unwrap_or_else" in v for g, v in rws):
                R.check("to_error_code(" in render(cv) and is_call(cv, "create_error_response_unstamped_view", "create_error_response_like"), "error-code-table", c.path,
                        "handler error -> err.to_error_code()", "handler errors are reported as %s" % render(cv)[:200], c.span, "error response built from err.to_error_code(), err.to_string()")
        drows[fn] = sorted(norm)
        folded = any("unwrap_or_else" in v for g, v in rws)
        R.check(len(rws) == (2 if folded else 3), "response-count", fn, "three rows", "dispatch has %d result rows" % len(rws), b.span)
    R.check(drows[SR + "dispatch_view"] == drows[SR + "dispatch"], "transport-twins", "<crate>", "dispatch == dispatch_view under twin renaming",
            "owned and borrowed dispatch differ:\n  view : %s\n  owned: %s" % (drows[SR + "dispatch_view"], drows[SR + "dispatch"]), None,
            "3 identical rows")

    # ---------------- connection loops ---------------------------------------------------------------------
    LOOPS_ = [("server::handle_connection", "io::read_message_into", "io::write_message_streaming"),
              ("async_server::handle_connection::{closure#0}", "async_io::read_message_into_async", "async_server::write_view_response")]
    # derived connection loops: any other function of the TCP server modules that reads frames in a cycle and routes them is a
    # connection loop (a `serve_stream` for caller-supplied streams, a panic-catching variant of handle_connection) with the same duties
    READERS_ = ("io::read_message_into", "io::read_message", "async_io::read_message_into_async", "async_io::read_message_async")
    WRITERS_ = ("io::write_message_streaming", "io::write_message", "async_server::write_view_response", "async_io::write_message_async")
    from analysis.flow import in_cycle as _in_cycle
    for p_, b_ in sorted(facts.bodies.items()):
        if p_.split("::")[0] not in ("server", "async_server") or any(p_ == x[0] for x in LOOPS_) or "::tests::" in p_:
            continue
        rd_ = [i for i, t in b_.calls() if callee_matches(t["callee"], *READERS_)]
        rt_ = [i for i, t in b_.calls() if callee_matches(t["callee"], SR + "route_request_view") or t["callee"]["name"].startswith("route_request_view")]
        if rd_ and rt_ and any(_in_cycle(b_, i) for i in rd_):
            LOOPS_.append((p_, READERS_, WRITERS_))
            R.note("derived connection loop (judged like handle_connection): " + p_)
    for path, reader, writer in LOOPS_:
        b = facts.body(path)
        s = Sym(b)
        reader = reader if isinstance(reader, tuple) else (reader,)
        writer = writer if isinstance(writer, tuple) else (writer,)
        reads = [i for i, t in b.calls() if callee_matches(t["callee"], *reader)]
        rrv = [(i, t) for i, t in b.calls() if callee_matches(t["callee"], SR + "route_request_view") or (len(LOOPS_) > 2 and path not in (LOOPS_[0][0], LOOPS_[1][0]) and t["callee"]["name"].startswith("route_request_view"))]
        wr = [(i, t) for i, t in b.calls() if callee_matches(t["callee"], *writer)]
        nested_wr = []
        if not wr and path not in (LOOPS_[0][0], LOOPS_[1][0]):
            # the write sits in an `async { write(..).await?; flush().await?; Ok(()) }` block that the loop runs under a timer: judge the
            # block where it is built (guards) and inside (flush after the write)
            for i, j, st_ in b.assigns():
                rv_ = st_["rv"]
                if rv_.get("agg") in ("coroutine", "closure") and rv_.get("def") in facts.bodies:
                    nb_ = facts.body(rv_["def"])
                    nw_ = [(x, y) for x, y in nb_.calls() if callee_matches(y["callee"], *writer)]
                    if nw_:
                        nested_wr.append((i, st_, nb_, nw_))
        if not wr and getattr(b, "changed", False):
            # the frame writer was renamed / moved (a method of a small struct): any function of this module that encodes a header
            # and writes it is the writer
            from rules.common import derived_frame_writers
            dw = {p_ for p_ in derived_frame_writers(facts) if p_.split("::")[0] == path.split("::")[0]}
            wr = [(i, t) for i, t in b.calls() if t["callee"]["path"] in dw]
        R.check(len(rrv) == 1, "handler-once", path, "one route_request_view per iteration", "found %d" % len(rrv), b.span)
        R.floor("response-count", len(wr) + len(nested_wr), 1, "response writes in " + path)
        for ci_, cst_, nb_, nw_ in nested_wr:
            fs = facts_at(b, s, facts, ci_)
            some = any(f["val"] == "Some" and (is_call(f["expr"], SR + "route_request_view") or (f["expr"][0] == "call" and f["expr"][1].rsplit("::", 1)[-1].startswith("route_request_view"))) for f in fs)
            R.check(some, "response-count", path, "write only for Some(response)", "a write block is built on a path where dispatch returned no response", cst_.get("span"), "guarded by route_request_view(..) is Some")
            again = ci_ in b.reachable(b.succs(ci_), avoid=reads)
            R.check(not again, "response-count", path, "one response per request", "the response write block can be rebuilt without reading another request", cst_.get("span"))
            nfl_ = [term_pt(nb_, x) for x, y in nb_.calls() if y["callee"]["name"] == "flush"]
            oks_ = [(x, y) for x, y, _ in blocks_assigning_variant(nb_, "std::result::Result", "Ok")]
            for x, y in nw_:
                w_ = must_cross(nb_, [term_pt(nb_, x)], oks_, nfl_) if oks_ else [0]
                R.check(bool(nfl_) and w_ is None, "response-flushed", nb_.path, "response flushed before the next read",
                        "the write block can complete successfully without flushing the response it wrote into the connection's BufWriter", y.get("span"),
                        "every path write -> Ok crosses writer.flush()", path=w_ if isinstance(w_, list) and w_ != [0] else None)
        for i, t in rrv:
            again = i in b.reachable(b.succs(i), avoid=reads)
            R.check(reads and not again, "handler-once", path, "dispatch once per frame read", "route_request_view can run again without reading another frame", t.get("span"))
            v = s.op(t["args"][1])
            R.check("from_slice" in render(v), "handler-once", path, "dispatches the frame just read", "dispatches %s" % render(v)[:120], t.get("span"))
        for i, t in wr:
            fs = facts_at(b, s, facts, i)
            some = any(f["val"] == "Some" and is_call(f["expr"], SR + "route_request_view") for f in fs)
            R.check(some, "response-count", path, "write only for Some(response)", "a frame is written on a path where dispatch returned no response; guards %s" % [x[-60:] for x in texts(fs)], t.get("span"),
                    "guarded by route_request_view(..) is Some")
            again = i in b.reachable(b.succs(i), avoid=reads + [x for x, _ in wr if x != i])
            R.check(not again, "response-count", path, "one response per request", "the response write can repeat without reading another request", t.get("span"))
            # echo: the query argument is response_echo_query(resp, view.query) of this request
            # (the argument bound to the writer's `query` parameter, wherever it sits in the list)
            qi = 2
            wbody = facts.bodies.get(t["callee"]["path"])
            if wbody is not None:
                named = [k_ for k_ in range(1, wbody.argc + 1) if wbody.debug_name(k_) == "query"]
                if len(named) == 1 and named[0] - 1 < len(t["args"]):
                    qi = named[0] - 1
            qarg = s.op(t["args"][qi]) if qi < len(t["args"]) else ("unknown", "?")
            if not is_call(qarg, "message::response_echo_query"):
                # ... or a field of a small struct the writer is a method of (`ViewResponse { resp, query }.write_to(w)`)
                cands = []
                for a_ in t["args"]:
                    v_ = s.op(a_)
                    while v_[0] == "call" and v_[1].rsplit("::", 1)[-1] in ("deref", "as_ref", "borrow") and len(v_[2]) == 1:
                        v_ = v_[2][0]
                    if v_[0] == "agg" and v_[3]:
                        cands += [x_ for n_, x_ in v_[3] if n_ == "query" and is_call(x_, "message::response_echo_query")]
                if len(cands) == 1:
                    qarg = cands[0]
            ok = is_call(qarg, "message::response_echo_query") and render(qarg[2][1]).endswith(".query") and "from_slice" in render(qarg[2][1]) and "route_request_view" in render(qarg[2][0])
            R.check(ok, "echo-rule", path, "writes response_echo_query(resp, view.query)", "query written is %s" % render(qarg)[:200], t.get("span"), "echo of this request's query")
        # response-flushed: a written response is flushed before the loop blocks on the next request (or succeeds/ends)
        flushes = [term_pt(b, i) for i, t in b.calls() if t["callee"]["name"] == "flush"]
        oks = [(x, y) for x, y, st in blocks_assigning_variant(b, "std::result::Result", "Ok")]
        for i, t in wr:
            w = must_cross(b, [term_pt(b, i)], [term_pt(b, r) for r in reads], flushes)
            R.check(bool(flushes) and w is None, "response-flushed", path, "response flushed before the next read",
                    "after a response is written into the connection's BufWriter the loop can block on the next request (or end) without "
                    "flushing it: a request followed only by notifies / an idle client never receives its response", t.get("span"),
                    "every path write -> next read crosses writer.flush()", path=w)
    if has_ws:
        ws_reader(facts, R)
        # a request answered with ResourceExhausted (off-reader cap saturated) is rejected: its handler must not run and no
        # second response may follow.  The cap's own rules (C16) decide exactly that: no spawn from the saturated edge, one
        # rejection reply, nothing spawned when saturated.
        from analysis import report as _report
        from rules import C16 as _c16
        sub = _report.Report(R.prop, R.tier, R.config)
        try:
            _c16.run(facts, sub)
        except Exception as e:
            sub.bad("anchor-resolution", "<crate>", "shared-C16-rules", "the shared saturation rules could not run: %s" % e)
        keep = {"permit-before-spawn": ("no spawn without a permit", "shape"), "saturation-branch": None, "anchor-resolution": None}
        for inst in sub.instances:
            if inst["rule"] in keep and inst["verdict"] == "holds" and (keep[inst["rule"]] is None or inst.get("what") in keep[inst["rule"]]):
                R.instances.append(inst)
        for v in sub.violations:
            if v["rule"] in keep and (keep[v["rule"]] is None or v.get("what") in keep[v["rule"]]):
                R.bad("rejected-not-dispatched", v["fn"], v["what"], v["msg"], v.get("site"), v.get("path"))

    # ---------------- same response on every transport: the TCP servers and the WebSocket inline path dispatch through the
    # borrowing `handle_view`, the WebSocket off-reader path and middleware-wrapped routes through the owned `handle` /
    # `handle_with_ctx`; a handler whose two paths disagree answers the same request differently depending on the transport.
    # C07's handler-twins rule decides exactly that agreement (shared)
    from analysis import report as _report7
    from rules import C07 as _c07
    sub7 = _report7.Report(R.prop, R.tier, R.config)
    try:
        _c07.run(facts, sub7)
    except Exception as e:
        sub7.bad("anchor-resolution", "<crate>", "shared-C07-rules", "the shared handler-twins rules could not run: %s" % e)
    for inst in sub7.instances:
        if inst["rule"] in ("handler-twins", "request-is-the-routing-key") and inst["verdict"] == "holds":
            R.instances.append(inst)
    for v in sub7.violations:
        if v["rule"] in ("handler-twins", "anchor-resolution"):
            R.bad("transport-agreement", v["fn"], v["what"], v["msg"], v.get("site"), v.get("path"))
        elif v["rule"] == "request-is-the-routing-key":
            R.bad("request-is-the-routing-key", v["fn"], v["what"], v["msg"], v.get("site"), v.get("path"))

    # ---------------- id-echo ---------------------------------------------------------------------------------
    id_echo(facts, R)
    # ---------------- echo-rule twins --------------------------------------------------------------------------
    echo_rule(facts, R)
    # ---------------- error-code-table ---------------------------------------------------------------------------
    error_table(facts, R)


def ws_reader(facts, R):
    path = "websocket_server::reader_task::{closure#0}"
    b = facts.body(path)
    s = Sym(b)
    reads = [i for i, t in b.calls() if t["callee"]["name"] == "next" and "Stream" in (t["callee"].get("trait") or "")]
    routes = [(i, t) for i, t in b.calls() if callee_matches(t["callee"], SR + "route")]
    R.check(len(routes) == 1 and len(reads) == 1, "handler-once", path, "one route per frame", "routes=%d reads=%d" % (len(routes), len(reads)), b.span)
    dv = [(i, t) for i, t in b.calls() if callee_matches(t["callee"], SR + "dispatch_view")]
    so = [(i, t) for i, t in b.calls() if callee_matches(t["callee"], "websocket_server::spawn_off_reader")]
    R.check(len(dv) == 1 and len(so) == 1, "handler-once", path, "one inline and one off-reader dispatch site", "dispatch_view=%d spawn_off_reader=%d" % (len(dv), len(so)), b.span)
    for (i, t), mode in [(x, "Inline") for x in dv] + [(x, "OffReader") for x in so]:
        fs = facts_at(b, s, facts, i)
        disp = any(f["val"] == "Dispatch" and is_call(f["expr"], SR + "route") for f in fs)
        ex = any(f["val"] == mode and is_call(f["expr"], "execution") for f in fs)
        R.check(disp and ex, "handler-once", path, "%s dispatch only on Dispatch/%s" % (t["callee"]["name"], mode),
                "dispatch site not guarded by route==Dispatch (%s) and execution()==%s (%s)" % (disp, mode, ex), t.get("span"), "guarded")
        again = i in b.reachable(b.succs(i), avoid=reads)
        R.check(not again, "handler-once", path, "%s once per frame" % t["callee"]["name"], "dispatch can repeat without reading another frame", t.get("span"))
        # handler and notify come from this frame's route outcome
        args = [render(s.op(a)) for a in t["args"]]
        hidx = 0 if mode == "Inline" else 2
        nidx = 3 if mode == "Inline" else 4
        by_pos = len(args) > max(hidx, nidx) and "as Dispatch).handler" in args[hidx] and "as Dispatch).notify" in args[nidx]
        # a private callee may have gained or lost a parameter: what matters is that exactly this frame's handler and flag are passed
        by_content = sum(1 for a in args if a.endswith("as Dispatch).handler")) == 1 and sum(1 for a in args if a.endswith("as Dispatch).notify")) == 1
        R.check(by_pos or by_content, "handler-once", path, "%s gets the routed handler and notify flag" % t["callee"]["name"],
                "args: %s" % [a[-40:] for a in args], t.get("span"))
    # a second off-reader spawner (a sibling of spawn_off_reader added later and spliced into the reader for analysis) is an off-reader
    # dispatch site of its own: its blocks are entered only under Dispatch / OffReader, and its saturation reply and its spawn are the
    # off-reader path's business (C16 judges every spawn site), not inline enqueues of the reader
    import json as _json
    from analysis.canon import KNOWN as _KNOWN
    try:
        _ref = set(_json.load(open(_KNOWN)).get("fns", {}))
    except Exception:
        _ref = set()
    sib = {}
    for x in sorted(b.live_blocks()):
        src_ = b.blocks[x].get("inlined_from")
        if src_ and src_ not in _ref and src_.startswith("websocket_server::"):
            sib.setdefault(src_.split("::{closure")[0], set()).add(x)
    sib = {k: v for k, v in sib.items() if any(b.term(x)["k"] == "call" and b.term(x)["callee"]["name"] in ("spawn_blocking", "spawn") for x in v)}
    sib_blocks = set().union(*sib.values()) if sib else set()
    for k, blks in sib.items():
        heads_ = [x for x in blks if any(p_ not in blks for p_ in b.preds().get(x, []))]
        okh = bool(heads_)
        for h in heads_:
            fs = facts_at(b, s, facts, h)
            okh = okh and any(f["val"] == "Dispatch" and is_call(f["expr"], SR + "route") for f in fs) and any(f["val"] == "OffReader" and is_call(f["expr"], "execution") for f in fs)
        R.check(okh, "handler-once", path, "%s dispatch only on Dispatch/OffReader" % k.rsplit("::", 1)[-1],
                "a second off-reader spawner is reached outside route == Dispatch && execution() == OffReader", b.span, "guarded")
        again = any(x in b.reachable(b.succs(x), avoid=reads) for x in blks if b.term(x)["k"] == "call" and b.term(x)["callee"]["name"] in ("spawn_blocking", "spawn"))
        R.check(not again, "handler-once", path, "%s once per frame" % k.rsplit("::", 1)[-1], "the spawn can repeat without reading another frame", b.span)
    sends = [(i, t) for i, t in b.calls() if t["callee"]["name"] == "send" and render(s.op(t["args"][0])).endswith("outbound_tx") and i not in sib_blocks]
    R.check(len(sends) == 2, "response-count", path, "two enqueue sites (reject, inline)", "found %d outbound sends" % len(sends), b.span)
    for i, t in sends:
        fs = facts_at(b, s, facts, i)
        msg = s.op(t["args"][1])
        txt = render(msg)
        if is_call(msg, "message::create_error_response_unstamped_view"):
            rej = any(f["val"] == "Reject" and is_call(f["expr"], SR + "route") for f in fs)
            nn = any(f["expr"][0] == "field" and f["expr"][2] == "notify" and "as Reject" in render(f["expr"]) and f["val"] is False for f in fs)
            R.check(rej and nn, "response-count", path, "reject answered iff !notify", "reject send under %s" % [x[-50:] for x in texts(fs)], t.get("span"), "guarded by Reject && !notify")
            R.check("as Reject).code" in render(msg[2][1]), "error-code-table", path, "reject carries route's code", "code arg: %s" % render(msg[2][1])[-80:], t.get("span"))
        else:
            some = any(f["val"] == "Some" and is_call(f["expr"], SR + "dispatch_view") for f in fs)
            from_dv = any(x[0] == "call" and x[1] == SR + "dispatch_view" for x in walk(msg)) and "Some" in txt
            R.check(some and from_dv, "response-count", path, "inline response enqueued iff Some", "inline send of %s under %s" % (txt[:80], [x[-50:] for x in texts(fs)]), t.get("span"),
                    "guarded by dispatch_view(..) is Some")
        again = i in b.reachable(b.succs(i), avoid=reads)
        R.check(not again, "response-count", path, "one enqueue per frame", "enqueue can repeat without reading another frame", t.get("span"))
        # stamped with this request's query before enqueue
        st = [(x, y) for x, y in b.calls() if callee_matches(y["callee"], "message::stamp_response_query") and b.dominates(x, i)
              and s.op(y["args"][0]) == msg]
        okq = False
        for x, y in st:
            q = s.op(y["args"][1])
            okq = okq or (q[0] == "agg" and q[2] == "Borrowed" and render(q).endswith(".query}") and "from_slice_exact" in render(q))
        R.check(okq, "echo-rule", path, "response stamped with this request's query", "no stamp_response_query(response, Cow::Borrowed(view.query)) dominates the send", t.get("span"))
    spawns = [t for i_, t in b.calls() if t["callee"]["name"] in ("spawn", "spawn_blocking", "spawn_local") and i_ not in sib_blocks]
    R.check(not spawns, "response-count", path, "inline responses are enqueued by the reader itself (arrival order)", "reader_task spawns work: %s" % [t["callee"]["path"] for t in spawns], b.span)

    # off-reader closure
    sp = facts.body("websocket_server::spawn_off_reader::{closure#0}")
    worker = None
    for c in facts.children("websocket_server::spawn_off_reader::{closure#0}"):
        if any(t["callee"]["name"] == "blocking_send" for _, t in c.calls()):
            worker = c
    if worker is None:
        R.bad("handler-once", sp.path, "worker", "off-reader worker closure not found", sp.span)
        return
    wsym = Sym(worker)
    inner = [c for c in facts.children(worker.path) if any(callee_matches(t["callee"], SR + "dispatch") for _, t in c.calls())]
    R.check(len(inner) == 1, "handler-once", worker.path, "one dispatch closure", "found %d closures calling dispatch" % len(inner), worker.span)
    for c in inner:
        dc = [(i, t) for i, t in c.calls() if callee_matches(t["callee"], SR + "dispatch")]
        pc = path_counts(c, [i for i, _ in dc])
        R.check(pc == (1, 1), "handler-once", c.path, "dispatch exactly once", "dispatch calls per path %s" % (pc,), c.span)
        cs = Sym(c)
        for i, t in dc:
            a = [render(cs.op(x)) for x in t["args"]]
            def _names(x_, n_):
                # the captured variable itself, or the field of a captured job struct (`job.handler`, captured by path as job__handler)
                return x_.endswith("." + n_) or x_.endswith("__" + n_)
            R.check(_names(a[0], "handler") and _names(a[1], "request") and _names(a[3], "notify"), "handler-once", c.path, "dispatch(handler, request, ctx, notify) of the captured request", "args %s" % a, t.get("span"))
    bs = [(i, t) for i, t in worker.calls() if t["callee"]["name"] == "blocking_send"]
    R.check(len(bs) == 1, "response-count", worker.path, "one enqueue", "found %d blocking_send" % len(bs), worker.span)
    for i, t in bs:
        fs = facts_at(worker, wsym, facts, i)
        some = any(f["val"] == "Some" for f in fs)
        if not some:
            # the enqueue may be entered through several edges (the Some value built on one path, tested on another)
            alts = path_facts(worker, wsym, facts, i)
            some = bool(alts) and all(any(f["val"] == "Some" for f in alt) for alt in alts)
        R.check(some and not _in_cycle(worker, i), "response-count", worker.path, "off-reader response enqueued iff Some, once",
                "blocking_send under %s" % [x[-60:] for x in texts(fs)], t.get("span"), "guarded by response is Some")
        st = [(x, y) for x, y in worker.calls() if callee_matches(y["callee"], "message::stamp_response_query") and worker.dominates(x, i)]
        okq = any(render(wsym.op(y["args"][1])).endswith("request.query}") and "Owned" in render(wsym.op(y["args"][1])) for x, y in st)
        R.check(okq, "echo-rule", worker.path, "off-reader response stamped with the request's query", "stamp args: %s" % [render(wsym.op(y["args"][1]))[-60:] for x, y in st], t.get("span"))
    # saturation branch (spawn_off_reader itself): one send guarded by !notify
    ssym = Sym(sp)
    ssends = [(i, t) for i, t in sp.calls() if t["callee"]["name"] == "send"]
    R.check(len(ssends) == 1, "response-count", sp.path, "one saturation reply site", "found %d" % len(ssends), sp.span)
    for i, t in ssends:
        fs = facts_at(sp, ssym, facts, i)
        nn = any(f["expr"][0] == "field" and f["expr"][2] == "notify" and f["val"] is False for f in fs)
        R.check(nn, "response-count", sp.path, "saturation reply iff !notify", "saturation send under %s" % [x[-60:] for x in texts(fs)], t.get("span"), "guarded by !notify")


def _in_cycle(b, bb):
    return bb in b.reachable(b.succs(bb))


def id_echo(facts, R):
    n = 0
    # (1) every caller of response_header_builder passes <its request>.header.id
    for b, i, t in facts.calls_to("message::response_header_builder"):
        s = Sym(b)
        a0 = s.op(t["args"][0])
        a1 = s.op(t["args"][1])
        ok = a0[0] == "field" and a0[2] == "id" and a0[1][0] == "field" and a0[1][2] == "header" and a0[1][1][0] == "arg" and \
            (a0[1][1][1] == 1 or "message::Message" in b.local_ty(a0[1][1][1]))      # (the request parameter, wherever it sits: a handler's `req` is arg2)
        okq = a1[0] == "field" and a1[2] == "query_format" and a1[1] == a0[1] if ok else False
        if not ok and a0[0] == "field" and a0[2] == "id" and a0[1][0] == "arg" and b.local_ty(a0[1][1]).lstrip("&").startswith("header::Header"):
            # the constructor is handed the request's header itself: every caller must pass <its request>.header
            okq = a1[0] == "field" and a1[2] == "query_format" and a1[1] == a0[1]
            k = a0[1][1]
            callers = facts.calls_to(b.path)
            ok = bool(callers)
            for cb, ci, ct in callers:
                ha = Sym(cb).op(ct["args"][k - 1])
                okc = ha[0] == "field" and ha[2] == "header" and ha[1][0] == "arg"
                R.check(okc, "id-echo", cb.path, "passes its request's header to " + b.path.rsplit("::", 1)[-1], "header argument is %s" % render(ha), ct.get("span"), render(ha))
        n += 1
        R.check(ok and okq, "id-echo", b.path, "response_header_builder(request.header.id, request.header.query_format)",
                "response built with id=%s query_format=%s" % (render(a0), render(a1)), t.get("span"), "id and query_format copied from the request")
    R.floor("id-echo", n, 3, "response_header_builder call sites (value, typed slice and their view twins; twins may share one constructor)")
    hb = facts.body("message::response_header_builder")
    hs = Sym(hb)
    v = hs.local(0)
    ids = [x for x in walk(v) if is_call(x, "MessageBuilder::id")]
    R.check(len(ids) == 1 and ids[0][2][1][0] == "arg" and ids[0][2][1][1] == 1, "id-echo", hb.path, "builder.id(id)", "response_header_builder is %s" % render(v)[:160], hb.span)
    # (2) error constructors store request.header.id into the fresh message
    for fn in ("message::create_error_response_like", "message::create_error_response_unstamped_view"):
        b = facts.body(fn)
        s = Sym(b)
        st = []
        for i, j, a in b.assigns():
            names = [e["f"] for e in a["place"]["p"] if isinstance(e, dict) and "f" in e]
            if names[-2:] == ["header", "id"]:
                st.append((i, j, a, s.rvalue(a["rv"])))
        R.check(len(st) == 1, "id-echo", fn, "one store to err.header.id", "found %d" % len(st), b.span)
        for i, j, a, v in st:
            ok = v[0] == "field" and v[2] == "id" and v[1][0] == "field" and v[1][2] == "header" and v[1][1][0] == "arg" and v[1][1][1] == 1
            R.check(ok, "id-echo", fn, "err.header.id = request.header.id", "error response id is %s" % render(v), a.get("span"), render(v))
            w = must_cross(b, [(0, 0)], return_points(b), [(i, j)], after_start=False)
            R.check(w is None, "id-echo", fn, "id stored on every path", "an error response can be returned without the request id", b.span, path=w)
    # (3) value-stream responses
    if "value-stream" in facts.features:
        for fn in ("value_stream::error_like", "value_stream::beve_response", "value_stream::chunk_response"):
            if not facts.has_body(fn):
                cands = [p for p in facts.bodies if p.startswith(fn)]
                if not cands:
                    R.bad("id-echo", fn, "anchor", "SVS response constructor not found")
                    continue
                fn = cands[0]
            b = facts.body(fn)
            s = Sym(b)
            ids = [render(s.op(t["args"][1])) for i, t in b.calls() if callee_matches(t["callee"], "message::MessageBuilder::id")]
            for i, j, a in b.assigns():
                names = [e["f"] for e in a["place"]["p"] if isinstance(e, dict) and "f" in e]
                if names[-2:] == ["header", "id"]:
                    ids.append(render(s.rvalue(a["rv"])))
            ok = len(ids) == 1 and ids[0] == "req.header.id"
            R.check(ok, "id-echo", fn, "SVS response echoes req id", "SVS response ids: %s" % ids, b.span, "id := req.header.id")


def echo_rule(facts, R):
    st = facts.body("message::stamp_response_query")
    s = Sym(st)
    qstores = [w for w in field_writes(facts, "message::Message", "query") if w["body"] is st and w["kind"] in ("store", "call-dest")]
    R.check(len(qstores) == 1, "echo-rule", st.path, "one store to response.query", "found %d" % len(qstores), st.span)
    for w in qstores:
        fs = facts_at(st, s, facts, w["bb"])
        resp_empty = any(is_call(f["expr"], "is_empty") and render(f["expr"][2][0]).endswith("response.query") and f["val"] is True for f in fs)
        req_nonempty = any(is_call(f["expr"], "is_empty") and "request_query" in render(f["expr"][2][0]) and f["val"] is False for f in fs)
        v = s.rvalue(w["rv"]) if w["kind"] == "store" else ("call", w["term"]["callee"]["path"], tuple(s.op(a) for a in w["term"]["args"]), w["bb"])
        from_req = "request_query" in render(v)
        extra = [render(f["expr"]) + " is " + str(f["val"]) for f in fs
                 if not (is_call(f["expr"], "is_empty") and (render(f["expr"][2][0]).endswith("response.query") or "request_query" in render(f["expr"][2][0])))]
        R.check(not extra, "echo-rule", st.path, "stamp depends on nothing but the two emptiness tests",
                "the echo of the request query is additionally conditional on %s: a response whose own query is empty can go out without the request's query" % extra,
                w["span"], "guards: response.query empty, request_query non-empty")
        R.check(resp_empty and req_nonempty and from_req, "echo-rule", st.path, "stamp iff response query empty",
                "response.query := %s under %s" % (render(v), texts(fs)), w["span"], "query := request_query only when the handler left it empty")
    eq = facts.body("message::response_echo_query")
    es = Sym(eq)
    rows = value_rows(eq, es, facts, 0)
    ok = len(rows) == 2
    for g, v in rows:
        if any("is_empty(arg1.query) is True" in x for x in g):
            ok = ok and v == "arg2"
        elif any("is_empty(arg1.query) is False" in x for x in g):
            ok = ok and v == "arg1.query"
        else:
            ok = False
    R.check(ok, "echo-rule", eq.path, "request query iff response query empty", "rows: %s" % rows, eq.span, "twin of stamp_response_query")


def error_table(facts, R):
    rb = facts.body(SR + "route")
    s = Sym(rb)
    rows = []
    for i, j, st in rb.assigns():
        rv = st["rv"]
        if rv.get("agg") == "adt" and rv["adt"].endswith("RouteOutcome") and rv["variant"] == "Reject":
            # one row per reaching definition of a result local that several paths assign (Result-returning helper, folded exits)
            for ch, v in (split_rows(s, i, j, rv) or [({}, s.rvalue(rv))]):
                d = dict(v[3])
                code = d["code"][2] if d["code"][0] == "agg" else render(d["code"])
                fs = facts_at(rb, s, facts, i)
                for pt in ch.values():
                    if pt[0] >= 0:
                        fs = fs + [f for f in facts_at(rb, s, facts, pt[0]) if render(f["expr"]) not in {render(g["expr"]) for g in fs}]
                if infeasible(fs):
                    continue
                d["row_bb"] = i
                rows.append((code, fs, st.get("span"), d))
    got = []

    def classify(code, t):
        ver_bad = any("header.version Ne REPE_VERSION) is True" in x for x in t)
        ver_ok = any("header.version Ne REPE_VERSION) is False" in x for x in t)
        utf_err = any(x.startswith("str::from_utf8(query) is Err") for x in t)
        # not a JSON pointer: a known other format, or a code QueryFormat::try_from does not know
        fmt_other = any("query_format" in x and "is JsonPointer" not in x and (" is RawBinary" in x or " in [" in x or (x.startswith("TryFrom") and x.endswith("is Err"))) for x in t)
        lookup_none = any(x.startswith("Router::get(") and x.endswith("is None") for x in t)
        if code == "VersionMismatch" and ver_bad:
            return "version"
        if code == "InvalidQuery" and ver_ok and utf_err:
            return "utf8"
        if code == "InvalidQuery" and ver_ok and fmt_other:
            return "format"
        if code == "MethodNotFound" and ver_ok and lookup_none:
            return "lookup"
        return None
    for code, fs, span, d in rows:
        t = texts(fs)
        kind = classify(code, t)
        if kind is None and fs and "row_bb" in d:
            # an arm entered through several edges (`Ok(RawBinary) | Err(_) =>`): the row must classify alike on each
            kinds_ = {classify(code, texts(alt)) for alt in path_facts(rb, s, facts, d["row_bb"])}
            if len(kinds_) == 1:
                kind = kinds_.pop()
        R.check(kind is not None, "error-code-table", rb.path, "row:%s" % code, "route rejects with %s under %s: not a row of the specified table" % (code, t), span, kind)
        got.append(kind)
        nv = d["notify"]
        R.check(nv[0] == "bin" and nv[1] == "Eq" and render(nv[2]).endswith("header.notify") and const_val(nv[3]) == 1, "response-count", rb.path, "Reject.notify = (header.notify == 1)",
                "notify flag of the reject is %s" % render(nv), span)
    R.check(sorted(x for x in got if x) == ["format", "lookup", "utf8", "version"], "error-code-table", rb.path, "exactly the four reject rows", "rows found: %s" % got, rb.span, "version, utf8, format, lookup")
    # body-format gate of the built-in decoders: an unacceptable body format is answered with InvalidBody
    # (an undecodable body is an Err(RepeError) that dispatch maps through to_error_code, checked above)
    n_dec = 0
    for b in facts.bodies.values():
        if not (b.path.startswith("server::decode_") and "_param" in b.path) or "{closure" in b.path:
            continue
        bs = Sym(b)
        codes = set()
        for i, t in b.calls():
            if t["callee"]["name"].startswith("create_error_response") and len(t["args"]) >= 2:
                c = bs.op(t["args"][1])
                codes.add(c[2] if c[0] == "agg" else render(c))
        if not codes:
            continue
        n_dec += 1
        R.check(codes == {"InvalidBody"}, "error-code-table", b.path, "unacceptable body format -> InvalidBody",
                "%s answers a body-format mismatch with %s (specified: InvalidBody)" % (b.path, sorted(codes)), b.span, "InvalidBody")
    R.note("body-format decoders with an error reply: %d" % n_dec)
    # Dispatch row
    for i, j, st in rb.assigns():
        rv = st["rv"]
        if rv.get("agg") == "adt" and rv["adt"].endswith("RouteOutcome") and rv["variant"] == "Dispatch":
            if infeasible(facts_at(rb, s, facts, i)):
                continue
            fs = texts(facts_at(rb, s, facts, i))
            ok = any("version Ne REPE_VERSION) is False" in x for x in fs) and any(x.startswith("str::from_utf8(query) is Ok") for x in fs) and any(x.startswith("Router::get(") and x.endswith("is Some") for x in fs)
            R.check(ok, "error-code-table", rb.path, "Dispatch only for valid version, UTF-8 pointer, known path", "Dispatch under %s" % fs, st.get("span"))
    # RepeError::to_error_code table
    import json
    import os
    from analysis.report import VERIF
    spec = json.load(open(os.path.join(VERIF, TO_ERROR_CODE_FILE)))
    tb = facts.body("error::RepeError::to_error_code")
    ts = Sym(tb)
    got = {}
    for g, v in value_rows(tb, ts, facts, 0):
        var = [x.split(" is ")[1] for x in g if x.startswith("arg1 is ") or x.startswith("discr") or " is " in x]
        key = None
        for x in g:
            if x.startswith("arg1 is "):
                key = x[len("arg1 is "):]
        got.setdefault(key, []).append(v)
    table = {}
    for k, vs in got.items():
        if k is None:
            continue
        if k.startswith("('in'"):
            continue
        table[k] = sorted(set(vs))
    want = spec["to_error_code"]
    for variant, code in want.items():
        have = table.get(variant)
        if code == "<self.code>":
            ok = have is not None and all("code" in h for h in have)
        else:
            ok = have is not None and have == ["ErrorCode::%s{}" % code]
        R.check(ok, "error-code-table", tb.path, "to_error_code:" + variant, "RepeError::%s maps to %s, table says %s" % (variant, have, code), tb.span, "%s -> %s" % (variant, code))
    extra = [k for k in table if k not in want]
    R.check(not extra, "error-code-table", tb.path, "no unlisted variants", "variants not in the frozen table: %s (update rules/spec/error_codes.json after review)" % extra, tb.span)
