"""Helpers shared by rule modules."""
from analysis.flow import term_pt, must_cross, return_points
from analysis.guards import facts_at, field_writes
from analysis.mir import callee_matches, op_place, AnchorMissing
from analysis.sym import Sym, render, walk, is_call, const_val, strip_variant


def site(body, bb, idx=None):
    return body.span_of(bb, idx)


def norm_cmp(e, val):
    """Normalise a comparison fact to (op, a_text, b_text) with val folded in; None if not a cmp."""
    if e[0] == "bin" and e[1] in ("Lt", "Le", "Gt", "Ge", "Eq", "Ne"):
        op, a, b = e[1], e[2], e[3]
    elif e[0] == "call" and len(e[2]) == 2:
        nm = e[1].rsplit("::", 1)[-1]
        m = {"lt": "Lt", "le": "Le", "gt": "Gt", "ge": "Ge", "eq": "Eq", "ne": "Ne"}
        if nm not in m:
            return None
        op, a, b = m[nm], e[2][0], e[2][1]
    else:
        return None
    if val is False:
        op = {"Lt": "Ge", "Le": "Gt", "Gt": "Le", "Ge": "Lt", "Eq": "Ne", "Ne": "Eq"}[op]
    elif val is not True:
        return None
    # canonical direction: express Gt/Ge as Lt/Le with swapped operands
    if op == "Gt":
        op, a, b = "Lt", b, a
    elif op == "Ge":
        op, a, b = "Le", b, a
    return (op, a, b)


def cmp_facts(fs):
    out = []
    for f in fs:
        n = norm_cmp(f["expr"], f["val"])
        if n:
            out.append(n)
    return out


def has_cmp(fs, op, a_pred, b_pred):
    """Is there a fact  a <op> b  (op in Lt, Le, Eq, Ne; Gt/Ge are normalised away)?"""
    for (o, a, b) in cmp_facts(fs):
        if o == op and a_pred(a) and b_pred(b):
            return True
        if op in ("Eq", "Ne") and o == op and a_pred(b) and b_pred(a):
            return True
    return False


def is_field_of(e, field, adt=None):
    return e[0] == "field" and e[2] == field


def field_base(e):
    return e[1] if e[0] == "field" else None


def option_fact(fs, pred, variant):
    """fact `x is <variant>` with pred(x); also recognises is_some()/is_none() call facts."""
    for f in fs:
        e, v = f["expr"], f["val"]
        if v == variant and pred(e):
            return True
        if e[0] == "call" and len(e[2]) == 1 and pred(e[2][0]):
            nm = e[1].rsplit("::", 1)[-1]
            if nm == "is_some" and ((v is True and variant == "Some") or (v is False and variant == "None")):
                return True
            if nm == "is_none" and ((v is True and variant == "None") or (v is False and variant == "Some")):
                return True
            if nm == "is_ok" and ((v is True and variant == "Ok") or (v is False and variant == "Err")):
                return True
            if nm == "is_err" and ((v is True and variant == "Err") or (v is False and variant == "Ok")):
                return True
    return False


def goto_preds(body, bb, unwind=False):
    """Predecessor 'leaves' of bb looking back through blocks that only merge control flow
    (no statements with side effects, goto/false_edge terminators)."""
    preds = body.preds(unwind)
    live = body.live_blocks(unwind)
    out = []
    seen = set()
    stack = [bb]
    while stack:
        b = stack.pop()
        ps = [p for p in preds.get(b, []) if p in live]
        for p in ps:
            if p in seen:
                continue
            seen.add(p)
            t = body.term(p)
            passthrough = t["k"] in ("goto", "false_edge") and len(body.succs(p, unwind)) == 1 and \
                all(s["k"] != "assign" or _is_unit_assign(s) for s in body.blocks[p]["stmts"]) and \
                len([q for q in preds.get(p, []) if q in live]) >= 1 and p != 0
            if passthrough:
                stack.append(p)
            else:
                out.append(p)
    return out


def _is_unit_assign(s):
    rv = s["rv"]
    if "use" in rv and "const" in rv["use"] and rv["use"]["const"].get("ty") == "()":
        return True
    return False


def disjunct_facts(body, sym, facts, bb):
    """List of fact-lists, one per way control can merge into bb (see goto_preds). If bb has a single
    predecessor chain this is one conjunction."""
    if getattr(body, "changed", False):
        from analysis.guards import path_facts
        return path_facts(body, sym, facts, bb)
    leaves = goto_preds(body, bb)
    if not leaves:
        return [facts_at(body, sym, facts, bb)]
    res = []
    for p in leaves:
        fs = facts_at(body, sym, facts, p)
        # plus the fact carried by the edge p -> (chain to bb) when p is a switch
        t = body.term(p)
        if t["k"] == "switch":
            # find which successor leads to bb through pass-through blocks
            for succ in body.succs(p):
                if succ == bb or bb in _goto_closure(body, succ):
                    fs = fs + _edge_fact(body, sym, facts, p, succ)
        res.append(fs)
    return res


def _goto_closure(body, b):
    out = set()
    while True:
        t = body.term(b)
        if t["k"] in ("goto", "false_edge") and b not in out:
            out.add(b)
            b = t["target"]
            out.add(b)
        else:
            return out


def _edge_fact(body, sym, facts, s, succ):
    # reuse facts_at by asking for facts on a virtual block: compute manually
    from analysis.guards import _variants_for_discr
    t = body.term(s)
    vals = {v for v, b in t["targets"] if b == succ}
    if t["otherwise"] == succ:
        vals.add(None)
    e = sym.op(t["on"])
    explicit = [v for v, _ in t["targets"]]
    if t.get("on_ty") == "bool":
        if vals == {0}:
            val = False
        elif vals == {None} and explicit == [0]:
            val = True
        elif vals == {1}:
            val = True
        elif vals == {None} and explicit == [1]:
            val = False
        else:
            return []
        while e[0] == "un" and e[1] == "Not":
            e = e[2]
            val = not val
        return [{"expr": e, "val": val, "text": "%s is %s" % (render(e), val), "switch": s}]
    if e[0] == "discr":
        vmap = _variants_for_discr(body, facts, t, s)
        if vmap:
            if None in vals:
                names = [n for d, n in vmap.items() if d not in explicit] + [vmap[v] for v in vals if v is not None and v in vmap]
            else:
                names = [vmap.get(v, str(v)) for v in vals]
            if len(names) == 1:
                return [{"expr": e[1], "val": names[0], "text": "%s is %s" % (render(e[1]), names[0]), "switch": s}]
    return []


def blocks_assigning_variant(body, adt, variant, dest_local=0):
    """Blocks where `_dest = adt::variant{..}` is assigned (e.g. `_0 = Result::Ok(..)`)."""
    out = []
    sym = None
    live = None
    for i, j, s in body.assigns():
        rv = s["rv"]
        if s["place"]["l"] == dest_local and not s["place"]["p"] and rv.get("agg") == "adt" and rv["adt"] == adt and rv["variant"] == variant:
            out.append((i, j, s))
        elif s["place"]["l"] == dest_local and not s["place"]["p"] and "use" in rv and getattr(body, "changed", False):
            # the value was built elsewhere (a helper's result, a combinator's payload) and arrives here by a move: in a function
            # that differs from the reference tree, resolve it by the definitions reaching this point
            if sym is None:
                from analysis.sym import Sym
                sym = Sym(body)
                live = body.live_blocks()
            if i not in live:
                continue
            v = sym.at(i, j).rvalue(rv)
            if v[0] == "agg" and v[1] == adt and v[2] == variant:
                out.append((i, j, s))
            elif v[0] == "local":
                # several definitions reach the move (`let r = loop { .. break Ok(x) .. break Err(e) }; drop(g); r`): each
                # definition that builds the variant is an exit row of its own, located where it is built
                for q in _reaching_aggregates(body, op_place(rv["use"]), i, j):
                    s2 = body.blocks[q[0]]["stmts"][q[1]]
                    if s2["rv"]["adt"] == adt and s2["rv"]["variant"] == variant and (q[0], q[1], s2) not in out:
                        out.append((q[0], q[1], s2))
    return out


def _reaching_aggregates(body, place, bb, idx, depth=0, seen=None):
    """points (bb, idx) of the `x = Adt::Variant{..}` statements whose value arrives, through whole-value moves only, at `place` read at (bb, idx)"""
    seen = seen if seen is not None else set()
    if place is None or place["p"] or depth > 6:
        return []
    out = []
    for pt in sorted(body.reaching_at(place["l"], bb, idx)):
        if pt in seen or pt[0] < 0:
            continue
        seen.add(pt)
        blk = body.blocks[pt[0]]
        if pt[1] >= len(blk["stmts"]):
            continue
        st = blk["stmts"][pt[1]]
        rv = st.get("rv") or {}
        if rv.get("agg") == "adt" and isinstance(rv.get("variant"), str):
            out.append(pt)
        elif "use" in rv:
            out.extend(_reaching_aggregates(body, op_place(rv["use"]), pt[0], pt[1], depth + 1, seen))
    return out


def texts(fs):
    return [f["text"] for f in fs]


def ok_fact(fs, pred):
    """`pred(x)` holds for some Result-valued expression x known to be Ok on this path.
    Recognised idioms: match/if-let on x, `x?` (Try::branch ... Continue), x.is_ok() / !x.is_err()."""
    for f in fs:
        e, v = f["expr"], f["val"]
        if v == "Ok" and pred(e):
            return True
        if v == "Continue" and is_call(e, "branch") and pred(e[2][0]):
            return True
        if v is True and is_call(e, "is_ok") and pred(e[2][0]):
            return True
        if v is False and is_call(e, "is_err") and pred(e[2][0]):
            return True
    return False


def blocks_between(body, start_bb, end_bb, unwind=False):
    """blocks lying on some path start_bb -> end_bb (inclusive)"""
    fwd = body.reachable((start_bb,), unwind)
    out = set()
    for b in fwd:
        if end_bb in body.reachable((b,), unwind):
            out.add(b)
    return out


def ok_exits(body):
    """(bb, idx, stmt) of `_0 = Result::Ok(..)` assignments, plus returns of a callee's result are ignored."""
    return blocks_assigning_variant(body, "std::result::Result", "Ok")


def callsite_ordinals(body):
    """callee path -> {bb: ordinal} for callees called from more than one site of `body`"""
    by = {}
    for i, t in body.calls():
        by.setdefault(t["callee"]["path"], []).append(i)
    return {p: {bb: k + 1 for k, bb in enumerate(sorted(bbs))} for p, bbs in by.items() if len(bbs) > 1}


def render_n(e, ords=None):
    """render with parameters named by position (for twin comparison); `ords` (from callsite_ordinals)
    distinguishes several call sites of the same callee as f#1, f#2 .."""
    from analysis.sym import render as _r
    def norm(x):
        if x[0] == "arg":
            return ("arg", x[1], "arg%d" % x[1])
        if x[0] == "local":
            return ("local", x[1], x[2] or "_%d" % x[1])
        if x[0] == "field":
            return ("field", norm(x[1]), x[2])
        if x[0] == "variant":
            return ("variant", norm(x[1]), x[2])
        if x[0] in ("index", "discr"):
            return (x[0], norm(x[1])) + tuple(x[2:])
        if x[0] == "call":
            nm = x[1]
            if ords and nm in ords and len(x) > 3 and x[3] in ords[nm]:
                nm = "%s#%d" % (nm, ords[nm][x[3]])
            return ("call", nm, tuple(norm(a) for a in x[2]), 0)
        if x[0] == "bin":
            return ("bin", x[1], norm(x[2]), norm(x[3]))
        if x[0] in ("un", "cast"):
            return (x[0], x[1], norm(x[2]))
        if x[0] == "agg":
            return ("agg", x[1], x[2], tuple((n, norm(v)) for n, v in x[3]))
        return x
    return _r(norm(e))


def value_rows(body, sym, facts, local, depth=2, fmt=None):
    """Decision rows for the value of `local`: list of (sorted guard texts, value text).  Multiply-defined
    locals feeding the value are expanded per definition (cross product), to `depth` levels."""
    ords = callsite_ordinals(body)
    if fmt is None:
        fmt = lambda z: render_n(z, ords)
    rows = []
    defs = body.defs_of(local)
    live = body.live_blocks()
    if getattr(body, "changed", False) and depth == 2:
        # a function that differs from the reference tree (helpers inlined, combinators rewritten, paths specialised): resolve
        # the locals the value depends on by the definitions that reach each row, one row per combination
        from analysis.sym import split_rows
        from analysis.guards import infeasible
        out = []
        okall = True
        for i in sorted(live):
            blk = body.blocks[i]
            pts = [(j, st["rv"]) for j, st in enumerate(blk["stmts"]) if st["k"] == "assign" and not st["place"]["p"] and st["place"]["l"] == local]
            t = blk["term"]
            pts = [(j, rv, None) for j, rv in pts]
            if t["k"] == "call" and not t["dest"]["p"] and t["dest"]["l"] == local:
                pts.append((len(blk["stmts"]), None, t))
            for j, rv, ct in pts:
                if ct is not None:
                    from analysis.sym import split_eval
                    alts = split_eval(sym, i, j, lambda v_, ct=ct, i=i: ("call", ct["callee"]["path"], tuple(v_.op(a) for a in ct["args"]), i))
                else:
                    alts = split_rows(sym, i, j, rv)
                if alts is None:
                    okall = False
                    break
                from analysis.guards import path_facts
                for ch, v in alts:
                    # a row block several edges lead into (`a || b` arms, `A | B =>`) is one row per way in
                    for base in path_facts(body, sym, facts, i):
                        fs = list(base)
                        have = {_fkey(f) for f in fs}
                        for pt in ch.values():
                            if pt[0] >= 0:
                                for f in facts_at(body, sym, facts, pt[0]):
                                    if _fkey(f) not in have:
                                        have.add(_fkey(f))
                                        fs.append(f)
                        if infeasible(fs):
                            continue
                        row = (sorted(set(_gtexts(fs, fmt, ords))), v)
                        if row not in out:
                            out.append(row)
            if not okall:
                break
        if okall:
            return [(g, fmt(v) if not isinstance(v, str) else v) for g, v in out]
    for d in defs:
        if d[0] == "arg":
            rows.append(([], ("arg", local, None), None))
            continue
        bb = d[1]
        if bb not in live:
            continue
        fs = facts_at(body, sym, facts, bb)
        if d[0] == "assign":
            v = sym.rvalue(d[3])
        else:
            t = d[2]
            v = ("call", t["callee"]["path"], tuple(sym.op(a) for a in t["args"]), bb)
        rows.append((fs, v, bb))
    out = []
    for fs, v, bb in rows:
        inner = [x for x in walk(v) if x[0] == "local" and len(body.defs_of(x[1])) > 1]
        if inner and depth > 0:
            l2 = inner[0][1]
            for g2, v2 in value_rows(body, sym, facts, l2, depth - 1, fmt=lambda z: z):
                # only combinations whose definitions can reach this use
                vv = _subst(v, ("local", l2), v2)
                out.append((sorted(set(_gtexts(fs, fmt, ords) + g2)), vv))
        else:
            out.append((sorted(set(_gtexts(fs, fmt, ords))), v))
    if fmt is not None and depth == 2:
        return [(g, fmt(v) if not isinstance(v, str) else v) for g, v in out]
    return out


def _fkey(f):
    """identity of a fact: the expression (structural - two calls of one function are two values) and the value"""
    try:
        hash(f["expr"])
        return (f["expr"], str(f["val"]))
    except TypeError:
        return (f["text"], str(f["val"]))


def _gtexts(fs, fmt, ords=None):
    out = []
    for f in fs:
        e = f.get("expr")
        if isinstance(e, tuple) and e and e[0] == "agg" and isinstance(e[2], str) and str(f["val"]) == e[2]:
            continue    # `Ok(x) is Ok`: a test decided by construction says nothing about the path
        try:
            out.append("%s is %s" % (render_n(f["expr"], ords), f["val"]))
        except Exception:
            out.append(f["text"])
    return out


def _subst(e, key, val):
    if e[0] == key[0] and e[1] == key[1]:
        return val
    k = e[0]
    if k in ("field", "variant"):
        return (k, _subst(e[1], key, val), e[2])
    if k in ("index", "discr"):
        return (k, _subst(e[1], key, val))
    if k == "call":
        return ("call", e[1], tuple(_subst(a, key, val) for a in e[2]), e[3])
    if k == "bin":
        return ("bin", e[1], _subst(e[2], key, val), _subst(e[3], key, val))
    if k in ("un", "cast"):
        return (k, e[1], _subst(e[2], key, val))
    if k == "agg":
        return ("agg", e[1], e[2], tuple((n, _subst(v, key, val)) for n, v in e[3]))
    return e


def derived_frame_writers(facts):
    """in-crate functions that encode a header and write it themselves (`w.write_all(&header.encode())`): frame writers, whatever
    they are called and wherever they live (a free function that became a method of a small struct is still the frame writer)"""
    out = set()
    for cb, ci, ct in facts.calls_to("header::Header::encode"):
        if "{inl#" in cb.path:
            continue
        if any(t["callee"]["name"] in ("write_all", "write", "write_vectored") for _, t in cb.calls()):
            out.add(cb.path[:-len("::{closure#0}")] if cb.path.endswith("::{closure#0}") else cb.path)
    return out


def _subst_locals(e, m):
    if isinstance(e, tuple):
        if len(e) >= 2 and e[0] == "local" and e[1] in m:
            return m[e[1]]
        return tuple(_subst_locals(x, m) for x in e)
    return e


def value_alternatives(body, sym, facts, bb, fs, limit=8):
    """Fact lists at block bb with merged locals resolved: a comparison against a variable that has several reaching
    definitions (`let limit = opt.unwrap_or(MAX)` once the combinator is a match) says something different for each of them.
    One fact list per feasible combination of definitions, each with the merged local replaced by that definition's value
    and the facts holding where the definition was made added.  Without merged locals in the facts: [fs]."""
    from analysis.sym import split_eval
    from analysis.guards import infeasible
    locs = sorted({x[1] for f in fs for x in walk(f["expr"]) if isinstance(x, tuple) and len(x) >= 2 and x[0] == "local" and isinstance(x[1], int)})
    locs = [l for l in locs if len(body.defs_of(l)) > 1]
    if not locs:
        return [fs]
    alts = split_eval(sym, bb, 0, lambda v_: tuple(v_.local(l) for l in locs), limit=limit)
    if not alts:
        return [fs]
    out = []
    for ch, vals in alts:
        m = dict(zip(locs, vals))
        cur = []
        for f in fs:
            e2 = _subst_locals(f["expr"], m)
            g = dict(f)
            if e2 != f["expr"]:
                g["expr"] = e2
                g["text"] = "%s is %s" % (render(e2), f["val"])
            cur.append(g)
        have = {(repr(f["expr"]), repr(f["val"])) for f in cur}
        for pt in ch.values():
            if pt[0] >= 0:
                for f in facts_at(body, sym, facts, pt[0]):
                    k = (repr(f["expr"]), repr(f["val"]))
                    if k not in have:
                        have.add(k)
                        cur.append(f)
        if not infeasible(cur, facts.adts):
            out.append(cur)
    return out or [fs]
