"""C08 - bulk numeric bodies: the clauses of the property that live in repe's own source."""
from analysis.affine import Affine, Form
from analysis.flow import term_pt
from analysis.guards import facts_at, field_writes
from analysis.mir import callee_matches, op_place
from analysis.sym import Sym, render, is_call, const_val, walk
from rules.common import texts, value_rows, render_n, blocks_assigning_variant

EXPLANATION = (
    "Only the clauses whose truth is in repe's source are decided; byte-identity of the bulk and serde encodings, NaN "
    "payloads and bit-exact decoding live entirely inside the `beve` crate and are NOT decided here. Decided: "
    "(size-writer-pairs) every buffered builder and its streaming sibling use the same (size function, writer function) pair "
    "of beve on the same slice - typed: (typed_slice_size, to_writer_typed_slice), complex: (complex_slice_size, "
    "to_writer_complex_slice), aligned: (aligned_typed_slice_size(s, base), write_aligned_typed_slice_at(_, s, base)) - set "
    "body_format = Beve, and frame through C01's normal form; (padding-base; also: the blocking and async clients apply the body closure to a builder whose query is already set and never set the query afterwards) both `base` arguments of the aligned form are the "
    "same value 48 + len(self.query), which is the body offset of the emitted frame (and of into_wire_bytes' in-place shift); "
    "(borrow-then-own) the borrowing decoder tries the zero-copy borrow only on the aligned-marker edge (0x5C), falls back to "
    "the owned aligned read on its Err edge (whose error propagates), uses the plain typed read otherwise, and the result is "
    "consumed only through as_slice; (format-guard) every beve::read_*slice* call on a message body is guarded by "
    "body_format == Beve in the same body or at every call site of its private helper; require_body_format returns Ok only "
    "when the header's code equals the expected one."
    " (size-writer-pairs, closed over call sites) at every call of write_message_streaming the declared body length and the closure's one emission are a documented pair over the same value."
    ' In every client entry point named *typed_slice* the feasible builder calls - judged inside the body closure against the flag value the entry point captures - are body_aligned_typed_slice exactly for the aligned-named ones.'
)
ASSUMPTIONS = ["beve's size functions return the number of bytes its writer functions emit for the same arguments",
               "element-type rejection is performed by beve's readers"]

PAIRS = (
    ("typed", "beve::typed_slice_size", "beve::to_writer_typed_slice", "message::MessageBuilder::body_typed_slice", "io::write_message_typed_slice"),
    ("complex", "beve::complex_slice_size", "beve::to_writer_complex_slice", "message::MessageBuilder::body_complex_slice", "io::write_message_complex_slice"),
)


def run(facts, R):
    beve_code = None
    for v in facts.adt("constants::BodyFormat")["variants"]:
        if v["name"] == "Beve":
            beve_code = v["discr"]
    BEVE_CODE[0] = beve_code
    # ---------------- format-gate-argument: a helper that gates on a `body_format` parameter is handed the request's body
    # format - not its query format, whose JSON-pointer code happens to equal the BEVE body code
    n_gate = 0
    for hb in facts.bodies.values():
        if hb.kind not in ("fn", "method") or not hb.path.startswith(("server::", "message::", "server_request::")):
            continue
        ks = [a for a in range(1, hb.argc + 1) if hb.debug_name(a) == "body_format" and hb.local_ty(a) == "u16"]
        for k in ks:
            for cb, ci, ct in facts.calls_to(hb.path):
                if k - 1 >= len(ct["args"]):
                    continue
                n_gate += 1
                a = Sym(cb).op(ct["args"][k - 1])
                ok = (a[0] == "field" and a[2] == "body_format") or (a[0] == "arg" and cb.debug_name(a[1]) == "body_format")
                R.check(ok, "format-gate-argument", cb.path, "%s is given the body format" % hb.path.rsplit("::", 1)[-1],
                        "the body-format gate of %s is handed %s: a body labelled with another format would be decoded as a typed array"
                        % (hb.path.rsplit("::", 1)[-1], render_n(a)), ct.get("span"), render_n(a))
    R.floor("format-gate-argument", n_gate, 2, "calls of helpers gating on a body_format parameter")
    # ---------------- size-writer-pairs -------------------------------------------------------------------
    for kind, sizefn, writefn, builder, streamer in PAIRS:
        b = facts.body(builder)
        s = Sym(b)
        sz = [(i, t) for i, t in b.calls() if callee_matches(t["callee"], sizefn)]
        wr = [(i, t) for i, t in b.calls() if callee_matches(t["callee"], writefn)]
        other = [t["callee"]["path"] for i, t in b.calls() if t["callee"]["path"].startswith("beve::") and not callee_matches(t["callee"], sizefn, writefn)]
        ok = len(sz) == 1 and len(wr) == 1 and not other
        if ok:
            ok = render_n(s.op(sz[0][1]["args"][0])) == "arg2" and render_n(s.op(wr[0][1]["args"][1])) == "arg2"
        R.check(ok, "size-writer-pairs", builder, "%s builder uses (%s, %s) on the same slice" % (kind, sizefn.split("::")[1], writefn.split("::")[1]),
                "builder calls size=%d writer=%d other beve=%s" % (len(sz), len(wr), other), b.span, "pair on arg `slice`")
        _format_is_beve(facts, R, b, s, beve_code, "message::MessageBuilder", "body_format")
        # the written buffer becomes the body
        if wr:
            buf = s.op(wr[0][1]["args"][0])
            stores = [w for i, j, w in b.assigns() if [e.get("f") for e in w["place"]["p"] if isinstance(e, dict)][-1:] == ["body"]]
            okb = len(stores) == 1 and s.rvalue(stores[0]["rv"]) == buf
            if not stores and s.local(0)[0] == "agg" and s.local(0)[1] == "message::MessageBuilder":
                okb = dict(s.local(0)[3]).get("body") == buf       # returned as a struct literal
            R.check(okb, "size-writer-pairs", builder, "self.body = the buffer written", "body is set to %s" % [render(s.rvalue(x["rv"]))[:80] for x in stores], b.span)
        sb = facts.body(streamer)
        ss = Sym(sb)
        sz2 = [(i, t) for i, t in sb.calls() if callee_matches(t["callee"], sizefn)]
        ws = [(i, t) for i, t in sb.calls() if callee_matches(t["callee"], "io::write_message_streaming")]
        ok = len(sz2) == 1 and len(ws) == 1 and render_n(ss.op(sz2[0][1]["args"][0])) == "arg4"
        if not ws and getattr(sb, "changed", False):
            # the frame is written out in place (no write_message_streaming): the declared body length is size(slice) and the one
            # beve writer in the function is the paired writer, on the same slice, into the caller's writer
            wr3 = [(i, t) for i, t in sb.calls() if t["callee"]["path"].startswith("beve::") and not callee_matches(t["callee"], sizefn)]
            bl = [ss.rvalue(w["rv"]) for w in field_writes(facts, "header::Header", "body_length", include_borrows=False) if w["body"] is sb and w["kind"] == "store"]
            ok = len(sz2) == 1 and render_n(ss.op(sz2[0][1]["args"][0])) == "arg4" and len(wr3) == 1 and callee_matches(wr3[0][1]["callee"], writefn) \
                and render_n(ss.op(wr3[0][1]["args"][1])) == "arg4" and render_n(ss.op(wr3[0][1]["args"][0])) == "arg1" \
                and len(bl) == 1 and is_call(bl[0], sizefn.rsplit("::", 1)[-1]) and bl[0][3] == sz2[0][0]
            R.check(ok, "size-writer-pairs", streamer, "%s streaming writer uses the same pair on the same slice" % kind,
                    "the streaming writer frames in place but does not declare size(slice) and write writer(w, slice)", sb.span,
                    "header.body_length = %s(slice); body = %s(w, slice)" % (sizefn.split("::")[1], writefn.split("::")[1]))
            _format_is_beve(facts, R, sb, ss, beve_code, "header::Header", "body_format")
            continue
        if ok:
            a = [ss.op(x) for x in ws[0][1]["args"]]
            blen = a[3]
            clo = a[4]
            ok = is_call(blen, sizefn) and render_n(a[2]) == "arg3" and clo[0] == "agg" and dict(clo[3]).get("slice") is not None and render_n(dict(clo[3])["slice"]) == "arg4"
            if ok:
                cb = facts.body(clo[1].split(":", 1)[1])
                cs = Sym(cb)
                wr2 = [(i, t) for i, t in cb.calls() if t["callee"]["path"].startswith("beve::")]
                ok = len(wr2) == 1 and callee_matches(wr2[0][1]["callee"], writefn) and render_n(cs.op(wr2[0][1]["args"][1])).endswith(".slice") and render_n(cs.op(wr2[0][1]["args"][0])) == "arg2"
        R.check(ok, "size-writer-pairs", streamer, "%s streaming writer uses the same pair on the same slice" % kind,
                "streaming sibling does not frame (size(slice), |w| writer(w, slice))", sb.span, "body_len = %s(slice); body = %s(w, slice)" % (sizefn.split("::")[1], writefn.split("::")[1]))
        _format_is_beve(facts, R, sb, ss, beve_code, "header::Header", "body_format")
    # every streaming frame, whoever writes it: the declared body length and the bytes the body closure writes come from one
    # documented pair over the same value - (len(x), write_all(x)), (typed_slice_size(x), to_writer_typed_slice(w, x)),
    # (complex_slice_size(x), to_writer_complex_slice(w, x)) - written straight into the frame's writer.  A streaming sibling
    # added later that declares one encoder's size and emits through another (or through an adaptor that rewrites the bytes)
    # cannot be shown to emit the builder's frame for every slice, the empty one included
    SPAIRS = {"beve::typed_slice_size": "beve::to_writer_typed_slice", "beve::complex_slice_size": "beve::to_writer_complex_slice"}
    n_stream = 0
    for sname in ("io::write_message_streaming", "async_io::write_message_streaming_async"):
        for b_, i_, t_ in facts.calls_to(sname):
            if len(t_["args"]) < 5:
                continue
            n_stream += 1
            s_ = Sym(b_)
            blen, clo = s_.op(t_["args"][3]), s_.op(t_["args"][4])
            ok, det = False, "closure %s" % render(clo)[:60]
            if clo[0] == "agg" and str(clo[1]).startswith("closure:") and str(clo[1]).split(":", 1)[1] in facts.bodies:
                cb = facts.body(str(clo[1]).split(":", 1)[1])
                cs = Sym(cb)
                caps = dict(clo[3])
                emits = [(ci, ct) for ci, ct in cb.calls() if ct["callee"]["name"] in ("write_all", "write", "write_vectored", "write_fmt", "extend_from_slice") or ct["callee"]["path"].startswith("beve::")
                         or ct["callee"]["path"] in facts.bodies]

                def _cap(e):
                    while e[0] == "call" and len(e[2]) == 1 and e[1].rsplit("::", 1)[-1] in ("deref", "as_ref", "borrow", "as_slice"):
                        e = e[2][0]
                    if e[0] == "field" and e[1][0] == "arg" and e[1][1] == 1:
                        return caps.get(e[2])
                    if e[0] == "field":
                        # a field of a captured value (`resp.body` with `resp` captured whole)
                        inner = _cap(e[1])
                        if inner is not None:
                            return ("field", inner, e[2])
                    return None
                det = "declared %s; closure emits %s" % (render(blen)[:80], [ct["callee"]["path"].rsplit("::", 2)[-1] + "(" + ", ".join(render(cs.op(a_))[:30] for a_ in ct["args"]) + ")" for _, ct in emits])
                if len(emits) == 1 and len(emits[0][1]["args"]) == 2:
                    ct = emits[0][1]
                    to_w = cs.op(ct["args"][0])
                    to_w_ok = to_w[0] == "arg" and to_w[1] == 2
                    x = _cap(cs.op(ct["args"][1]))
                    bl = blen
                    while bl[0] == "cast" and len(bl) > 2 and isinstance(bl[2], tuple):
                        bl = bl[2]
                    if ct["callee"]["name"] == "write_all" and to_w_ok and x is not None and is_call(bl, "len") and bl[2]:
                        y = bl[2][0]
                        while y[0] == "call" and len(y[2]) == 1 and y[1].rsplit("::", 1)[-1] in ("deref", "as_ref", "borrow", "as_slice"):
                            y = y[2][0]
                        ok = y == x
                    elif to_w_ok and x is not None and bl[0] == "call" and SPAIRS.get(bl[1]) == ct["callee"]["path"] and bl[2]:
                        ok = bl[2][0] == x
            R.check(ok, "size-writer-pairs", b_.path, "a streamed frame declares the length of what its body closure writes",
                    "%s streams a frame whose declared body length and body writer are not one documented pair over the same value (%s): "
                    "the frame is not provably the buffered builder's frame for every input (empty slices included)" % (b_.path.rsplit("::", 1)[-1], det), t_.get("span"), det[:160])
    R.floor("size-writer-pairs", n_stream, 1, "write_message_streaming call sites")

    # aligned
    ab = facts.body("message::MessageBuilder::body_aligned_typed_slice")
    aff = Affine(ab, facts)
    s = aff.sym
    sz = [(i, t) for i, t in ab.calls() if callee_matches(t["callee"], "beve::aligned_typed_slice_size")]
    wr = [(i, t) for i, t in ab.calls() if callee_matches(t["callee"], "beve::write_aligned_typed_slice_at")]
    ok = len(sz) == 1 and len(wr) == 1
    R.check(ok, "size-writer-pairs", ab.path, "aligned builder uses (aligned_typed_slice_size, write_aligned_typed_slice_at)", "size=%d writer=%d" % (len(sz), len(wr)), ab.span)
    if ok:
        same_slice = render_n(s.op(sz[0][1]["args"][0])) == "arg2" and render_n(s.op(wr[0][1]["args"][1])) == "arg2"
        b1 = aff.op_form(aff.state_at(term_pt(ab, sz[0][0])), sz[0][1]["args"][1])
        b2 = aff.op_form(aff.state_at(term_pt(ab, wr[0][0])), wr[0][1]["args"][2])
        want = b1 is not None and b1.c == 48 and len(b1.t) == 1 and list(b1.t.values()) == [1] and "query" in str(list(b1.t)[0]) and list(b1.t)[0][0] == "len"
        R.check(same_slice and b1 is not None and b1 == b2, "size-writer-pairs", ab.path, "same slice and same base for size and writer",
                "size(base=%s) vs writer(base=%s)" % (b1, b2), ab.span, "base %s" % b1)
        R.check(want, "padding-base", ab.path, "base = 48 + len(self.query)", "aligned padding is computed for body offset %s, the frame puts the body at 48 + len(query)" % b1, ab.span, str(b1))
        _format_is_beve(facts, R, ab, s, beve_code, "message::MessageBuilder", "body_format")

    # every other place that computes aligned padding (a streaming sibling of the aligned builder): the base offset handed to
    # write_aligned_typed_slice_at / aligned_typed_slice_size is 48 + the length of a query *slice or vector* - the bytes that will
    # precede the body - never a header length field, which the frame writers only fill in afterwards
    n_al = 0
    for b_ in facts.bodies.values():
        if b_.path == ab.path or "::tests::" in b_.path:
            continue
        aff_ = None
        for i_, t_ in b_.calls():
            if not callee_matches(t_["callee"], "beve::write_aligned_typed_slice_at", "beve::aligned_typed_slice_size"):
                continue
            aff_ = aff_ or Affine(b_, facts)
            n_al += 1
            base_op = t_["args"][2] if t_["callee"]["name"] == "write_aligned_typed_slice_at" else t_["args"][1]
            bf = aff_.op_form(aff_.state_at(term_pt(b_, i_)), base_op)
            okb = bf is not None and bf.c == 48 and len(bf.t) == 1 and list(bf.t.values()) == [1] and list(bf.t)[0][0] == "len" and "query" in str(list(bf.t)[0])
            R.check(okb, "padding-base", b_.path, "base = 48 + len(query)",
                    "aligned padding is computed for body offset %s: not 48 + the length of the query bytes that precede the body (a header's query_length is only "
                    "stamped by the frame writer afterwards), so the streamed frame pads differently from the buffered builder's" % bf, t_.get("span"), str(bf))

    # ---------------- borrow-then-own -----------------------------------------------------------------------
    rb = facts.body("server::decode_typed_slice_ref_body")
    rs = Sym(rb)
    marker = facts.const_value("server::BEVE_ALIGNED_TYPED_ARRAY_MARKER")
    R.check(marker == 0x5C, "borrow-then-own", rb.path, "marker == 0x5C", "aligned marker constant is %#x" % marker, rb.span)
    calls = {t["callee"]["name"]: (i, t) for i, t in rb.calls() if t["callee"]["path"].startswith("beve::")}
    R.check(set(calls) == {"read_aligned_typed_slice_ref", "read_aligned_typed_slice", "read_typed_slice"}, "borrow-then-own", rb.path, "three decoders", "decoders used: %s" % sorted(calls), rb.span)
    for nm, (i, t) in calls.items():
        fs = texts(facts_at(rb, rs, facts, i))
        # the marker test: `body.first() == Some(&MARKER)` or `body.starts_with(&[MARKER])`
        def _mk(x):
            return ("first(body)" in x or "starts_with(body, array{0: BEVE_ALIGNED_TYPED_ARRAY_MARKER})" in x) and "BEVE_ALIGNED_TYPED_ARRAY_MARKER" in x
        on_marker = any(_mk(x) and x.endswith("is True") for x in fs)
        off_marker = any(_mk(x) and x.endswith("is False") for x in fs)
        ref_err = any("read_aligned_typed_slice_ref(body) is Err" in x for x in fs)
        if nm == "read_aligned_typed_slice_ref":
            ok = on_marker and not ref_err
        elif nm == "read_aligned_typed_slice":
            ok = on_marker and ref_err
        else:
            ok = off_marker
        R.check(ok and render_n(rs.op(t["args"][0])) == "arg1", "borrow-then-own", rb.path, "%s on the right edge" % nm,
                "%s is reached under %s" % (nm, fs), t.get("span"), "; ".join(x[-60:] for x in fs))
    rows = value_rows(rb, rs, facts, 0)
    kinds = sorted((("Borrowed" if "Borrowed" in v else "Owned" if "Owned" in v else "residual" if ("from_residual" in v or v.startswith("Result::Err{")) else "?") for g, v in rows))
    R.check(kinds.count("Borrowed") == 1 and kinds.count("Owned") == 2 and "?" not in kinds, "borrow-then-own", rb.path, "result rows", "rows: %s" % kinds, rb.span, str(kinds))
    for g, v in rows:
        if "Borrowed" in v:
            R.check("read_aligned_typed_slice_ref(arg1) as Ok" in v, "borrow-then-own", rb.path, "Borrowed carries the borrow", v[:120], rb.span)
    # SliceInput consumed only through as_slice
    n_use = 0
    for b in facts.bodies.values():
        if not b.path.startswith("server::") and not b.path.startswith("<server::"):
            continue
        for i, t in b.calls():
            for k, ty in enumerate(t.get("arg_tys", [])):
                if "SliceInput<" in ty and not ty.startswith("std::result") and not ty.startswith("std::ops"):
                    n_use += 1
                    R.check(t["callee"]["name"] in ("as_slice",), "borrow-then-own", b.path, "SliceInput used via as_slice", "SliceInput passed to %s" % t["callee"]["path"], t.get("span"))
    R.floor("borrow-then-own", n_use, 2, "uses of SliceInput values")

    # ---------------- decoded-elements-come-from-the-reader: "a body of the wrong element type or format is rejected rather than
    # reinterpreted" - what a bulk decoder returns as Ok is what beve's typed-array reader returned as Ok for that body, never a
    # value made up on the side (an "empty slice" shortcut taken on a hand-rolled look at the first bytes)
    n_dec = 0
    for fn_ in ("message::Message::decode_typed_slice", "message::Message::decode_complex_slice", "server::decode_typed_slice_param",
                "server::decode_typed_slice_param_view", "server::decode_typed_slice_ref_body"):
        if not facts.has_body(fn_):
            continue
        db_ = facts.body(fn_)
        for g_, v_ in value_rows(db_, Sym(db_), facts, 0):
            if not v_.startswith("Result::Ok{") or "Result::Err{" in v_ or "create_error_response" in v_:
                continue        # a rejection row: the reply is an error response, no slice is handed on
            n_dec += 1
            R.check("beve::read_" in v_ and ("as Continue).0" in v_ or "as Ok).0" in v_), "decoded-elements-come-from-the-reader", fn_, "Ok value is the reader's Ok value",
                    "%s returns %s without it being the typed-array reader's result: some bodies are accepted as a slice the reader would have rejected" % (fn_.rsplit("::", 1)[-1], v_[:120]),
                    db_.span, v_[:100])
    R.floor("decoded-elements-come-from-the-reader", n_dec, 5, "Ok rows of the bulk decoders")

    # ---------------- decode-paths-agree: a bulk route is reached through the borrowing `handle_view` (TCP servers, WebSocket
    # inline) or the owned `handle` (middleware-wrapped routes, WebSocket off-reader).  "Each decoder reads the other encoder's
    # output ... wherever the frame lands" needs both paths of a slice handler to accept the same wire forms and answer alike:
    # C07's handler-twins comparison, restricted to the slice handlers (shared)
    from analysis import report as _report7
    from rules import C07 as _c07
    sub7 = _report7.Report(R.prop, R.tier, R.config)
    try:
        _c07.run(facts, sub7)
    except Exception as e:
        sub7.bad("anchor-resolution", "<crate>", "shared-C07-rules", "the shared handler-twins rules could not run: %s" % e)
    n_tw = 0
    for inst in sub7.instances:
        if inst["rule"] == "handler-twins" and "Slice" in str(inst.get("fn")) + str(inst.get("what")) and inst["verdict"] == "holds":
            R.instances.append(inst)
            n_tw += 1
    for v in sub7.violations:
        if (v["rule"] == "handler-twins" and "Slice" in str(v.get("fn")) + str(v.get("what"))) or v["rule"] == "anchor-resolution":
            R.bad("decode-paths-agree", v["fn"], v["what"], v["msg"], v.get("site"), v.get("path"))
            n_tw += 1
    R.floor("decode-paths-agree", n_tw, 2, "owned/borrowed comparisons of the slice handlers")

    # ---------------- format-guard -----------------------------------------------------------------------------
    helper_sites = {}
    n = 0
    for b in facts.bodies.values():
        for i, t in b.calls():
            c = t["callee"]
            if not (c["path"].startswith("beve::read_") and "slice" in c["name"] and "from_reader" not in c["name"]):
                continue
            n += 1
            s = Sym(b)
            fs = facts_at(b, s, facts, i)
            guarded = _beve_guard(fs)
            arg = render_n(s.op(t["args"][0]))
            if guarded:
                R.ok("format-guard", b.path, "%s guarded by body_format == Beve" % c["name"], t.get("span"), "same body")
            else:
                helper_sites.setdefault(b.path, []).append((t, arg))
    R.floor("format-guard", n, 7, "beve::read_*slice* call sites")
    for hp, sites in helper_sites.items():
        hb = facts.body(hp)
        callers = facts.calls_to(hp)
        private = hb.d.get("vis", "").startswith("Restricted") or hb.d.get("vis") != "Public"
        allg = bool(callers)
        for cb, ci, ct in callers:
            cs = Sym(cb)
            if not _beve_guard(facts_at(cb, cs, facts, ci)):
                allg = False
        R.check(private and allg, "format-guard", hp, "helper reached only under body_format == Beve",
                "%s reads a bulk slice without a format guard and is %s / has an unguarded caller" % (hp, "private" if private else "public"), hb.span,
                "%d call site(s), all on the Beve arm" % len(callers))
    # (the aligned entry points send the aligned form) a client function named `*typed_slice_aligned*` builds its body with
    # body_aligned_typed_slice, a plain `*typed_slice*` one with body_typed_slice - also when both forms share one helper and a flag decides:
    # a builder call inside a closure is feasible only if the captured flag, as the entry point sets it, agrees with the branch it sits on
    n_ep = 0
    for p_, b_ in sorted(facts.bodies.items()):
        if p_.split("::")[0] not in ("client", "async_client", "websocket_client") or "::tests::" in p_ or "{closure" in p_.split("::{inl#")[0].replace("::{closure#0}", ""):
            continue
        last_ = p_.replace("::{closure#0}", "").rsplit("::", 1)[-1]
        if "typed_slice" not in last_ or not last_.startswith(("call_", "notify_", "send_")):
            continue
        want_aligned = "aligned" in last_
        bs_ = Sym(b_)
        feasible = []
        fam = [b_] + facts.children(p_)
        caps = {}
        for fb_ in fam:
            fbs_ = Sym(fb_) if fb_ is not b_ else bs_
            for i_, bl_ in enumerate(fb_.blocks):
                for st_ in bl_["stmts"]:
                    if st_["k"] == "assign" and st_["rv"].get("agg") in ("closure", "coroutine"):
                        v_ = fbs_.rvalue(st_["rv"])
                        caps[st_["rv"]["def"]] = dict(v_[3])
        for fb_ in fam:
            fbs_ = Sym(fb_) if fb_ is not b_ else bs_
            cap_ = caps.get(fb_.path, {})
            for i_, t_ in fb_.calls():
                nm_ = t_["callee"]["name"]
                if nm_ not in ("body_aligned_typed_slice", "body_typed_slice") or "MessageBuilder" not in t_["callee"]["path"]:
                    continue
                ok_here = True
                for f_ in facts_at(fb_, fbs_, facts, i_):
                    e_ = f_["expr"]
                    if e_[0] == "field" and e_[1][0] == "arg" and e_[1][1] == 1 and e_[2] in cap_:
                        cv_ = cap_[e_[2]]
                        if isinstance(f_["val"], bool) and cv_[0] == "const" and isinstance(cv_[1], (bool, int)) and bool(cv_[1]) != f_["val"]:
                            ok_here = False
                        # ... or a fieldless enum variant (`SliceWireForm::Aligned`) matched in the closure
                        if isinstance(f_["val"], str) and cv_[0] == "agg" and cv_[2] is not None and not cv_[3] and cv_[2] != f_["val"]:
                            ok_here = False
                if ok_here:
                    feasible.append((nm_, t_.get("span")))
        if not feasible:
            continue
        n_ep += 1
        wrong = [x for x in feasible if (x[0] == "body_aligned_typed_slice") != want_aligned]
        R.check(not wrong, "size-writer-pairs", p_, "%s entry point builds the %s form" % ("aligned" if want_aligned else "plain", "aligned" if want_aligned else "packed"),
                "%s can build its body with %s: a route that borrows the aligned form never sees it (or a plain route is sent the aligned form)" % (last_, wrong[0][0] if wrong else ""),
                wrong[0][1] if wrong else b_.span, "only %s reachable" % ("body_aligned_typed_slice" if want_aligned else "body_typed_slice"))
    R.floor("size-writer-pairs", n_ep, 4, "typed-slice entry points of the clients")

    # (padding-base, caller side) the aligned form pads for 48 + len(query) *as it is when the body is built*: the clients
    # hand the body closure a builder whose query is already set, and nothing changes the query afterwards
    n_bf = 0
    for cpath in ("client::Client::call_with_body_and_timeout", "async_client::AsyncClient::call_with_body_and_timeout::{closure#0}"):
        cb = facts.body(cpath)
        cs = Sym(cb)
        for i, t in cb.calls():
            if t["callee"]["name"] != "call_once" or len(t["args"]) != 2:
                continue
            tup = cs.op(t["args"][1])
            if not (tup[0] == "agg" and tup[1] == "tuple" and tup[3] and any(is_call(x, "message::Message::builder") for x in walk(tup))):
                continue
            n_bf += 1
            bexpr = tup[3][0][1]
            qset = any(x[0] == "call" and x[1].rsplit("::", 1)[-1] in ("query_str", "query_bytes") for x in walk(bexpr))
            R.check(qset, "padding-base", cb.path, "body closure runs on a builder whose query is already set",
                    "the body closure is applied to %s: an aligned bulk body built here is padded for a query that is not set yet (body would land misaligned)" % render(bexpr)[:120],
                    t.get("span"), "builder.id(..).query_str(path) before body_fn")
            later = []
            for j, u in cb.calls():
                if u["callee"]["name"] in ("query_str", "query_bytes", "query_format_code") and "MessageBuilder" in u["callee"]["path"] and j in cb.reachable(cb.succs(i)) and \
                        u["callee"]["name"] != "query_format_code":
                    later.append(u["callee"]["name"])
            R.check(not later, "padding-base", cb.path, "query unchanged after the body is built", "the query is set again (%s) after the body closure ran" % later, t.get("span"))
    R.floor("padding-base", n_bf, 2, "client body-closure applications")
    rq = facts.body("message::Message::require_body_format")
    rqs = Sym(rq)
    for i, j, st in blocks_assigning_variant(rq, "std::result::Result", "Ok"):
        fl = facts_at(rq, rqs, facts, i)
        fs = texts(fl)
        from rules.common import norm_cmp
        ok = False
        for f in fl:
            nc = norm_cmp(f["expr"], f["val"])
            if nc and nc[0] == "Eq" and any(render(x).endswith("header.body_format") for x in nc[1:]):
                ok = True
        R.check(ok, "format-guard", rq.path, "Ok iff header.body_format == expected", "require_body_format returns Ok under %s" % fs, st.get("span"), fs[-1][:80] if fs else None)


BEVE_CODE = [1]      # discriminant of BodyFormat::Beve, refreshed from the facts in run()


def _beve_guard(fs):
    for f in fs:
        t = f["text"]
        e = f["expr"]
        if e[0] == "bin" and e[1] in ("Eq", "Ne") and ((e[1] == "Eq" and f["val"] is True) or (e[1] == "Ne" and f["val"] is False)):
            # `header.body_format == BodyFormat::Beve as u16` spelled as an integer comparison
            for a_, c_ in ((e[2], e[3]), (e[3], e[2])):
                from analysis.sym import eval_const as _ec
                if render(a_).endswith("body_format") and (const_val(c_) == BEVE_CODE[0] or _ec(c_) == BEVE_CODE[0]):
                    return True
        if f["val"] == "Beve" and "body_format" in t:
            return True
        if f["val"] == "Continue" and "require_body_format" in t and "BodyFormat::Beve" in t:
            return True
    return False


def _format_is_beve(facts, R, b, s, beve_code, adt, field):
    from analysis.guards import field_writes
    from analysis.sym import eval_const
    from analysis.flow import must_cross, return_points
    ws = [w for w in field_writes(facts, adt, field, include_borrows=False) if w["body"] is b and w["kind"] == "store"]
    ok = len(ws) == 1
    det = None
    if ok:
        v = s.rvalue(ws[0]["rv"])
        det = render(v)
        ok = eval_const(v) == beve_code
        w = must_cross(b, [(0, 0)], return_points(b), [(ws[0]["bb"], ws[0]["idx"])], after_start=False)
        ok = ok and w is None
    elif not ws and s.local(0)[0] == "agg" and s.local(0)[1] == adt and field in dict(s.local(0)[3]):
        # the value is returned as a struct literal (`Self { body_format: .., ..self }`)
        v = dict(s.local(0)[3])[field]
        det = render(v)
        ok = eval_const(v) == beve_code
    elif not ws:
        # one-level summary: an in-crate helper that stores Beve into the header/builder it is given, on every path
        for i, t in b.calls():
            hb = facts.bodies.get(t["callee"]["path"])
            if hb is None:
                continue
            hws = [w for w in field_writes(facts, adt, field, include_borrows=False) if w["body"] is hb and w["kind"] == "store"]
            if len(hws) == 1 and eval_const(Sym(hb).rvalue(hws[0]["rv"])) == beve_code:
                w = must_cross(hb, [(0, 0)], return_points(hb), [(hws[0]["bb"], hws[0]["idx"])], after_start=False)
                if w is None:
                    ok, det = True, "via helper %s (unconditional store)" % hb.path
                else:
                    det = "helper %s stores Beve only on some paths" % hb.path
    R.check(ok, "size-writer-pairs", b.path, "sets body_format = Beve", "body_format is not set to Beve on every path (%s; stores: %s)" % (det, [render(s.rvalue(w["rv"])) for w in ws]), b.span, det)
