"""C19 - fleet calls retry only transport failures, boundedly, and recover afterwards."""
import re
from analysis.flow import must_cross, return_points, term_pt, trace_op
from analysis.guards import facts_at, _variants_for_discr
from analysis.mir import callee_matches, op_place
from analysis.sym import Sym, render, is_call, const_val, walk
from rules.common import texts, blocks_assigning_variant

EXPLANATION = (
    "The same rules run on all four retry loops (Fleet/AsyncFleet x json/message): (bounded-loop) the attempt lies only "
    "on the cycle of a `0..retry_policy.max_attempts` range iterator; (stop-rows) after an Ok outcome the loop head is "
    "unreachable and the result carries that value; after an Err the loop head is reachable only through the "
    "is_retryable_error(err)==true edge; is_retryable_error returns true only for RepeError::Io with one of the eight "
    "transport ErrorKinds, identically in both modules; (last-error-kept) every Err path stores Some(err) into the variable "
    "that becomes the result's error before continuing or leaving; (dead-client-dropped) every Err path on which the error "
    "is not known to be an application reply (RepeError::ServerError) crosses invalidate_client before the next attempt or "
    "the return, and ensure_connected returns the cached client only when one is stored and otherwise connects and stores; "
    "(tag-filter) the broadcast target set is nodes.values().filter(tag_set.is_subset(node.tags)) and each target spawns "
    "exactly one retrying call whose result is inserted under its node name; (attempt-timeout-configured) every client call "
    "inside a retry loop is given the node's config.timeout itself, resolved through closure captures. Not decided: enumeration of outcome sequences "
    "as such; a broadcast worker that panics loses its entry (documented gap `if let Ok(..) = join()`)."
    ' Wherever a future containing a retry loop is handed to a racing combinator (tokio timeout / select) the timer-won edge crosses invalidate_client.'
    ' Wherever a fleet function calls one of the with_retry loops no client request reaches that call on any path (an attempt made outside the loop is not counted against max_attempts).'
)
ASSUMPTIONS = ["Range<usize>::next yields each index once", "Client/AsyncClient report a dead connection as RepeError::Io or a decode error, never as ServerError"]

LOOPS = (
    ("fleet::Fleet::call_json_with_retry", "fleet"),
    ("fleet::Fleet::call_message_with_retry", "fleet"),
    ("async_fleet::AsyncFleet::call_json_with_retry::{closure#0}", "async_fleet"),
    ("async_fleet::AsyncFleet::call_message_with_retry::{closure#0}", "async_fleet"),
)
IO_KINDS = {"TimedOut", "ConnectionRefused", "ConnectionReset", "ConnectionAborted", "NotConnected", "UnexpectedEof", "WouldBlock", "Interrupted"}


def _switch_variants(body, facts, bb):
    t = body.term(bb)
    vm = _variants_for_discr(body, facts, t, bb)
    if not vm:
        return None
    out = {}
    for v, b in t["targets"]:
        out.setdefault(vm.get(v, str(v)), b)
    return out


def _retry_fn(facts, module):
    """the classification function the module's retry loops use: its own, or (the two copies deduplicated) the sibling module's"""
    own = module + "::is_retryable_error"
    if own in facts.bodies:
        return own
    for other in ("fleet", "async_fleet"):
        if other + "::is_retryable_error" in facts.bodies:
            return other + "::is_retryable_error"
    return own


def _counter_loop(facts, R, b, sym, fn):
    """`let mut attempt = 0; while attempt < max_attempts { ..; attempt += 1; }`: returns the loop-head block (the test), after
    checking that the counter starts at 0, is compared with retry_policy.max_attempts, is only ever incremented by one, and is
    incremented on every way round the loop (a `continue` that skipped it would retry without bound)."""
    heads = []
    for i in sorted(b.live_blocks()):
        t = b.term(i)
        if t["k"] == "switch" and t.get("on_ty") == "bool" and i in b.reachable(b.succs(i)):
            e = sym.op(t["on"])
            if e[0] == "bin" and e[1] == "Lt" and e[2][0] == "local" and render(e[3]).endswith("options.retry_policy.max_attempts"):
                heads.append((i, e[2][1]))
    if len(heads) != 1:
        return None
    H, c = heads[0]
    t = b.term(H)
    body_t = t["otherwise"] if [v for v, _ in t["targets"]] == [0] else [tb for v, tb in t["targets"] if v == 1][0]
    inits, incs, other = [], [], []
    for i, j, st in b.assigns():
        if st["place"]["l"] != c or st["place"]["p"] or i not in b.live_blocks():
            continue
        v = sym.at(i, j).rvalue(st["rv"])
        if const_val(v) == 0 and H not in b.reachable((H,)) or (const_val(v) == 0 and i not in b.reachable((body_t,))):
            inits.append((i, j))
        elif v[0] == "field" and v[2] == "0" and v[1][0] == "bin" and v[1][1] in ("AddWithOverflow", "Add") and v[1][2] == ("local", c, b.debug_name(c)) and const_val(v[1][3]) == 1:
            incs.append((i, j))
        elif v[0] == "bin" and v[1] == "Add" and v[2] == ("local", c, b.debug_name(c)) and const_val(v[3]) == 1:
            incs.append((i, j))
        else:
            other.append((i, j))
    w = must_cross(b, [(body_t, 0)], [(H, 0)], incs, after_start=False)
    R.check(len(inits) == 1 and bool(incs) and not other and w is None and b.dominates(inits[0][0], H), "bounded-loop", fn, "range 0..max_attempts",
            "the attempt counter is not `0, then +1 on every way round the loop` (initialisations %s, increments %s, other stores %s, a round without increment: %s)"
            % (inits, incs, other, w), t.get("span"), "attempt = 0; while attempt < retry_policy.max_attempts { ..; attempt += 1 }", path=w)
    return H


def analyse_loop(facts, R, path, module):
    b = facts.body(path)
    sym = Sym(b)
    fn = b.path
    # the loop head: Range::next on 0..max_attempts
    nexts = [(i, t) for i, t in b.calls() if t["callee"]["name"] == "next" and "Range" in (t["callee"].get("self_ty") or "")]
    if not nexts:
        N = _counter_loop(facts, R, b, sym, fn)
        if N is None:
            R.bad("bounded-loop", fn, "range-loop", "expected exactly one `for attempt in a..b` loop (or a counted `while attempt < max_attempts`), found none", b.span)
            return
        nt = b.term(N)
    elif len(nexts) != 1:
        R.bad("bounded-loop", fn, "range-loop", "expected exactly one `for attempt in a..b` loop, found %d" % len(nexts), b.span)
        return
    else:
        N, nt = nexts[0]
        it = sym.op(nt["args"][0])
        rng = None
        for x in walk(it):
            if x[0] == "agg" and x[1] == "std::ops::Range":
                rng = dict(x[3])
        # the iterator is a multiply-assigned local; look at its defining assignment instead
        if rng is None:
            for i, j, s in b.assigns():
                if s["rv"].get("agg") == "adt" and s["rv"]["adt"] == "std::ops::Range":
                    rng = dict(zip(s["rv"]["fields"], [sym.op(o) for o in s["rv"]["ops"]]))
        ok = rng is not None and const_val(rng["start"]) == 0 and render(rng["end"]).endswith("options.retry_policy.max_attempts")
        R.check(ok, "bounded-loop", fn, "range 0..max_attempts",
                "retry loop iterates over %s, not 0..self.options.retry_policy.max_attempts" % ({k: render(v) for k, v in (rng or {}).items()}), nt.get("span"),
                "for attempt in 0..retry_policy.max_attempts")
    # the attempt outcome switch
    A = None
    for i in sorted(b.live_blocks()):
        t = b.term(i)
        if t["k"] != "switch":
            continue
        e = sym.op(t["on"])
        if e[0] != "discr":
            continue
        txt = render(e[1])
        if ("{closure#0}" in txt) and ("Ready" in txt or module == "fleet") and N in b.reachable((i,)) and b.dominates(N, i):
            vm = _switch_variants(b, facts, i)
            if vm and "Ok" in vm and "Err" in vm:
                A = (i, vm, e[1])
                break
    if A is None:
        # the attempt may live in a helper (inlined) instead of an immediately-invoked closure: the attempt outcome is then the
        # Ok/Err test whose Err edge dominates the retry decision (is_retryable_error)
        retry_calls = [i for i, t in b.calls() if is_call(("call", t["callee"]["path"], (), i), _retry_fn(facts, module))]
        for i in sorted(b.live_blocks()):
            t = b.term(i)
            if t["k"] != "switch" or t.get("threaded_switch"):
                continue
            e = sym.op(t["on"])
            if e[0] != "discr" or not (N in b.reachable((i,)) and b.dominates(N, i)):
                continue
            vm = _switch_variants(b, facts, i)
            if not (vm and "Ok" in vm and "Err" in vm):
                continue
            if is_call(e[1], "branch") or "Try>::branch" in render(e[1])[:40]:
                continue
            err_t = [vm["Err"]]
            if retry_calls and all(b.dominates(err_t[0], rc) for rc in retry_calls):
                A = (i, vm, e[1])
                break
            if retry_calls and getattr(b, "changed", False) and all(rc in b.reachable((err_t[0],), avoid=[N]) and rc not in b.reachable((vm["Ok"],), avoid=[N]) for rc in retry_calls):
                # (a second, threaded way into the error handling - `connect().and_then(attempt)` failing at the connect - means no single
                # Err edge dominates the classification; it is still reached from this Err edge and never from the Ok edge)
                A = (i, vm, e[1])
                break
    if A is None:
        R.bad("bounded-loop", fn, "attempt-outcome", "cannot find the match on the attempt's Result inside the retry loop", b.span)
        return
    Abb, vm, outcome = A
    okT, errT = vm["Ok"], vm["Err"]
    # attempt only on the range cycle
    only = Abb not in b.reachable(b.succs(Abb), avoid=[N])
    R.check(only, "bounded-loop", fn, "attempt only on the range cycle",
            "the attempt can repeat without consuming a range index (unbounded retries)", b.term(Abb).get("span"), "every cycle through the attempt passes Range::next")
    recursion = [t for i, t in b.calls() if t["callee"]["path"] in (path, path.replace("::{closure#0}", ""))]
    R.check(not recursion, "bounded-loop", fn, "no recursion", "retry function calls itself", b.span)

    # stop-rows
    R.check(N not in b.reachable((okT,)), "stop-rows", fn, "Ok stops", "after a successful reply the loop can run another attempt", b.term(Abb).get("span"),
            "loop head unreachable from the Ok arm")
    retry_sw = []
    for i in sorted(b.reachable((errT,))):
        t = b.term(i)
        if t["k"] == "switch":
            e = sym.op(t["on"])
            if is_call(e, _retry_fn(facts, module)):
                tt = [x for v, x in t["targets"] if v != 0]
                true_t = t["otherwise"] if [v for v, _ in t["targets"]] == [0] else (tt[0] if tt else None)
                retry_sw.append((i, true_t, e))
    R.check(len(retry_sw) == 1, "stop-rows", fn, "retry decision", "expected one switch on is_retryable_error(err), found %d" % len(retry_sw), b.span)
    if len(retry_sw) == 1:
        S, Tt, e = retry_sw[0]
        arg_ok = "Err" in render(e[2][0]) and render(outcome) in render(e[2][0])
        R.check(arg_ok, "stop-rows", fn, "classifies this attempt's error", "is_retryable_error is applied to %s" % render(e[2][0]), b.term(S).get("span"))
        r = b.reachable((errT,), avoid_edges=[(S, Tt)])
        R.check(N not in r, "stop-rows", fn, "continue only if retryable",
                "after a non-retryable error (application reply or otherwise) the loop can run another attempt", b.term(S).get("span"),
                "loop head reachable from the Err arm only through the retryable edge")
    # Ok result carries the value
    # (the literal may be built by a small constructor inlined here: then it reaches the return place by one move)
    into_ret = {0}
    for i, j, s in b.assigns():
        if s["place"]["l"] == 0 and not s["place"]["p"] and "use" in s["rv"] and op_place(s["rv"]["use"]) and not op_place(s["rv"]["use"])["p"]:
            into_ret.add(op_place(s["rv"]["use"])["l"])
    finals = [(i, j, s) for i, j, s in b.assigns() if s["rv"].get("agg") == "adt" and s["rv"]["adt"] == "fleet::RemoteResult" and s["place"]["l"] in into_ret and not s["place"]["p"]
              and i in b.live_blocks()]
    # (single-exit form: one literal after the loop, fed by `reply` / `last_error` variables: one row per feasible combination of the
    # definitions reaching it)
    frows = []
    for i, j, s in finals:
        alts = None
        if getattr(b, "changed", False):
            from analysis.sym import split_rows
            alts = split_rows(sym, i, j, s["rv"])
        if alts and len(alts) > 1:
            frows += [(i, j, s, v_, True) for _, v_ in alts]
        else:
            frows.append((i, j, s, sym.rvalue(s["rv"]), False))

    def _is_ok_row(i_, v_, split_):
        d_ = dict(v_[3])
        if split_:
            return d_["value"][0] == "agg" and d_["value"][2] == "Some"
        return i_ in b.reachable((okT,)) and N not in b.reachable((i_,)) and b.dominates(okT, i_)
    n_okrows = len([1 for i_, j_, s_, v_, sp_ in frows if _is_ok_row(i_, v_, sp_)])
    R.check((len(finals) == 2 and len(frows) == 2) or (len(frows) > len(finals) and n_okrows >= 1 and n_okrows < len(frows)), "stop-rows", fn, "two result rows",
            "expected an Ok row and an exhausted/stop row, found %d literal(s) / %d row(s)" % (len(finals), len(frows)), b.span)
    last_error_local = None
    for i, j, s, v, split_ in frows:
        d = dict(v[3])
        if _is_ok_row(i, v, split_):
            ok = d["value"][0] == "agg" and d["value"][2] == "Some" and "Ok" in render(d["value"]) and d["error"][0] == "agg" and d["error"][2] == "None"
            R.check(ok, "stop-rows", fn, "Ok row", "success row is %s" % render(v)[:200], s.get("span"), "value: Some(reply), error: None")
        else:
            okv = d["value"][0] == "agg" and d["value"][2] == "None"
            # error: move of the last_error local
            op = s["rv"]["ops"][s["rv"]["fields"].index("error")]
            origs = trace_op(b, op)
            R.check(okv, "last-error-kept", fn, "failure row", "failure row is %s" % render(v)[:200], s.get("span"), "value: None, error: last_error")
            p = op_place(op)
            # follow one move
            cand = set()
            for dd in b.defs_of(p["l"]) if p else []:
                if dd[0] == "assign" and "use" in dd[3] and op_place(dd[3]["use"]):
                    cand.add(op_place(dd[3]["use"])["l"])
            last_error_local = next(iter(cand)) if len(cand) == 1 else (p["l"] if p else None)
            # (through a constructor's parameter the variable arrives by more than one move: follow single-definition moves)
            for _ in range(6):
                if last_error_local is None:
                    break
                ds_ = b.defs_of(last_error_local)
                if len(ds_) == 1 and ds_[0][0] == "assign" and "use" in ds_[0][3] and op_place(ds_[0][3]["use"]) and not op_place(ds_[0][3]["use"])["p"]:
                    last_error_local = op_place(ds_[0][3]["use"])["l"]
                else:
                    break
    # last-error-kept
    if last_error_local is not None:
        stores = []
        for i, j, s in b.assigns():
            if s["place"]["l"] == last_error_local and not s["place"]["p"]:
                v = sym.rvalue(s["rv"])
                if v[0] == "agg" and v[2] == "Some" and "Err" in render(v) and render(outcome) in render(v):
                    stores.append((i, j))
                elif "use" in s["rv"] and op_place(s["rv"]["use"]):
                    src = op_place(s["rv"]["use"])
                    if not src["p"]:
                        for dd in b.defs_of(src["l"]):
                            if dd[0] == "assign":
                                vv = sym.rvalue(dd[3])
                                if vv[0] == "agg" and vv[2] == "Some" and "Err" in render(vv) and render(outcome) in render(vv):
                                    stores.append((i, j))
        # ... or `last_error.insert(err)` / `.replace(err)` (possibly through a `&mut Option<_>` handed to an inlined helper);
        # `get_or_insert` keeps an earlier error and is not a store of this attempt's error
        def _root(l, depth=0):
            ds_ = b.defs_of(l)
            if depth > 6 or len(ds_) != 1 or ds_[0][0] != "assign":
                return l
            rv_ = ds_[0][3]
            q_ = rv_.get("ref") or (op_place(rv_["use"]) if "use" in rv_ else None)
            if q_ is None or [e for e in q_["p"] if e != "deref"]:
                return l
            return _root(q_["l"], depth + 1)
        for i, t in b.calls():
            if t["callee"]["name"] in ("insert", "replace") and "Option" in t["callee"]["path"] and len(t["args"]) == 2:
                p0 = op_place(t["args"][0])
                if p0 is not None and _root(p0["l"]) == last_error_local and render(outcome) in render(sym.op(t["args"][1])):
                    stores.append(term_pt(b, i))
        exits = return_points(b) + [term_pt(b, N)]
        w = must_cross(b, [(errT, 0)], exits, stores, after_start=False)
        R.check(stores and w is None, "last-error-kept", fn, "error recorded on every Err path",
                "an attempt's error can be lost (the loop continues or ends without storing it as last_error)", b.term(Abb).get("span"),
                "last_error = Some(err) crossed before the next attempt / return", path=w)
    else:
        R.bad("last-error-kept", fn, "last_error", "cannot identify the variable feeding RemoteResult.error", b.span)

    # dead-client-dropped
    inv = [term_pt(b, i) for i, t in b.calls() if callee_matches(t["callee"], module + "::invalidate_client")]
    app_blocks = []
    for x in sorted(b.reachable((errT,))):
        fs = facts_at(b, sym, facts, x)
        for f in fs:
            if f["val"] == "ServerError" and "Err" in render(f["expr"]):
                app_blocks.append((x, 0))
            if f["val"] is True and is_call(f["expr"], "is_server_error", "is_application_error"):
                app_blocks.append((x, 0))
    exits = return_points(b) + [term_pt(b, N)]
    w = must_cross(b, [(errT, 0)], exits, inv, after_start=False, stop=app_blocks)
    R.check(inv and w is None, "dead-client-dropped", fn, "non-application error drops the cached client",
            "an attempt can fail with an error that is not known to be an application reply (e.g. BrokenPipe on a connection that died "
            "while idle, InvalidSpec/LengthMismatch after a malformed reply) and the loop stops or continues without invalidate_client: "
            "every later call reuses the dead cached client and the node is wedged", b.term(Abb).get("span"),
            "invalidate_client crossed on every Err path not proven to be RepeError::ServerError", path=w)


def retryable_table(facts, R, module):
    b = facts.body(_retry_fn(facts, module))
    sym = Sym(b)
    rows_true = []
    for i, j, s in b.assigns():
        if s["place"]["l"] == 0 and not s["place"]["p"]:
            v = sym.rvalue(s["rv"])
            if const_val(v) == 1:
                rows_true.append((i, s))
            elif const_val(v) == 0:
                pass
            else:
                R.bad("stop-rows", b.path, "result-row", "is_retryable_error computes %s (unrecognised shape)" % render(v), s.get("span"))
    for i, t in b.calls():
        if t["dest"]["l"] == 0 and not t["dest"]["p"]:
            R.bad("stop-rows", b.path, "result-row", "is_retryable_error's result is computed by %s(..): some error other than the enumerated io kinds can be "
                  "classified retryable (a server reply must never be retried)" % t["callee"]["path"], t.get("span"))
    kinds = None
    for i, s in rows_true:
        fs = facts_at(b, sym, facts, i)
        is_io = any(f["val"] == "Io" for f in fs)
        ks = None
        for f in fs:
            if is_call(f["expr"], "kind"):
                v = f["val"]
                if isinstance(v, str):
                    ks = {v}
                elif isinstance(v, tuple) and v[0] == "in":
                    ks = set(v[1])
        R.check(is_io and ks is not None and ks == IO_KINDS, "stop-rows", b.path, "true-row",
                "is_retryable_error returns true under %s; expected RepeError::Io with kind in %s" % (texts(fs), sorted(IO_KINDS)), s.get("span"),
                "true only for Io(%s)" % ",".join(sorted(ks or [])))
        kinds = ks
    R.check(len(rows_true) >= 1, "stop-rows", b.path, "has-true-row", "nothing is retryable any more", b.span)
    return kinds


def _resolve_upvar(facts, body, expr, depth=0):
    """Render `expr`; while it is (a field path under) a captured variable of a closure / async block, replace the capture by
    what the parent captured."""
    txt = render(expr) if not isinstance(expr, str) else expr
    core = txt.strip("(&*)")
    m = re.match(r"^arg1\.(\w+)((?:\.\w+)*)$", core)
    if not m or depth > 3 or "::{closure#" not in body.path:
        return txt
    parent = body.path.rsplit("::{closure#", 1)[0]
    if parent not in facts.bodies:
        return txt
    pb = facts.body(parent)
    ps = Sym(pb)
    for i, j, st in pb.assigns():
        rv = st["rv"]
        if rv.get("agg") in ("closure", "coroutine") and rv.get("def") == body.path and m.group(1) in (rv.get("fields") or []):
            cap = render(ps.op(rv["ops"][rv["fields"].index(m.group(1))])).strip("(&*)")
            if not re.match(r"^[\w.]+$", cap):
                return cap if not m.group(2) else txt
            return _resolve_upvar(facts, pb, cap + m.group(2), depth + 1)
    return txt


def attempt_timeout_rule(facts, R):
    """Every attempt is given the node's configured timeout: a value that shrinks with elapsed time or attempt number makes the
    attempts after a silent one time out before any reply can arrive, so the call cannot recover within its attempt bound."""
    n = 0
    for path, module in LOOPS:
        for p in sorted(facts.bodies):
            if p != path and not p.startswith(path + "::{closure#"):
                continue
            b = facts.body(p)
            s = Sym(b)
            for i, t in b.calls():
                if not (t["callee"]["name"].endswith("_with_timeout") and t["callee"]["path"].split("::")[0] in ("client", "async_client")):
                    continue
                n += 1
                txt = _resolve_upvar(facts, b, s.op(t["args"][-1]))
                core = re.sub(r"^(Clone>::clone|Duration::clone)\((.*)\)$", r"\2", txt).strip("(&*)")
                ok = re.match(r"^[\w.]*config\.timeout$", core) is not None
                R.check(ok, "attempt-timeout-configured", path, "per-attempt timeout is the node's configured timeout",
                        "the attempt calls %s with timeout %s, not the node's config.timeout: a timeout that depends on elapsed time or the attempt "
                        "number leaves later attempts too little time to get the reply" % (t["callee"]["name"], txt[:200]), t.get("span"), txt[:120])
    R.floor("attempt-timeout-configured", n, 6, "client calls with an explicit timeout inside the retry loops")


def abandoned_loop_rule(facts, R):
    """The retry loop owns the clean-up: invalidate_client sits in its Err arm, which runs only when an attempt has returned.  A
    caller that races the loop's future against a timer (tokio::time::timeout / timeout_at / select) drops it mid-attempt when the
    timer wins - the dead connection stays cached and every later call reuses it.  So wherever a future containing a retry loop
    is handed to such a combinator, the `timer won` edge crosses invalidate_client before returning."""
    from analysis.flow import must_cross, return_points, term_pt
    RACERS = ("timeout", "timeout_at", "select", "select_biased", "abortable")
    n = 0
    for b in facts.bodies.values():
        if not b.path.startswith(("async_fleet::", "fleet::")):
            continue
        bs = None
        for i, t in b.calls():
            if t["callee"]["name"] not in RACERS or not any(k in t["callee"]["path"] for k in ("tokio::", "futures", "future::")):
                continue
            bs = bs or Sym(b)
            args = [bs.op(a) for a in t["args"]]
            if not any(x[0] == "call" and x[1].rsplit("::", 1)[-1] in ("call_json_with_retry", "call_message_with_retry", "call_with_retry") for a in args for x in walk(a)):
                continue
            n += 1
            inv = [term_pt(b, j) for j, u in b.calls() if u["callee"]["name"] == "invalidate_client"]
            lost = [x for x in sorted(b.live_blocks()) if any(str(f["val"]) == "Err" and any(y[0] == "call" and len(y) > 3 and y[3] == i for y in walk(f["expr"])) for f in facts_at(b, bs, facts, x))]
            heads = [(x, 0) for x in lost if not any(p in lost for p in b.preds().get(x, []))]
            w = must_cross(b, heads, return_points(b), inv, after_start=False) if heads and inv else [0]
            R.check(bool(heads) and bool(inv) and w is None, "dead-client-dropped", b.path, "an abandoned retry loop still drops the cached client",
                    "%s races the retry loop against %s; when the timer wins the loop's future is dropped mid-attempt and nothing invalidates the cached client: a "
                    "connection that went silent stays cached, is_connected stays true and every later call reuses it" % (b.path.rsplit("::", 2)[-2 if "{closure" in b.path else -1], t["callee"]["path"].rsplit("::", 2)[-1]),
                    t.get("span"), "Err(elapsed) edge crosses invalidate_client", path=w if isinstance(w, list) and w != [0] else None)
    R.note("retry-loop futures handed to a racing combinator: %d" % n)


def uncounted_attempt_rule(facts, R):
    """max_attempts bounds how often ONE request is sent.  The loops count their own attempts; a fleet function that has already tried
    the request itself (a direct client call, a batch) and then hands it to a retry loop starts that loop's counter at zero, so the
    request can be sent max_attempts + 1 times.  Wherever a `*_with_retry` loop is called, no client request was made earlier on
    the path."""
    listed = {p for p, _ in LOOPS}
    n = 0
    for b in facts.bodies.values():
        if not b.path.startswith(("async_fleet::", "fleet::")) or b.path in listed or "::tests::" in b.path:
            continue
        loops_ = [(i, t) for i, t in b.calls() if t["callee"]["name"].endswith("_with_retry") and t["callee"]["path"].startswith(("fleet::", "async_fleet::"))]
        if not loops_:
            continue
        tries = [(i, t) for i, t in b.calls() if ("client::" in t["callee"]["path"] or "Client" in t["callee"]["path"].split("<")[0]) and
                 t["callee"]["name"].startswith(("call", "batch", "notify", "send", "request"))]
        for i, t in loops_:
            n += 1
            before = [(j, u) for j, u in tries if i in b.reachable(starts=tuple(b.succs(j)))]
            R.check(not before, "bounded-loop", b.path, "nothing is sent before the retry loop starts counting",
                    "%s sends the request itself (%s) and then hands it to %s, whose attempt counter starts at zero: the request can be sent max_attempts + 1 times" % (
                        b.path.rsplit("::", 2)[-2 if "{closure" in b.path else -1], before[0][1]["callee"]["path"].rsplit("::", 1)[-1] if before else "", t["callee"]["name"]),
                    t.get("span"), "no client request reaches this call")
    R.floor("bounded-loop", n, 6, "calls of the retry loops from other fleet functions")


def derived_loops(facts):
    """Retry loops the table does not list: any other function of the fleet modules that (re)connects inside a cycle
    (`ensure_connected` on a CFG cycle) is a retry loop of its own - a generic `call_with(op)`, a typed sibling - and owes the same
    bound, classification, invalidation and result discipline."""
    from analysis.flow import in_cycle
    out = []
    listed = {p for p, _ in LOOPS}
    for p_, b_ in sorted(facts.bodies.items()):
        mod = p_.split("::")[0]
        if mod not in ("fleet", "async_fleet") or p_ in listed or "::tests::" in p_:
            continue
        if any(t_["callee"]["name"] == "ensure_connected" and in_cycle(b_, i_) for i_, t_ in b_.calls()):
            out.append((p_, mod))
    return out


def run(facts, R):
    # (retry loops outside the table are only listed: analyse_loop reads the four listed loops' result shape - a bare RemoteResult with
    # `last_error` - and would have to be generalised over `Result<RemoteResult<R>, _>`-returning generic loops before it can judge them;
    # see DESIGN 10.6, round 5)
    for p_, _ in derived_loops(facts):
        R.note("retry loop outside the table, NOT judged by the loop rules: " + p_)
    for path, module in LOOPS:
        analyse_loop(facts, R, path, module)
    abandoned_loop_rule(facts, R)
    uncounted_attempt_rule(facts, R)
    attempt_timeout_rule(facts, R)
    k1 = retryable_table(facts, R, "fleet")
    k2 = retryable_table(facts, R, "async_fleet")
    R.check(k1 == k2, "stop-rows", "<crate>", "blocking and async classification agree", "fleet: %s async_fleet: %s" % (k1, k2))

    # ensure_connected: cached client only when stored; else connect and store
    for path, module in (("fleet::ensure_connected", "fleet"), ("async_fleet::ensure_connected::{closure#0}", "async_fleet")):
        b = facts.body(path)
        sym = Sym(b)
        oks = blocks_assigning_variant(b, "std::result::Result", "Ok")
        R.check(len(oks) == 2, "dead-client-dropped", b.path, "two Ok rows", "ensure_connected has %d Ok rows" % len(oks), b.span)
        n_cached = n_fresh = 0
        for i, j, s in oks:
            fs = facts_at(b, sym, facts, i)
            v = render(sym.rvalue(s["rv"]))
            if any(f["val"] == "Some" for f in fs):
                n_cached += 1
            else:
                # fresh: a store `*client = Some(created)` precedes on all paths
                stores = [(x, y) for x, y, st in b.assigns() if st["place"]["p"] and st["place"]["p"][-1] == "deref" and "Option" in b.local_ty(st["place"]["l"])
                          and sym.rvalue(st["rv"])[0] == "agg" and sym.rvalue(st["rv"])[2] == "Some" and "connect" in render(sym.rvalue(st["rv"]))]
                # ... or `client.insert(created)` (stores Some(created) and hands back a reference to it)
                stores += [term_pt(b, x) for x, t_ in b.calls() if t_["callee"]["name"] == "insert" and "Option" in t_["callee"]["path"] and len(t_["args"]) == 2
                           and "connect" in render(sym.op(t_["args"][1]))]
                w = must_cross(b, [(0, 0)], [(i, j)], stores, after_start=False)
                n_fresh += 1
                R.check(stores and w is None and "connect" in v, "dead-client-dropped", b.path, "fresh client is stored",
                        "a freshly connected client is returned without being cached (or something else is returned): %s" % v, s.get("span"),
                        "connect(..) stored into the slot before returning its clone", path=w)
        R.check(n_cached == 1 and n_fresh == 1, "dead-client-dropped", b.path, "cached/fresh rows", "cached=%d fresh=%d" % (n_cached, n_fresh), b.span)
    for path in ("fleet::invalidate_client", "async_fleet::invalidate_client::{closure#0}"):
        b = facts.body(path)
        sym = Sym(b)
        stores = [(x, y) for x, y, st in b.assigns() if st["place"]["p"] and st["place"]["p"][-1] == "deref" and "Option" in b.local_ty(st["place"]["l"])
                  and sym.rvalue(st["rv"])[0] == "agg" and sym.rvalue(st["rv"])[2] == "None"]
        # ... or `client.take()` (leaves None in the slot; what becomes of the old client does not matter)
        stores += [term_pt(b, x) for x, t_ in b.calls() if t_["callee"]["name"] == "take" and "Option" in t_["callee"]["path"] and t_["args"]
                   and ("Client" in " ".join(t_.get("arg_tys", [])) or "client" in render(sym.op(t_["args"][0])))]
        w = must_cross(b, [(0, 0)], return_points(b), stores, after_start=False)
        R.check(stores and w is None, "dead-client-dropped", b.path, "slot := None", "invalidate_client does not clear the cached client on all paths", b.span, path=w)

    # tag-filter
    for path in ("fleet::Fleet::snapshot_target_nodes", "async_fleet::AsyncFleet::snapshot_target_nodes::{closure#0}"):
        if not facts.has_body(path):
            cands = [p for p in facts.bodies if p.startswith(path.split("::{")[0]) and "snapshot_target_nodes" in p]
            R.bad("tag-filter", path, "anchor", "snapshot_target_nodes not found (have %s)" % cands[:4])
            continue
        b = facts.body(path)
        sym = Sym(b)
        v = sym.local(0)
        # find the filter closure
        filt = [x for x in walk(v) if is_call(x, "filter")]
        if not filt:
            # coroutine: value assigned to _0 may be built later; search all calls
            filt = [("call", t["callee"]["path"], tuple(sym.op(a) for a in t["args"]), i) for i, t in b.calls() if t["callee"]["name"] == "filter"]
        if not filt:
            # explicit loop: for node in nodes.values() { if tag_set.is_subset(&node.tags) { targets.push(node.clone()) } }
            pushes = [(i, t) for i, t in b.calls() if t["callee"]["name"] == "push" and "Vec" in t["callee"]["path"]]
            okl = len(pushes) == 1
            for i, t in pushes:
                fsx = facts_at(b, sym, facts, i)
                sub = [f for f in fsx if f["val"] is True and is_call(f["expr"], "is_subset")]
                item = render(sym.op(t["args"][1]))
                okl = okl and len(sub) == 1 and ("tag_set" in render(sub[0]["expr"][2][0]) or "iter(tags)" in render(sub[0]["expr"][2][0]) or "iter(arg1.tags)" in render(sub[0]["expr"][2][0])) and render(sub[0]["expr"][2][1]).endswith(".tags") and "next(" in item and "values(" in item \
                    and "next(" in render(sub[0]["expr"][2][1])
            lossy = [t["callee"]["name"] for i, t in b.calls() if t["callee"].get("trait") == "std::iter::Iterator" and t["callee"]["name"] not in ("next", "map", "collect", "cloned")]
            R.check(okl and not lossy, "tag-filter", b.path, "one filter", "node selection loop does not push exactly the nodes with tag_set.is_subset(node.tags) (adapters %s)" % lossy, b.span,
                    "for node in values() { if tag_set.is_subset(node.tags) { push(node) } }")
            continue
        R.check(len(filt) == 1, "tag-filter", b.path, "one filter", "expected one filter over the node map, found %d" % len(filt), b.span)
        chain_names = [t["callee"]["name"] for i, t in b.calls() if t["callee"].get("trait") == "std::iter::Iterator" and t["callee"]["name"] not in ("map",)]
        bad = [n for n in chain_names if n not in ("filter", "cloned", "collect", "next")]
        R.check(not bad, "tag-filter", b.path, "no truncating adapter", "node selection uses %s" % bad, b.span, "adapters: %s" % chain_names)
        for f in filt:
            clo = [a for a in f[2] if a[0] == "agg" and a[1].startswith("closure:")]
            if not clo:
                R.bad("tag-filter", b.path, "predicate", "filter predicate is not a local closure", b.span)
                continue
            cb = facts.body(clo[0][1][len("closure:"):])
            cv = Sym(cb).local(0)
            ok = is_call(cv, "is_subset") and "tag_set" in render(cv[2][0]) and render(cv[2][1]).endswith(".tags")
            R.check(ok, "tag-filter", cb.path, "tag_set.is_subset(node.tags)", "selection predicate is %s" % render(cv), cb.span, render(cv))
    # broadcast: one spawn per target, result inserted under its node name
    for path, spawn, worker in (("fleet::Fleet::broadcast_json", "std::thread::spawn", "fleet::Fleet::call_json_with_retry"),
                                ("async_fleet::AsyncFleet::broadcast_json::{closure#0}", "spawn", "async_fleet::AsyncFleet::call_json_with_retry")):
        b = facts.body(path)
        sym = Sym(b)
        fam = [b] + facts.children(b.path)
        sp_all = [(fb, i, t) for fb in fam for i, t in fb.calls() if t["callee"]["name"] == "spawn"]
        R.check(len(sp_all) == 1, "tag-filter", b.path, "one spawn site", "broadcast has %d spawn sites" % len(sp_all), b.span)
        sp = [(i, t) for fb, i, t in sp_all if fb is b]
        sym_of = {id(fb): Sym(fb) for fb in fam}
        ins = [(i, t) for i, t in b.calls() if t["callee"]["name"] == "insert" and "HashMap" in t["callee"]["path"]]
        collected = [(i, t) for i, t in b.calls() if t["callee"]["name"] == "collect" and "HashMap" in b.local_ty(t["dest"]["l"])]
        lossy = [t["callee"]["name"] for fb in fam for i, t in fb.calls() if t["callee"].get("trait") == "std::iter::Iterator"
                 and t["callee"]["name"] in ("take", "skip", "step_by", "filter", "take_while", "skip_while", "zip", "rev", "chain")]
        R.check((len(ins) == 1 or (not ins and len(collected) == 1)) and not lossy, "tag-filter", b.path, "one insert site",
                "broadcast has %d result insert sites / %d collected maps (adapters %s)" % (len(ins), len(collected), lossy), b.span)
        src = [(i, t) for i, t in b.calls() if t["callee"]["name"] == "snapshot_target_nodes"]
        R.check(len(src) == 1, "tag-filter", b.path, "targets from snapshot_target_nodes", "found %d" % len(src), b.span)
        # worker closure calls the retrying call once with the node it was given
        for fb, i, t in sp_all:
            clo = sym_of[id(fb)].op(t["args"][0])
            if clo[0] == "agg" and (clo[1].startswith("closure:") or clo[1].startswith("coroutine:")):
                wb = facts.body(clo[1].split(":", 1)[1])
                calls = [(x, y) for x, y in wb.calls() if callee_matches(y["callee"], worker)]
                R.check(len(calls) == 1, "tag-filter", wb.path, "one retrying call per node", "worker makes %d calls" % len(calls), wb.span)
            else:
                R.bad("tag-filter", b.path, "worker", "spawned worker is not a local closure: %s" % render(clo)[:100], t.get("span"))
