"""C14 - the registry behaves as a JSON tree addressed by RFC 6901 pointers: the structural clauses."""
from analysis.flow import must_cross, return_points, term_pt, path_counts, definitely_init, init_at_point
from analysis.guards import facts_at
from analysis.mir import callee_matches, op_place
from analysis.sym import Sym, render, is_call, const_val, walk
from rules.common import texts, value_rows, render_n, callsite_ordinals, blocks_assigning_variant

REG = "registry::Registry"

EXPLANATION = (
    "Only the clauses whose truth is in the shape of the code are decided; read-your-writes / unrelated-pointer independence / "
    "root-merge semantics over arbitrary histories and linearizability checking are value-level and NOT decided. Decided: "
    "(read-path-pure) on the empty-body edge of dispatch_with_ctx no write guard is taken and no mutating helper is reachable, "
    "and decode_body maps an empty body to None before looking at the format; (callable-once) a RegistryCallable is invoked "
    "from exactly one site, at most once per request, only for a non-empty body and only on the Some edge of "
    "functions.get(canonical_key(pointer)), with Some(the supplied body) and the caller's context, while no state guard is "
    "held; registration stores the callable under canonical_pointer(parsed path), the same normal form; (pointer-error-class) "
    "parse_pointer / canonical_key reject a pointer without leading '/' and bad '~' escapes with InvalidPointer, which "
    "RegistryError::code maps to MethodNotFound; (escape-tables) unescape_token maps ~0 -> ~, ~1 -> /, anything else -> Err; "
    "escape_token and json_pointer::parse apply their two replacements in the RFC 6901 order; (pointer-suffix) a mounted "
    "registry receives the strip_prefix remainder (or \"/\") unmodified; (one-critical-section) the state is reachable only "
    "through read_state/write_state, every public operation other than dispatch_with_ctx holds one guard for all its state "
    "accesses, and dispatch_with_ctx takes at most one write guard per request (its function lookup is a separate read "
    "section by design: the callable must run with no lock held)."
    ' Every caller of set_pointer has seen its pointer non-empty, so the wholesale root replacement arm is unreachable from writes (structural necessary condition of `a root write merges`).'
    ' No serde_json pointer() / pointer_mut() call resolves a pointer anywhere in the registry, and every value read_value can return is resolve_ref of the parsed pointer.'
)
ASSUMPTIONS = ["std::sync::RwLock gives reader/writer exclusion", "the functions map is changed only by register_function*, not by requests"]

MUTATORS = ("registry::set_pointer", "registry::ensure_object_root", "registry::ensure_object_parent", "registry::resolve_mut", "registry::Registry::write_state")


NONEMPTY_BODY = ("Option::is_none(arg3) is False", "Option::is_some(arg3) is True", "arg3 is Some")


def run(facts, R):
    dw = facts.body(REG + "::dispatch_with_ctx")
    s = Sym(dw)
    o = callsite_ordinals(dw)

    def gt(i):
        return ["%s is %s" % (render_n(f["expr"], o), f["val"]) for f in facts_at(dw, s, facts, i)]
    # ---------------- one pointer grammar: the registry's own parse_pointer + walkers decide what a pointer addresses (the empty pointer and
    # "/" are the whole document, "~" escapes are validated, the index grammar is the crate's).  serde_json's `Value::pointer` implements
    # a different RFC 6901 reading ("/" is the key "", a bad escape is a literal key): nothing in the registry resolves through it
    n_fp = 0
    for b_ in facts.bodies.values():
        if not b_.path.startswith(("registry::", "<registry::")) or "::tests::" in b_.path:
            continue
        for i_, t_ in b_.calls():
            if t_["callee"]["name"] in ("pointer", "pointer_mut") and "serde_json" in t_["callee"]["path"]:
                n_fp += 1
                R.check(False, "read-path-pure", b_.path, "pointers are resolved by the registry's own grammar only",
                        "%s resolves a pointer with serde_json's %s: it reads \"/\" as the key \"\" and accepts malformed escapes as literal keys, so a hit there bypasses "
                        "parse_pointer's rules (root read, InvalidPointer)" % (b_.path.rsplit("::", 1)[-1], t_["callee"]["name"]), t_.get("span"))
    R.note("read-path-pure: serde_json pointer() calls in the registry: %d (none allowed)" % n_fp)
    # ... stated positively for the direct read API: every value read_value can return is what resolve_ref found for the parsed pointer
    rvb = facts.bodies.get(REG + "::read_value")
    if rvb is not None:
        from rules.common import value_rows as _vr
        n_rv = 0
        for g_, v_ in _vr(rvb, Sym(rvb), facts, 0):
            if "from_residual(" in v_ and "resolve_ref(" not in v_ and "Ok{" not in v_:
                continue        # the error of parse_pointer / of the lock
            n_rv += 1
            R.check("registry::resolve_ref(" in v_ and "registry::parse_pointer(arg2)" in v_, "read-path-pure", rvb.path, "a read returns what resolve_ref found for the parsed pointer",
                    "read_value can return %s" % v_[:160], rvb.span, v_[:100])
        R.floor("read-path-pure", n_rv, 1, "value rows of read_value")
    # ---------------- read-path-pure ----------------------------------------------------------------------
    def _none_fact(f):
        e, v = f["expr"], f["val"]
        if is_call(e, "is_none") and render_n(e[2][0]) == "arg3":
            return v is True
        if is_call(e, "is_some") and render_n(e[2][0]) == "arg3":
            return v is False
        return render_n(e) == "arg3" and v == "None"
    none_blocks = [x for x in sorted(dw.live_blocks()) if any(_none_fact(f) for f in facts_at(dw, s, facts, x))]
    R.floor("read-path-pure", len(none_blocks), 3, "blocks on the empty-body edge")
    bad = []
    for x in none_blocks:
        t = dw.term(x)
        if t["k"] == "call" and (callee_matches(t["callee"], *MUTATORS) or t["callee"]["name"] in ("insert", "remove", "push", "clear", "write", "get_mut", "entry", "as_object_mut")):
            if "serde_json::Map" in t["callee"]["path"] and "Value>::new" in render_n(s.op(t["args"][0]), o):
                continue  # building the json!({..}) reply value
            bad.append((t["callee"]["path"], t.get("span")))
    R.check(not bad, "read-path-pure", dw.path, "empty-body request takes no write guard / mutator", "a request with an empty body can reach %s" % bad, dw.span, "only read_state on the is_none edge")
    # every mutating call is on the non-empty edge
    for i, t in dw.calls():
        if callee_matches(t["callee"], *MUTATORS):
            g = gt(i)
            R.check(any(x in NONEMPTY_BODY for x in g), "read-path-pure", dw.path, "%s only for a non-empty body" % t["callee"]["name"], "%s reachable under %s" % (t["callee"]["name"], g[:3]), t.get("span"))
    db = facts.body(REG + "::decode_body")
    ds = Sym(db)
    rows = value_rows(db, ds, facts, 0)
    none_rows = [(g, v) for g, v in rows if v == "Result::Ok{0: Option::None{}}"]
    ok = len(none_rows) == 1 and len(none_rows[0][0]) == 1 and none_rows[0][0][0].endswith("is_empty(arg1.body) is True")      # Vec::is_empty or the slice's
    R.check(ok, "read-path-pure", db.path, "empty body -> None before any format test", "decode_body None rows: %s" % none_rows, db.span, "Ok(None) iff body.is_empty()")
    for g, v in rows:
        if v.startswith("Result::Ok{") and v != "Result::Ok{0: Option::None{}}" and not v.startswith("Result::Ok{0: Option::Some"):
            # the Option is whatever a decoder produced (serde maps a JSON `null` to None): a non-empty body can then come back
            # as "no body", and a write of null / a call with a null argument is handled as a read
            R.bad("read-path-pure", db.path, "a non-empty body decodes to Some(value)",
                  "decode_body returns %s for a non-empty body: the decoder decides whether there is a body, so a body it maps to None (JSON null) "
                  "turns a write or a call into a read" % v[:100], db.span)
        if v.startswith("Result::Ok{0: Option::Some"):
            R.check(any(x.endswith("is_empty(arg1.body) is False") for x in g), "read-path-pure", db.path, "Some only for a non-empty body", "decode_body returns %s under %s" % (v[:60], g), db.span)

    # ---------------- index-token: inside an array a reference token addresses an element only if it is a decimal number; the
    # element index handed to the array comes from `str::parse::<usize>` of that very token (its Ok value) - an empty token, a
    # name or garbage is an error, never element 0.  A hand-written number parser is not modelled and is reported (fail closed).
    n_idx = 0
    for fn_ in ("registry::resolve_ref", "registry::resolve_mut", "registry::set_pointer"):
        if not facts.has_body(fn_):
            continue
        for ib in [facts.body(fn_)] + list(facts.children(fn_)):      # (a walk written as try_fold keeps its steps in a closure)
            isym = Sym(ib)
            for i, t in ib.calls():
                if t["callee"]["name"] not in ("get", "get_mut", "index", "index_mut", "insert", "remove", "swap_remove") or len(t["args"]) < 2:
                    continue
                tys = t.get("arg_tys") or []
                if len(tys) < 2 or tys[1] != "usize":
                    continue
                n_idx += 1
                if getattr(ib, "changed", False):
                    from analysis.sym import split_eval as _se
                    alts = _se(isym, i, len(ib.blocks[i]["stmts"]), lambda v_: v_.op(t["args"][1])) or [({}, isym.op(t["args"][1]))]
                else:
                    alts = [({}, isym.op(t["args"][1]))]
                for _, v in alts:
                    parses = [x for x in walk(v) if x[0] == "call" and x[1].rsplit("::", 1)[-1] == "parse" and "str" in x[1]]
                    R.check(bool(parses) and "as Ok" in render(v) or "as Continue" in render(v) and bool(parses), "index-token", ib.path, "array index is the parsed reference token",
                            "an array element is addressed with %s, which is not the Ok value of str::parse::<usize>(token): tokens that are not plain decimal numbers "
                            "(the empty token of `/items/`) may address an element" % render(v)[:120], t.get("span"), "index = token.parse::<usize>()?")
    R.floor("index-token", n_idx, 3, "array accesses by index in the pointer walkers (one per walker at least)")

    # ---------------- a root write merges: set_pointer's own empty-pointer arm (`*root = value`, a wholesale replacement that drops
    # every unrelated top-level key and accepts a scalar root) is never reached by a write: every caller hands it a pointer it has
    # seen to be non-empty, the root case being handled by the merge path before.  Closed over every caller, whenever added
    n_sp = 0
    for b_, i_, t_ in facts.calls_to("registry::set_pointer"):
        if len(t_["args"]) < 2:
            continue
        n_sp += 1
        s_ = Sym(b_)

        def _sd(e):
            while e[0] == "call" and len(e[2]) == 1 and e[1].rsplit("::", 1)[-1] in ("deref", "as_ref", "borrow", "as_slice"):
                e = e[2][0]
            return e
        seg = _sd(s_.op(t_["args"][1]))
        fs_ = facts_at(b_, s_, facts, i_)
        nonempty = any(is_call(f_["expr"], "is_empty") and f_["val"] is False and f_["expr"][2] and _sd(f_["expr"][2][0]) == seg for f_ in fs_) or \
            any(is_call(f_["expr"], "split_last", "split_first", "last", "first") and f_["val"] == "Some" and f_["expr"][2] and _sd(f_["expr"][2][0]) == seg for f_ in fs_)
        R.check(nonempty, "write-is-all-or-nothing", b_.path, "set_pointer is never handed the root pointer",
                "%s calls set_pointer with %s without having seen it non-empty: an empty pointer reaches set_pointer's `*root = value` arm, which replaces the whole "
                "document (unrelated top-level keys are dropped, a scalar root is accepted) instead of merging the object's keys; guards: %s"
                % (b_.path.rsplit("::", 1)[-1], render(seg)[:80], texts(fs_)[-3:]), t_.get("span"), "dominated by !segments.is_empty()")
    R.floor("write-is-all-or-nothing", n_sp, 1, "callers of set_pointer")

    # ---------------- callable-once -----------------------------------------------------------------------------
    calls = [(b, i, t) for b in facts.bodies.values() for i, t in b.calls() if t["callee"]["decl"] == "registry::RegistryCallable::call" and b.path.startswith("registry::Registry::")]
    R.check(len(calls) == 1 and calls[0][0] is dw, "callable-once", "<crate>", "one invocation site", "RegistryCallable::call sites: %s" % [b.path for b, _, _ in calls])
    if len(calls) == 1 and calls[0][0] is dw:
        _, ci, ct = calls[0]
        pc = path_counts(dw, [ci])
        R.check(pc is not None and pc[1] <= 1, "callable-once", dw.path, "at most once per request", "call count per path %s" % (pc,), ct.get("span"), "max 1")
        g = gt(ci)
        nonempty = any(x in NONEMPTY_BODY for x in g)
        found = any(".functions, (Try>::branch#1(registry::canonical_key(arg2)) as Continue).0) is Some" in x for x in g)
        R.check(nonempty and found, "callable-once", dw.path, "only for a non-empty body at the canonical key",
                "callable invoked under %s" % [x[-80:] for x in g], ct.get("span"), "body.is_some() and functions.get(canonical_key(pointer)) is Some")
        a = [render_n(s.op(x), o) for x in ct["args"]]
        R.check(a[1] == "arg4" and a[2] in ("Option::Some{0: Option::unwrap(arg3)}", "Option::Some{0: (arg3 as Some).0}", "arg3") and "get(" in a[0] and ".functions" in a[0], "callable-once", dw.path, "called with the supplied body and context",
                "call args %s" % [x[-60:] for x in a], ct.get("span"), "f.call(ctx, Some(body))")
        # no state guard held at the call
        init = definitely_init(dw)
        guards = [l for l in range(len(dw.locals)) if dw.local_ty(l).startswith(("std::sync::RwLockReadGuard", "std::sync::RwLockWriteGuard"))]
        held = [l for l in guards if l in init_at_point(dw, init, term_pt(dw, ci))]
        R.check(bool(guards) and not held, "callable-once", dw.path, "callable runs with no registry lock held", "guard locals %s are live at the callable invocation (re-entrant callables would deadlock)" % held, ct.get("span"),
                "0 of %d guard locals live" % len(guards))
    rf = facts.body(REG + "::register_function_arc")
    rs = Sym(rf)
    ins = [(i, t) for i, t in rf.calls() if t["callee"]["name"] == "insert" and "HashMap" in t["callee"]["path"]]
    ok = len(ins) == 1
    if ok:
        a = [render_n(rs.op(x)) for x in ins[0][1]["args"]]
        ok = a[0].endswith(".functions") and a[1].startswith("registry::canonical_pointer(") and "parse_registration_path(arg2)" in a[1] and a[2] == "arg3"
    R.check(ok, "callable-once", rf.path, "registered under canonical_pointer(parsed path)", "functions.insert(%s)" % (a[1][:100] if ins else None), rf.span, "same normal form as the lookup key")
    ck = facts.body("registry::canonical_key")
    rows = value_rows(ck, Sym(ck), facts, 0)
    for g, v in rows:
        if v == "Result::Ok{0: Cow::Borrowed{0: arg1}}":
            R.check(any("contains(arg1, 126) is False" in x for x in g) and any("starts_with(arg1, 47) is True" in x for x in g), "callable-once", ck.path, "borrowed key only when already canonical",
                    "pointer used verbatim as key under %s" % g, ck.span, "slash-prefixed and escape-free")
        if v.startswith("Result::Ok{0: Cow::Owned"):
            R.check("registry::canonical_pointer((Try>::branch(registry::parse_pointer(arg1)) as Continue).0)" in v, "callable-once", ck.path, "escaped pointers are re-canonicalised", v[:120], ck.span)

    # ---------------- pointer-error-class ----------------------------------------------------------------------------
    for fn in ("registry::canonical_key", "registry::parse_pointer"):
        b = facts.body(fn)
        rows = value_rows(b, Sym(b), facts, 0)
        errs = [(g, v) for g, v in rows if v.startswith("Result::Err")]
        ok = any("InvalidPointer" in v and any(("starts_with(arg1, 47) is False" in x) or ("strip_prefix(arg1, 47) is None" in x) or ("strip_prefix(arg1, 47)) is Break" in x) for x in g)
                 for g, v in errs)
        R.check(ok, "pointer-error-class", fn, "no leading '/' -> InvalidPointer", "error rows: %s" % [(g[-1:], v[:60]) for g, v in errs], b.span)
        R.check(all("InvalidPointer" in v for g, v in errs), "pointer-error-class", fn, "only InvalidPointer", "error rows: %s" % [v[:60] for g, v in errs], b.span)
    pp = facts.body("registry::parse_pointer")
    # map_err closure produces InvalidPointer
    for c in facts.children(pp.path):
        cv = render_n(Sym(c).local(0))
        R.check("InvalidPointer" in cv, "pointer-error-class", c.path, "bad escape -> InvalidPointer", "closure yields %s" % cv[:80], c.span)
    cd = facts.body("registry::RegistryError::code")
    crow = value_rows(cd, Sym(cd), facts, 0)
    got = None
    for g, v in crow:
        for x in g:
            if "InvalidPointer" in x:
                got = v
    R.check(got == "ErrorCode::MethodNotFound{}", "pointer-error-class", cd.path, "InvalidPointer -> MethodNotFound", "InvalidPointer maps to %s" % got, cd.span, got)

    # ---------------- escape-tables -------------------------------------------------------------------------------------
    et = facts.body("registry::escape_token")
    jp = facts.bodies.get("json_pointer::parse::{closure#0}")
    # generic: every nested str::replace chain over RFC 6901 escapes applies them in the mandated order
    n_chain = 0
    chain_fns = {}
    for b in facts.bodies.values():
        if not (b.path.startswith("registry::") or b.path.startswith("json_pointer::") or b.path.startswith("server::")):
            continue
        sb = Sym(b)
        for i, t in b.calls():
            if t["callee"]["name"] != "replace" or "str" not in t["callee"]["path"]:
                continue
            outer = ("call", t["callee"]["path"], tuple(sb.op(a) for a in t["args"]), i)
            inner = outer[2][0]
            if not (inner[0] == "call" and inner[1].endswith("replace") and len(inner[2]) == 3 and len(outer[2]) == 3):
                continue

            def lit(e):
                if e[0] == "str":
                    return e[1]
                if e[0] == "const" and isinstance(e[1], int):
                    return chr(e[1])
                return None
            a, bb_, c, d = lit(inner[2][1]), lit(inner[2][2]), lit(outer[2][1]), lit(outer[2][2])
            if {a, c} == {"~0", "~1"}:
                n_chain += 1
                chain_fns.setdefault(b.path, []).append(("unescape", inner[2][0], i))
                R.check(a == "~1" and bb_ == "/" and c == "~0" and d == "~", "escape-tables", b.path, "unescape chain order",
                        "reference tokens are unescaped as replace(%r,%r).replace(%r,%r): RFC 6901 requires '~1'->'/' before '~0'->'~' (otherwise '~01' decodes to '/')" % (a, bb_, c, d),
                        t.get("span"), "'~1'->'/' then '~0'->'~'")
            elif {a, c} == {"~", "/"}:
                n_chain += 1
                chain_fns.setdefault(b.path, []).append(("escape", inner[2][0], i))
                R.check(a == "~" and bb_ == "~0" and c == "/" and d == "~1", "escape-tables", b.path, "escape chain order",
                        "tokens are escaped as replace(%r,%r).replace(%r,%r): '~' must be escaped before '/'" % (a, bb_, c, d), t.get("span"), "'~'->'~0' then '/'->'~1'")
    R.floor("escape-tables", n_chain, 2, "escape/unescape replace chains")
    # the two anchored encoders: the chain is applied to the function's own input and its result is what is returned
    for b, kind, argname in ((et, "escape", "arg1"), (jp, "unescape", "arg2")):
        if b is None:
            R.undecide("escape-tables", "json_pointer::parse", "token closure not found")
            continue
        got = [c for c in chain_fns.get(b.path, []) if c[0] == kind]
        if not got:
            R.undecide("escape-tables", b.path, "no %s replace chain in %s" % (kind, b.path))
            continue
        rv = Sym(b).local(0)
        ok = any(render_n(c[1]) == argname for c in got) and rv[0] == "call" and rv[1].endswith("replace") and rv[-1] in [c[2] for c in got]
        R.check(ok, "escape-tables", b.path, "%s chain maps the whole token and is the result" % kind,
                "%s returns %s" % (b.path, render_n(rv)[:120]), b.span, render_n(rv)[:120])
    ut = facts.body("registry::unescape_token")
    us = Sym(ut)
    uo = callsite_ordinals(ut)
    pushes = []
    for i, t in ut.calls():
        if t["callee"]["name"] == "push" and "String" in t["callee"]["path"]:
            ch = us.op(t["args"][1])
            g = ["%s is %s" % (render_n(f["expr"], uo), f["val"]) for f in facts_at(ut, us, facts, i)]
            pushes.append((render_n(ch, uo), g))
    table = set()
    for ch, g in pushes:
        after_tilde = any("Ne 126) is False" in x or "Eq 126) is True" in x or ("next#1(" in x and x.endswith("is ('in', [126])")) for x in g)
        if not after_tilde:
            table.add(("plain", ch[-30:]))
            continue
        sel = [x for x in g if "next#2(" in x and ("[48]" in x or "[49]" in x or x.endswith(" is 48") or x.endswith(" is 49"))]
        key = "48" if any(x.endswith(" is ('in', [48])") or x.endswith("is 48") for x in sel) else "49" if any(x.endswith(" is ('in', [49])") or x.endswith("is 49") for x in sel) else "?"
        table.add((key, ch))
    want_esc = {("48", "126"), ("49", "47")}
    got_esc = {x for x in table if x[0] != "plain"}
    ut_chain = any(t["callee"]["name"] == "replace" for i, t in ut.calls())
    if ut_chain:
        R.ok("escape-tables", ut.path, "unescape_token is a replace chain", ut.span, "order decided by the generic chain rule above")
    elif any(k == "?" for k, _ in got_esc) or not got_esc:
        R.undecide("escape-tables", ut.path, "unescape_token no longer has the char-loop shape (%s)" % sorted(table))
    else:
        R.check(got_esc == want_esc, "escape-tables", ut.path, "~0 -> '~', ~1 -> '/'", "unescape table is %s" % sorted(got_esc), ut.span, "{~0:'~', ~1:'/'}")
        rows = value_rows(ut, us, facts, 0)
        errs = [g for g, v in rows if v.startswith("Result::Err")]
        ok = len(errs) == 2 and any(any("notin', [48, 49]" in x for x in g) for g in errs) and any(any("next#2(" in x and x.endswith("is None") for x in g) for g in errs)
        R.check(ok, "escape-tables", ut.path, "other escapes and a dangling '~' are errors", "error rows: %s" % [[x[-50:] for x in g] for g in errs], ut.span)

    # ---------------- write-is-all-or-nothing: set_pointer either stores the value or reports an error and leaves the document as
    # it was.  Structurally: once it has changed the tree (an insert, an entry().or_insert*, a push/remove, a store through a
    # `&mut Value`) no error exit is reachable any more - a rejected write that vivified a parent on the way would answer later
    # reads differently from a plain JSON tree
    sp = facts.body("registry::set_pointer")
    sps = Sym(sp)
    muts = []
    for i, t in sp.calls():
        nm = t["callee"]["name"]
        pth = t["callee"]["path"]
        if nm in ("insert", "or_insert", "or_insert_with", "or_default", "push", "remove", "swap_remove", "shift_remove", "clear", "retain", "append", "extend", "take", "replace") \
                and ("serde_json" in pth or "Vec<" in " ".join(t.get("arg_tys", [])) or "Map<" in " ".join(t.get("arg_tys", []))):
            muts.append((term_pt(sp, i), nm))
    for i, j, st in sp.assigns():
        pl = st["place"]
        if pl["p"] and pl["p"][-1] == "deref" and "Value" in sp.local_ty(pl["l"]) and i in sp.live_blocks():
            muts.append(((i, j), "*slot = value"))
    R.floor("write-is-all-or-nothing", len(muts), 1, "mutations of the document in set_pointer")
    err_pts = [(i, j) for i, j, st in blocks_assigning_variant(sp, "std::result::Result", "Err")] + \
              [term_pt(sp, i) for i, t in sp.calls() if t["callee"]["name"] == "from_residual"]
    for pt, nm in muts:
        w = must_cross(sp, [pt], err_pts, [])
        R.check(w is None, "write-is-all-or-nothing", sp.path, "no error exit after the tree was changed (%s)" % nm,
                "set_pointer can still fail after it has modified the document through `%s`: a rejected write leaves a trace (e.g. a vivified parent) "
                "that later reads observe" % nm, sp.span, "every error exit precedes the first mutation", path=w)

    # ---------------- pointer-suffix ----------------------------------------------------------------------------------------
    pf = facts.body("server::RegisteredRegistry::pointer_for")
    rows = value_rows(pf, Sym(pf), facts, 0)
    vals = sorted(v for g, v in rows)
    allowed = {"Option::Some{0: '/'}", "Option::Some{0: arg2}", "Option::None{}",
               "Option::Some{0: (Try>::branch(<impl str>::strip_prefix(arg2, arg1.prefix)) as Continue).0}"}
    # strip_prefix(..).filter(|rest| rest.starts_with('/')) hands out the same remainder (the boundary test is C07's)
    filt = "Option::filter(<impl str>::strip_prefix(arg2, arg1.prefix), {closure#"
    fclos = [render(Sym(c).local(0)) for c in facts.children(pf.path)]
    vals = [("Option::Some{0: (Try>::branch(<impl str>::strip_prefix(arg2, arg1.prefix)) as Continue).0}"
             if (v.startswith(filt) and all("starts_with(" in x for x in fclos)) else v) for v in vals]
    # the same remainder through the rewritten filter / let-else forms: the Some payload of strip_prefix itself
    vals = [("Option::Some{0: (Try>::branch(<impl str>::strip_prefix(arg2, arg1.prefix)) as Continue).0}"
             if v == "Option::Some{0: (<impl str>::strip_prefix(arg2, arg1.prefix) as Some).0}" else v) for v in vals]
    unknown = [v for v in vals if v not in allowed and "from_residual" not in v]
    R.check(not unknown and "Option::Some{0: (Try>::branch(<impl str>::strip_prefix(arg2, arg1.prefix)) as Continue).0}" in vals, "pointer-suffix", pf.path, "mount passes the stripped remainder unmodified",
            "pointer_for can return %s" % unknown, pf.span, "remainder of strip_prefix, \"/\" or the path itself")
    rr = [im for im in facts.impls_of("server::HandlerErased") if im["self_ty"] == "server::RegisteredRegistry"]
    for im in rr:
        for m in ("handle", "handle_with_ctx"):
            b = facts.body(im["methods"][m])
            bs = Sym(b)
            ds_ = [(i, t) for i, t in b.calls() if t["callee"]["name"] in ("dispatch", "dispatch_with_ctx") and "Registry" in t["callee"]["path"]]
            ok = len(ds_) == 1
            if ok:
                a = [render_n(bs.op(x)) for x in ds_[0][1]["args"]]
                ok = "pointer_for(arg1, " in a[1] and "as Some).0" in a[1] and "decode_body(arg2)" in a[2]
            R.check(ok, "pointer-suffix", b.path, "registry gets pointer_for(path) and the decoded body", "dispatch args %s" % ([x[-60:] for x in a] if ds_ else None), b.span)

    # ---------------- one-critical-section --------------------------------------------------------------------------------------
    for b in facts.bodies.values():
        for i, t in b.calls():
            if t["callee"]["name"] in ("read", "write", "try_read", "try_write", "get_mut", "into_inner") and "RwLock" in t["callee"]["path"] and "RegistryState" in " ".join(t.get("arg_tys", [])):
                R.check(b.path in (REG + "::read_state", REG + "::write_state"), "one-critical-section", b.path, "state locked only by read_state/write_state", "%s locks the registry state directly" % b.path, t.get("span"))
    n = 0
    for b in facts.bodies.values():
        if not b.path.startswith(REG + "::") or b.kind not in ("method", "fn"):
            continue
        locks = [(i, t) for i, t in b.calls() if callee_matches(t["callee"], REG + "::read_state", REG + "::write_state")]
        if not locks:
            continue
        n += 1
        pc = path_counts(b, [i for i, _ in locks])
        if b is dw:
            wl = [i for i, t in locks if t["callee"]["name"] == "write_state"]
            pcw = path_counts(b, wl)
            R.check(pcw is not None and pcw[1] <= 1 and pc[1] <= 2, "one-critical-section", b.path, "at most one write section per request",
                    "dispatch_with_ctx takes %s guards / %s write guards on some path" % (pc, pcw), b.span, "reads<=1 then (call | one write)")
            R.exception("one-critical-section", b.path, "function lookup is a separate read section: the callable must run with no lock held (documented); the functions map is not changed by requests")
        else:
            R.check(pc is not None and pc[1] <= 1, "one-critical-section", b.path, "one guard per operation", "%s acquires the state %s times on some path" % (b.path, pc), b.span, "max 1")
    R.floor("one-critical-section", n, 7, "Registry methods that lock the state")
