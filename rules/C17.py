"""C17 - no outbound WebSocket message exceeds the assumed peer limit."""
from analysis.flow import must_cross, return_points, term_pt, trace_op, trace_place
from analysis.guards import facts_at
from analysis.mir import callee_matches, op_place
from analysis.sym import Sym, render, is_call, const_val, walk
from rules.common import has_cmp, option_fact, texts, blocks_assigning_variant, disjunct_facts, value_alternatives

REQUIRES = ("websocket",)
WSMSG = "tokio_tungstenite::tungstenite::Message"
LIMITS = "websocket_limits::WebSocketLimits"
FRAME = "websocket_server::frame_outbound"
CHECK = LIMITS + "::check_outbound"

EXPLANATION = (
    "Decided structurally: (binary-is-guarded) every construction of a tungstenite Binary message in non-test code "
    "takes its payload from frame_outbound's Some result or is dominated by the Ok edge of check_outbound(len(payload)) "
    "on that same payload, and every message handed to a WebSocket sink is such a locally built message (no forwarding "
    "of foreign frames); (size-is-emitted-length) the size frame_outbound checks is 48 + len(m.query) + len(m.body) of "
    "the very message it then frames, the client checks len() of the to_vec() bytes it sends; (boundary-table) "
    "check_outbound is Err iff Some(limit) and size > limit (strict); (oversize-rows) on the Err edge the error hook is "
    "crossed, a notify yields None, a response yields an InternalError message whose id is copied from the rejected "
    "message; (stays-usable) a dropped frame continues the writer/proxy loop; (delivered-unchanged) an admitted frame is written with a flushing send, or every path from a buffering feed to the writer's next wait crosses a flush, so a later dropped frame cannot strand it in the write buffer. Assumption from the property: the limit is "
    "large enough for the replacement error reply (not re-checked)."
    " Every WebSocketConfig literal leaves tungstenite's outbound limits at their defaults / usize::MAX or gives max_write_buffer_size at least the assumed limit + 14."
    " No Option-typed limit field is ordered with Option's own min / max / clamp / comparison anywhere in the crate (None, meaning no limit, sorts lowest); only that bug pattern is decided, not the arithmetic of a hand-written combination."
    ' A with_* setter of WebSocketLimits that rebuilds the value takes every field it does not set from self.'
    ' In the in-place style a with_* setter stores exactly the field it is named after, from its parameter.'
)
ASSUMPTIONS = [
    "Message::into_wire_bytes / to_vec emit 48 + len(query) + len(body) bytes (C01 emission-normal-form)",
    "one tungstenite Binary message is sent as one WebSocket message",
    "tungstenite refuses a frame (its header of up to 14 bytes included) that does not fit WebSocketConfig.max_write_buffer_size",
]


def ok_fact(fs, pred):
    """`pred(x)` for a Result x known to be Ok on this path (`?` desugaring included)."""
    for f in fs:
        e, v = f["expr"], f["val"]
        if v == "Ok" and pred(e):
            return True
        if v == "Continue" and is_call(e, "branch") and pred(e[2][0]):
            return True
        if v is True and is_call(e, "is_ok") and pred(e[2][0]):
            return True
        if v is False and is_call(e, "is_err") and pred(e[2][0]):
            return True
    return False


def _f(e, name):
    return e[0] == "field" and e[2] == name


def run(facts, R):
    fo = facts.body(FRAME)
    co = facts.body(CHECK)

    # ---------------- binary-is-guarded (A4 + A5 + A6) -------------------------------------------------
    sites = []
    for b in facts.bodies.values():
        for i, j, s in b.assigns():
            rv = s["rv"]
            if rv.get("agg") == "adt" and rv["adt"] == WSMSG:
                sites.append((b, i, j, s, rv))
        for i, t in b.calls():
            dty = b.local_ty(t["dest"]["l"]) if not t["dest"]["p"] else ""
            if dty == WSMSG and not callee_matches(t["callee"], "std::clone::Clone::clone"):
                nm = t["callee"]["path"]
                R.bad("binary-is-guarded", b.path, "constructor:" + nm.rsplit("::", 1)[-1],
                      "a WebSocket message is built through `%s`, which the outbound-guard rule does not recognise" % nm, t.get("span"))
    n_bin = 0
    for b, i, j, s, rv in sites:
        if rv["variant"] != "Binary":
            if rv["variant"] == "Text":
                R.bad("binary-is-guarded", b.path, "Text-message", "unguarded Text message constructed", s.get("span"))
            continue
        n_bin += 1
        sym = Sym(b)
        payload = rv["ops"][0]
        origs = trace_op(b, payload)
        from_frame = bool(origs) and all(o.kind == "call" and callee_matches(o.info["callee"], FRAME) and o.path == ("Some.0",) for o in origs)
        if from_frame:
            R.ok("binary-is-guarded", b.path, "Binary<-frame_outbound", s.get("span"), "payload is frame_outbound(..)'s Some value")
            continue
        pe = sym.op(payload)
        fs = facts_at(b, sym, facts, i)
        pes = [pe]
        if getattr(b, "changed", False):
            # a payload that reaches the constructor through a merge (`check.map(|()| bytes)?`): one value per feasible way
            from analysis.sym import split_eval
            alts = split_eval(sym, i, j, lambda v_: v_.op(payload))
            if alts:
                pes = [v_ for _, v_ in alts]
        guarded = True
        for pe in pes:
            g1 = ok_fact(fs, lambda e: is_call(e, CHECK) and is_call(e[2][1], "len") and e[2][1][2][0] == pe)
            if not g1 and is_call(pe, "message::Message::to_vec", "message::Message::into_wire_bytes"):
                # the guard may be computed before the bytes exist: serialized_len(m) is the length to_vec(m) will have (C01 emission rules)
                g1 = ok_fact(fs, lambda e: is_call(e, CHECK) and is_call(e[2][1], "message::Message::serialized_len") and e[2][1][2][0] == pe[2][0])
            guarded = guarded and g1
        R.check(guarded, "binary-is-guarded", b.path, "Binary<-check_outbound",
                "Binary(%s) is neither frame_outbound's result nor dominated by check_outbound(len(payload)) == Ok; origins=%s guards=%s"
                % (render(pe), origs, texts(fs)), s.get("span"), "dominated by check_outbound(len(%s)) Ok" % render(pe))
    R.floor("binary-is-guarded", n_bin, 4, "Binary constructions")

    # every message given to a sink is a locally constructed one
    n_send = 0
    for b in facts.bodies.values():
        for i, t in b.calls():
            c = t["callee"]
            if c.get("trait") == "futures_util::SinkExt" and c["name"] in ("send", "feed", "send_all") and WSMSG in (c.get("self_ty") or ""):
                n_send += 1
                origs = trace_op(b, t["args"][1])
                # (the Some payload of a value that one path builds as `None` comes from no path: the let-else took the None away)
                origs = [o for o in origs if not (o.kind == "agg" and str(o.info.get("adt", "")).endswith("Option") and o.info.get("variant") == "None" and o.path
                                                  and str(o.path[0]).startswith("Some"))]
                ok = bool(origs) and all(o.kind == "agg" and o.info.get("adt") == WSMSG for o in origs)
                R.check(ok, "binary-is-guarded", b.path, "sink.%s-arg" % c["name"],
                        "a message that was not built (and guarded) in this function is sent: %s" % origs, t.get("span"),
                        "message built locally: " + ",".join(sorted({o.info["variant"] for o in origs if o.kind == "agg"})))
            elif c.get("trait") == "futures_util::Sink" and c["name"] == "start_send" and WSMSG in (c.get("self_ty") or ""):
                R.bad("binary-is-guarded", b.path, "start_send", "raw Sink::start_send on a WebSocket sink", t.get("span"))
    R.floor("binary-is-guarded", n_send, 6, "SinkExt::send sites on WebSocket sinks")

    # ---------------- size-is-emitted-length (A7) --------------------------------------------------------
    sym = Sym(fo)
    checks = [(i, t) for i, t in fo.calls() if callee_matches(t["callee"], CHECK)]
    R.exact("size-is-emitted-length", len(checks), 1, "check_outbound calls in frame_outbound")
    for i, t in checks:
        size = sym.op(t["args"][1])
        terms = _sum_terms(size)
        want = {"const:48", "len:query", "len:body"}
        got = set()
        for x in terms:
            if const_val(x) == 48:
                got.add("const:48")
            elif is_call(x, "len") and x[2][0][0] == "field" and x[2][0][1][0] == "arg" and x[2][0][1][1] == 1:
                got.add("len:" + x[2][0][2])
            else:
                got.add("other:" + render(x))
        R.check(got == want and len(terms) == 3, "size-is-emitted-length", fo.path, "frame_len = 48+len(m.query)+len(m.body)",
                "the guarded size is %s, not HEADER_SIZE + m.query.len() + m.body.len()" % render(size), t.get("span"), render(size))
    # on the Ok edge the message framed is m itself, unmodified
    iw = [(i, t) for i, t in fo.calls() if callee_matches(t["callee"], "message::Message::into_wire_bytes")]
    n_ok_edge = 0
    for i, t in iw:
        fs = facts_at(fo, sym, facts, i)
        arg = sym.op(t["args"][0])
        on_ok = any(f["val"] in ("Ok",) and is_call(f["expr"], CHECK) for f in fs) or \
            any(f["val"] == ("in", ["Ok"]) and is_call(f["expr"], CHECK) for f in fs)
        if arg[0] == "arg" and arg[1] == 1:
            n_ok_edge += 1
            R.check(on_ok, "boundary-table", fo.path, "pass-through-on-Ok",
                    "m.into_wire_bytes() is reached on a path where check_outbound did not return Ok; guards: %s" % texts(fs), t.get("span"),
                    "m framed unchanged only on the Ok edge")
    R.exact("boundary-table", n_ok_edge, 1, "m.into_wire_bytes() sites in frame_outbound")
    stores_m = [s for _, _, s in fo.assigns() if s["place"]["l"] == 1 and s["place"]["p"]]
    R.check(not stores_m, "boundary-table", fo.path, "m-untouched", "frame_outbound modifies the message it is asked to frame",
            stores_m[0].get("span") if stores_m else None, "no store to m.*")

    # client: checks len() of the bytes it sends -- covered by binary-is-guarded (same payload expression)

    # ---------------- boundary-table: check_outbound (A11) ----------------------------------------------
    csym = Sym(co)
    errs = blocks_assigning_variant(co, "std::result::Result", "Err")
    oks = blocks_assigning_variant(co, "std::result::Result", "Ok")
    R.floor("boundary-table", len(errs), 1, "Err rows of check_outbound")
    R.floor("boundary-table", len(oks), 1, "Ok rows of check_outbound")
    def _never(fs):
        # `size > usize::MAX` holds for no size: that way into a row does not exist
        return has_cmp(fs, "Lt", lambda a: a[0] == "const" and a[1] == (1 << 64) - 1, lambda x: x[0] == "arg" and x[1] == 2)
    for i, j, s in errs:
        for fs in (value_alternatives(co, csym, facts, i, facts_at(co, csym, facts, i)) if getattr(co, "changed", False) else [facts_at(co, csym, facts, i)]):
            if _never(fs):
                continue
            some = option_fact(fs, lambda e: _f(e, "assumed_peer_frame_limit"), "Some")
            strict = has_cmp(fs, "Lt", lambda a: "assumed_peer_frame_limit" in render(a), lambda x: x[0] == "arg" and x[1] == 2)
            R.check(some and strict, "boundary-table", co.path, "Err-row",
                    "check_outbound rejects on a path not guarded by Some(limit) && size > limit (strict); guards: %s" % texts(fs), s.get("span"),
                    "Err iff Some(limit) and size > limit")
    for i, j, s in oks:
        for fs0 in disjunct_facts(co, csym, facts, i):
          for fs in (value_alternatives(co, csym, facts, i, fs0) if getattr(co, "changed", False) else [fs0]):
            none = option_fact(fs, lambda e: _f(e, "assumed_peer_frame_limit"), "None")
            le = has_cmp(fs, "Le", lambda x: x[0] == "arg" and x[1] == 2, lambda a: "assumed_peer_frame_limit" in render(a))
            R.check(none or le, "boundary-table", co.path, "Ok-row",
                    "check_outbound accepts on a path guarded by neither `no limit` nor `size <= limit`; guards: %s" % texts(fs), s.get("span"),
                    "no limit" if none else "size <= limit")

    # `None` means "no limit", but Option's derived order puts None below every Some: ordering two Option-typed limits with
    # Ord::min/max/clamp or </<= picks None as the tighter one and switches the guard off
    LIMF = ("assumed_peer_frame_limit", "max_incoming_frame_size", "max_incoming_message_size")
    n_ord = 0
    for b in facts.bodies.values():
        osym = None
        for i, t in b.calls():
            c = t["callee"]
            if c["name"] not in ("min", "max", "clamp", "lt", "le", "gt", "ge", "cmp", "partial_cmp", "min_by", "max_by", "min_by_key", "max_by_key") or \
                    not ("Option<usize>" in str(c.get("self_ty", "")) or any("Option<usize>" in str(x) for x in c.get("targs", []))):
                continue
            osym = osym or Sym(b)
            txt = " ".join(render(osym.op(a)) for a in t["args"])
            if not any(f_ in txt for f_ in LIMF):
                continue
            n_ord += 1
            R.check(False, "boundary-table", b.path, "an optional limit is never ordered as an Option",
                   "%s orders an Option-typed limit with Option's own %s (%s): None (no limit) sorts below every Some, so the combination treats `unlimited` as the tightest value"
                   % (b.path.rsplit("::", 1)[-1], c["name"], txt[:120]), t.get("span"))
    R.note("boundary-table: Option-order combinations of limit fields: %d (none allowed)" % n_ord)

    # a setter changes its own field only: a `with_*` method of WebSocketLimits that rebuilds the value (struct-update syntax) takes every
    # other field from `self` - `..Self::default()` silently puts the assumed peer limit back to its default and the guard consults a
    # limit the embedder never chose
    from analysis.guards import struct_constructions as _sc17
    n_set = 0
    for cb_, ci_, cj_, cst_ in _sc17(facts, "websocket_limits::WebSocketLimits"):
        nm_ = cb_.path.rsplit("::", 1)[-1]
        if not cb_.path.startswith("websocket_limits::WebSocketLimits::with_") or cb_.argc < 2:
            continue
        n_set += 1
        v_ = Sym(cb_).rvalue(cst_["rv"])
        for fname_, fv_ in v_[3]:
            own_ = fv_[0] == "arg" and fv_[1] >= 2
            kept_ = fv_[0] == "field" and fv_[2] == fname_ and fv_[1][0] == "arg" and fv_[1][1] == 1
            R.check(own_ or kept_, "boundary-table", cb_.path, "a setter keeps the fields it does not set",
                    "%s rebuilds the limits with %s = %s: a field it was not asked to set does not come from self (a limit configured earlier in the builder chain is lost)"
                    % (nm_, fname_, render(fv_)[:80]), cst_.get("span"), "%s = %s" % (fname_, "parameter" if own_ else "self." + fname_))
    R.note("boundary-table: WebSocketLimits setters that rebuild the value: %d" % n_set)
    # ... and in the in-place style (`mut self`; self.f = v; self) a setter stores exactly the field it is named after, from its parameter
    from analysis.guards import field_writes as _fw17
    n_inpl = 0
    for fld_ in LIMF:
        for w_ in _fw17(facts, "websocket_limits::WebSocketLimits", fld_):
            wb_ = w_["body"]
            nm_ = wb_.path.rsplit("::", 1)[-1]
            if not wb_.path.startswith("websocket_limits::WebSocketLimits::with_") or w_["kind"] != "store" or w_.get("whole"):
                continue
            n_inpl += 1
            v_ = Sym(wb_).rvalue(w_["rv"])
            R.check(nm_ == "with_" + fld_ and v_[0] == "arg" and v_[1] >= 2, "boundary-table", wb_.path, "a setter stores the field it is named after",
                    "%s stores %s = %s: not the field the method names, or not its parameter" % (nm_, fld_, render(v_)[:60]), w_.get("span"), "self.%s = parameter" % fld_)
    R.floor("boundary-table", n_inpl + n_set, 3, "WebSocketLimits setters judged")

    # ---------------- the transport below the guard refuses nothing the guard admitted: tungstenite rejects (WriteBufferFull, the
    # writer task ends, the connection closes) a frame - its 2..14 header bytes included - that does not fit `max_write_buffer_size`,
    # and back-pressures on `write_buffer_size`.  Every WebSocketConfig built in the crate leaves the outbound fields at
    # tungstenite's defaults / usize::MAX, or sets max_write_buffer_size to at least the assumed limit plus 14 header bytes
    WSCFG = "tokio_tungstenite::tungstenite::protocol::WebSocketConfig"
    n_cfg = 0
    from analysis.guards import struct_constructions as _sc
    for b_, i_, j_, st_ in _sc(facts, WSCFG):
        if i_ not in b_.live_blocks():
            continue
        n_cfg += 1
        s_ = Sym(b_)
        ops_ = dict(zip(st_["rv"]["fields"], st_["rv"]["ops"]))
        for fld in ("max_write_buffer_size", "write_buffer_size", "max_send_queue"):
            if fld not in ops_:
                continue
            from analysis.sym import split_eval as _se
            alts = (_se(s_, i_, j_, lambda v_, o_=ops_[fld]: v_.op(o_)) if getattr(b_, "changed", False) else None) or [({}, s_.op(ops_[fld]))]
            for _, v_ in alts:
                txt = render(v_)
                dflt = txt.endswith("." + fld) and "default()" in txt
                unlimited = v_[0] == "const" and (v_[1] == (1 << 64) - 1 or str(v_[2] if len(v_) > 2 else "").endswith("MAX"))
                roomy = False
                if fld == "max_write_buffer_size":
                    for x_ in walk(v_):
                        if x_[0] == "call" and x_[1].rsplit("::", 1)[-1] in ("saturating_add", "checked_add", "wrapping_add") and len(x_[2]) == 2:
                            a_, c_ = x_[2]
                            if "assumed_peer_frame_limit" in render(a_) and const_val(c_) is not None and const_val(c_) >= 14:
                                roomy = True
                        if x_[0] == "bin" and x_[1] in ("Add", "AddWithOverflow") and "assumed_peer_frame_limit" in render(x_[2]) and const_val(x_[3]) is not None and const_val(x_[3]) >= 14:
                            roomy = True
                R.check(dflt or unlimited or roomy, "delivered-unchanged", b_.path, "the transport's outbound limits admit what the guard admits",
                        "WebSocketConfig.%s is set to %s: tungstenite counts the frame header (up to 14 bytes) against it, so a message within the assumed limit that "
                        "check_outbound let through can be refused by the transport and the connection closed" % (fld, txt[:140]), st_.get("span"), txt[:100])
    R.floor("delivered-unchanged", n_cfg, 1, "WebSocketConfig constructions")

    # ---------------- oversize-rows (A11 / A5) ------------------------------------------------------------
    # the Err region of frame_outbound
    err_blocks = [x for x in sorted(fo.live_blocks()) if any(f["val"] == "Err" and is_call(f["expr"], CHECK) for f in facts_at(fo, sym, facts, x))]
    R.floor("oversize-rows", len(err_blocks), 3, "blocks on the Err edge of check_outbound")
    if err_blocks:
        entry = [x for x in err_blocks if not any(p in err_blocks for p in fo.preds()[x])]
        rep = [term_pt(fo, i) for i, t in fo.calls() if callee_matches(t["callee"], "websocket_server::report_error")]
        diverge = [term_pt(fo, i) for i, t in fo.calls() if t["target"] is None]
        for e in entry:
            w = must_cross(fo, [(e, 0)], return_points(fo), rep, after_start=False, stop=diverge)
            R.check(rep and w is None, "oversize-rows", fo.path, "reported",
                    "an oversized frame can be dropped/replaced without crossing report_error", fo.span, "report_error on every Err path", path=w)
        nones = [(i, j, s) for i, j, s in blocks_assigning_variant(fo, "std::option::Option", "None")]
        R.floor("oversize-rows", len(nones), 1, "None rows in frame_outbound")
        for i, j, s in nones:
            fs = facts_at(fo, sym, facts, i)
            isnotify = any(_notify_fact(f, True) for f in fs)
            iserr = any(f["val"] == "Err" and is_call(f["expr"], CHECK) for f in fs)
            R.check(isnotify and iserr, "oversize-rows", fo.path, "None-row",
                    "frame_outbound returns None (nothing sent) outside `oversized && notify != 0`; guards: %s" % texts(fs), s.get("span"),
                    "None only for an oversized notify")
        somes = [(i, j, s) for i, j, s in blocks_assigning_variant(fo, "std::option::Option", "Some") if i in err_blocks]
        R.floor("oversize-rows", len(somes), 1, "replacement rows in frame_outbound")
        for i, j, s in somes:
            fs = facts_at(fo, sym, facts, i)
            notn = any(_notify_fact(f, False) for f in fs)
            v = sym.rvalue(s["rv"])
            payload = dict(v[3]).get("0")
            ok_shape = payload is not None and is_call(payload, "into_wire_bytes")
            R.check(notn and ok_shape, "oversize-rows", fo.path, "replacement-row",
                    "replacement is produced on a path not guarded by notify == 0, or is not a framed message: %s; guards %s" % (render(v), texts(fs)),
                    s.get("span"), "replacement only for non-notify")
            # the replacement message: create_error_message(InternalError, ..) with header.id := m.header.id
            if ok_shape:
                arg_origs = trace_op(fo, [t for k, t in fo.calls() if k == payload[3]][0]["args"][0])
                made = [o for o in arg_origs if o.kind == "call"]
                ok_code = False
                for o in made:
                    if callee_matches(o.info["callee"], "message::create_error_message"):
                        code = sym.op(o.info["args"][0])
                        ok_code = code[0] == "agg" and code[1].endswith("ErrorCode") and code[2] == "InternalError"
                R.check(ok_code, "oversize-rows", fo.path, "replacement-code",
                        "the replacement response is not create_error_message(ErrorCode::InternalError, ..): %s" % arg_origs, s.get("span"), "InternalError")
        # id copied
        id_stores = []
        for i, j, s in fo.assigns():
            p = s["place"]
            names = [e["f"] for e in p["p"] if isinstance(e, dict) and "f" in e]
            if names[-2:] == ["header", "id"] and p["l"] != 1:
                v = sym.rvalue(s["rv"])
                id_stores.append((i, j, s, v))
        # replacement-is-bounded: the stand-in must fit whatever limit admits an error reply, so nothing of the refused message
        # but its id may flow into it - it stays the fixed-size create_error_message(..) value with header.id patched
        repl_locals = {s_["place"]["l"] for _, _, s_, _ in id_stores}
        grown = []
        for i, j, s in fo.assigns():
            p = s["place"]
            if p["l"] in repl_locals and p["p"]:
                names = [e["f"] for e in p["p"] if isinstance(e, dict) and "f" in e]
                if names != ["header", "id"]:
                    grown.append(("store " + ".".join(str(n_) for n_ in names), s.get("span")))
            rv = s["rv"]
            if "ref" in rv and rv.get("mut") and rv["ref"]["l"] in repl_locals and rv["ref"]["p"]:
                names = [e["f"] for e in rv["ref"]["p"] if isinstance(e, dict) and "f" in e]
                grown.append(("&mut " + ".".join(str(n_) for n_ in names), s.get("span")))
        R.check(not grown, "oversize-rows", fo.path, "replacement-is-bounded",
                "the replacement for an oversized response takes more than the id from it (%s): it is sent unchecked, so it can exceed the peer limit itself" % [g[0] for g in grown],
                grown[0][1] if grown else fo.span, "only header.id is written into the replacement")
        R.floor("oversize-rows", len(id_stores), 1, "stores to replacement.header.id")
        for i, j, s, v in id_stores:
            ok = v[0] == "field" and v[2] == "id" and _f(v[1], "header") and v[1][1][0] == "arg" and v[1][1][1] == 1
            R.check(ok, "oversize-rows", fo.path, "replacement-id",
                    "replacement.header.id = %s, expected m.header.id" % render(v), s.get("span"), "id copied from the rejected message")
            # and it happens before framing on every path to the replacement Some
            for (si, sj, ss) in somes:
                w = must_cross(fo, [(e, 0) for e in entry], [(si, sj)], [(i, j)], after_start=False)
                R.check(w is None, "oversize-rows", fo.path, "replacement-id-before-frame",
                        "a replacement can be framed without carrying the request id", ss.get("span"), path=w)

    delivered_flushed(facts, R)

    # ---------------- stays-usable -------------------------------------------------------------------------
    for path, recv_pats in (("websocket_server::writer_task::{closure#0}", ("recv", "try_recv")),
                            ("websocket_server::proxy_connection_with_limits::{closure#0}", ("next",))):
        b = facts.body(path)
        bsym = Sym(b)
        none_entries = []
        for x in sorted(b.live_blocks()):
            fs = facts_at(b, bsym, facts, x)
            if any(f["val"] == "None" and is_call(f["expr"], FRAME) for f in fs):
                none_entries.append(x)
        heads = [x for x in none_entries if not any(p in none_entries for p in b.preds()[x])]
        R.floor("stays-usable", len(heads), 1, "frame_outbound==None branches in " + b.path)
        again = [term_pt(b, i) for i, t in b.calls() if t["callee"]["name"] in recv_pats]
        # (a transport failure of a later sink operation - the flush that ends a coalesced batch, a send - is a legitimate end of the
        # connection: only exits that are not behind such an Err edge count)
        sink_err = []
        for x in sorted(b.live_blocks()):
            for f in facts_at(b, bsym, facts, x):
                if str(f["val"]) in ("Err", "Break") and not f.get("derived") and any(y[0] == "call" and y[1].rsplit("::", 1)[-1] in ("send", "feed", "flush", "close", "send_all") and "Sink" in y[1] for y in walk(f["expr"])):
                    sink_err.append((x, 0))
        for h in heads:
            w = must_cross(b, [(h, 0)], return_points(b), again, after_start=False, stop=sink_err)
            R.check(again and w is None, "stays-usable", b.path, "dropped-frame-continues",
                    "after an oversized frame is dropped the connection loop can end instead of reading the next message", b.span,
                    "loop continues (next recv crossed before any return)", path=w)


def delivered_flushed(facts, R):
    """(delivered-unchanged) a frame that passed the outbound guard reaches the peer: the sink write is a flushing
    `send`, or every path from a buffering `feed`/`start_send` to the next wait on the outbound queue crosses a flush.
    Otherwise a later dropped frame (`continue`) leaves admissible frames sitting in the write buffer."""
    for path, recv_pats in (("websocket_server::writer_task::{closure#0}", ("recv",)),
                            ("websocket_server::proxy_connection_with_limits::{closure#0}", ("next",))):
        b = facts.body(path)
        waits = [term_pt(b, i) for i, t in b.calls() if t["callee"]["name"] in recv_pats]
        flushes = [term_pt(b, i) for i, t in b.calls() if t["callee"]["name"] in ("send", "flush", "send_all", "close") and "Sink" in (t["callee"]["path"] + str(t["callee"].get("trait")))]
        feeds = [(i, t) for i, t in b.calls() if t["callee"]["name"] in ("feed", "start_send", "poll_ready") and "Sink" in (t["callee"]["path"] + str(t["callee"].get("trait")))]
        sends = [(i, t) for i, t in b.calls() if t["callee"]["name"] == "send" and "Sink" in (t["callee"]["path"] + str(t["callee"].get("trait")))]
        R.floor("delivered-unchanged", len(sends) + len(feeds), 1, "sink writes in " + b.path)
        for i, t in feeds:
            w = must_cross(b, [term_pt(b, i)], waits + return_points(b), flushes)
            R.check(w is None, "delivered-unchanged", b.path, "a buffered frame is flushed before the writer waits again",
                    "a frame written with `%s` (no flush) can stay in the write buffer while the writer waits for the next message - e.g. when the next queued "
                    "message is dropped by the outbound guard: an admissible message is not delivered" % t["callee"]["name"], t.get("span"),
                    "flush crossed before the next wait", path=w)


def _notify_fact(f, want_notify):
    n = None
    e, v = f["expr"], f["val"]
    if e[0] == "bin" and e[1] in ("Ne", "Eq"):
        a, b = e[2], e[3]
        fld = a if a[0] == "field" else b
        k = b if a[0] == "field" else a
        if fld[0] == "field" and fld[2] == "notify" and const_val(k) == 0 and isinstance(v, bool):
            is_ne = (e[1] == "Ne") == v
            n = is_ne
    return n is not None and n == want_notify


def _sum_terms(e):
    if e[0] == "field" and e[2] == "0" and e[1][0] == "bin" and e[1][1] == "AddWithOverflow":
        return _sum_terms(e[1][2]) + _sum_terms(e[1][3])
    if e[0] == "bin" and e[1] in ("Add", "AddWithOverflow"):
        return _sum_terms(e[2]) + _sum_terms(e[3])
    return [e]
