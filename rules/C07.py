"""C07 - all dispatch paths and route shapes give the same answer for the same request."""
import itertools

from analysis.flow import must_cross, return_points, term_pt, path_counts
from analysis.guards import facts_at, field_writes, struct_constructions
from analysis.mir import callee_matches, op_place
from analysis.sym import Sym, render, is_call, const_val, walk
from rules.common import texts, value_rows, render_n

EXPLANATION = (
    "Decided structurally. (handler-twins) for every HandlerErased impl that overrides handle_view (the set is read from the "
    "impl table) the decision rows of handle and handle_view - guards on body-format codes and decode results, the decoder "
    "used per arm, the error code, the response constructor and format - are identical under the twin renaming, and so are "
    "the helper pairs decode_*_param/_view and create_*_unstamped/_view; impls that do not override inherit the default, "
    "which is handle_with_ctx(&view.to_message(), ctx) with to_message copying header, query and body unchanged. "
    "(pipeline-forwards) MiddlewarePipeline builds Next over the whole middleware list and the inner handler; Next::run calls "
    "the first middleware with the rest, or the inner handler with the same request and context, exactly once; the blocking "
    "wrapper delegates unchanged. (rebuild-covers-all) every router entry type with a `dispatched` slot is built with "
    "dispatched = wrap_with_middlewares(raw, middlewares); register_middleware rebuilds all three collections after extending "
    "the list; Router::get hands out only `dispatched`. (lookup-order) the exact map is consulted first and the prefix scans "
    "run only on its miss. (prefix-boundary) each of the four prefix matchers accepts exactly when the prefix is empty, or "
    "path == prefix, or path starts with prefix and the remainder starts with '/'. (fast-path-guard) the escape-free segment "
    "splitter runs only when the path contains no '~', otherwise json_pointer::parse is used; \"\" -> no tokens, \"/\" -> one "
    "empty token. (splitter-conserves-segments) the tokens come from split('/'), every token fetched in the loop is stored "
    "(stack slot or overflow vector) before the next is fetched, and the token iterator is never passed through an adapter that "
    "can drop elements (zip as receiver, take_while, filter, step_by, ...). Not decided: full equality of the stack/heap splitter "
    "with json_pointer::parse for 0..40 segments (loop-carried "
    "values), the derive macro's generated code, decoding of arbitrary body bytes (serde/beve)."
    ' (request-is-the-routing-key, closed over delegations) every in-crate function that receives a request and delegates to HandlerErased::handle* / Middleware::handle / Next::run hands on the request it received.'
    ' An entry wrapped in a chain assembled in the function is accepted when that chain is what the function stores into self.middlewares on every way out; a wrap in self.middlewares before the same function replaces the list is reported.'
)
ASSUMPTIONS = ["str::strip_prefix / starts_with / split have their std semantics"]

TWIN_RENAMES = (
    ("_param_view(", "_param("),
    ("create_response_unstamped_view(", "create_response_unstamped("),
    ("create_typed_slice_response_unstamped_view(", "create_typed_slice_response_unstamped("),
    ("create_error_response_unstamped_view(", "create_error_response_like("),
    ("::handle_view::{closure", "::handle::{closure"),
    ("{view: ", "{req: "),
    ("arg1.view", "arg1.req"),
)


import re as _re
_ORD_RE = _re.compile(r"#\d+")
_TOVEC_RE = _re.compile(r"<impl \[T\]>::to_vec\((arg\d+\.(?:body|query))\)")


def norm_rows(rows):
    out = []
    for g, v in rows:
        txt = _ORD_RE.sub("", " & ".join(g) + " => " + v)
        for a, b in TWIN_RENAMES:
            txt = txt.replace(a, b)
        # an owned copy of the request's bytes is spelled `req.body.clone()` on the owned path (clone is transparent to the
        # evaluator) and `view.body.to_vec()` on the borrowed one
        txt = _TOVEC_RE.sub(lambda m_: m_.group(1), txt)
        out.append(txt)
    return sorted(out)


THREE_WAY_RENAMES = (
    ("HandlerErased::handle_view(", "HandlerErased::handle_with_ctx("),
    ("::handle_view::{closure", "::handle_with_ctx::{closure"),
)


def twin_check(facts, R, a, b, what, three_way=False):
    ba, bb = facts.body(a), facts.body(b)
    ra = norm_rows(value_rows(ba, Sym(ba), facts, 0))
    rb = norm_rows(value_rows(bb, Sym(bb), facts, 0))
    if three_way:
        def _tw(rows):
            out = []
            for x in rows:
                for p_, q_ in THREE_WAY_RENAMES + (("::handle::{closure", "::handle_with_ctx::{closure"),):
                    x = x.replace(p_, q_)
                out.append(x)
            return sorted(out)
        ra, rb = _tw(ra), _tw(rb)
    same = ra == rb
    diff = ""
    if not same:
        da = [x for x in ra if x not in rb]
        db = [x for x in rb if x not in ra]
        diff = "only in %s: %s | only in %s: %s" % (a.rsplit("::", 1)[-1], [x[:260] for x in da], b.rsplit("::", 1)[-1], [x[:260] for x in db])
    R.check(same, "handler-twins", a, what, "owned and borrowed paths differ: %s" % diff, ba.span, "%d identical rows" % len(ra))
    return len(ra)


def _next_fields(facts, x):
    """Fields of a `Next` value: the literal, or a call of one of Next's own constructors folded into the caller (the
    constructor's result literal with the call's arguments substituted for its parameters)."""
    if x[0] == "agg" and x[1].endswith("Next"):
        return {k: render_n(e) for k, e in x[3]}
    if x[0] == "call":
        cands = [p for p in facts.bodies if p.startswith("server::Next::<'a>::") and p.count("::") == 3 and x[1].endswith("::" + p.rsplit("::", 1)[-1])]
        for p in cands:
            cv = Sym(facts.body(p)).local(0)
            if cv[0] == "agg" and cv[1].endswith("Next"):
                out = {}
                for k, e in cv[3]:
                    r = render_n(e)
                    for ai in range(len(x[2])):
                        r = r.replace("arg%d" % (ai + 1), "\0%d\1" % ai)
                    for ai, a in enumerate(x[2]):
                        r = r.replace("\0%d\1" % ai, render_n(a))
                    out[k] = r
                return out
    return {}


def run(facts, R):
    # ---------------- handler-twins -------------------------------------------------------------------
    impls = facts.impls_of("server::HandlerErased")
    n_over = 0
    n_default = 0
    for im in impls:
        ms = im["methods"]
        if "handle_view" in ms and "handle_with_ctx" in ms:
            # a context-aware handler with its own borrowing path: the owned path is handle_with_ctx (handle only supplies a
            # detached context), so that is what the borrowing path must agree with
            n_over += 1
            twin_check(facts, R, ms["handle_with_ctx"], ms["handle_view"], "handle_with_ctx == handle_view for " + im["self_ty"], three_way=True)
            hb = facts.body(ms["handle"])
            hrows = value_rows(hb, Sym(hb), facts, 0)
            deleg = len(hrows) == 1 and (("handle_with_ctx(arg1, arg2" in hrows[0][1] and "detached(" in hrows[0][1]) or "HandlerErased::handle(arg1.0, arg2)" in hrows[0][1])
            R.check(deleg, "handler-twins", ms["handle"], "handle delegates to handle_with_ctx with a detached context",
                    "handle of a context-aware handler is %s" % [v[:160] for _, v in hrows], hb.span)
        elif "handle_view" in ms:
            n_over += 1
            twin_check(facts, R, ms["handle"], ms["handle_view"], "handle == handle_view for " + im["self_ty"])
        else:
            n_default += 1
    R.floor("handler-twins", n_over, 4, "impls overriding handle_view")
    R.note("impls using the default handle_view: %d" % n_default)
    for a, b in (("server::decode_json_param", "server::decode_json_param_view"),
                 ("server::decode_typed_param", "server::decode_typed_param_view"),
                 ("server::decode_typed_slice_param", "server::decode_typed_slice_param_view"),
                 ("message::create_response_unstamped", "message::create_response_unstamped_view"),
                 ("message::create_typed_slice_response_unstamped", "message::create_typed_slice_response_unstamped_view")):
        if a not in facts.bodies and b not in facts.bodies:
            # both helpers were folded into their callers: the handle/handle_view comparison above now covers their code
            R.note("helper pair %s / %s no longer exists; covered by the handle == handle_view comparison" % (a, b))
            continue
        if (a in facts.bodies) != (b in facts.bodies):
            # one function now serves both paths (it takes what the two requests have in common): nothing left to compare here,
            # the handle == handle_view comparison sees both paths call it
            R.note("helper pair %s / %s merged into one function shared by both dispatch paths" % (a, b))
            continue
        twin_check(facts, R, a, b, "helper pair")
    # the closures handed to decode_typed_slice_ref_param by the two paths
    for im in impls:
        if "TypedSliceRefHandler" in im["self_ty"]:
            ca = facts.children(im["methods"]["handle"])
            cb = facts.children(im["methods"]["handle_view"])
            if len(ca) == 1 and len(cb) == 1:
                twin_check(facts, R, ca[0].path, cb[0].path, "bad-format closure pair")
            elif not ca and not cb:
                R.note("TypedSliceRefHandler builds its bad-format answer inline: covered by the handle == handle_view comparison")
            else:
                R.bad("handler-twins", im["methods"]["handle"], "closures", "expected one closure each, found %d/%d" % (len(ca), len(cb)))
    # default handle_view / handle_with_ctx
    dv = facts.body("server::HandlerErased::handle_view")
    rows = value_rows(dv, Sym(dv), facts, 0)
    ok = len(rows) == 1 and rows[0][1].startswith("HandlerErased::handle_with_ctx(arg1, ") and "to_message(arg2)" in rows[0][1] and rows[0][1].endswith(", arg3)")
    R.check(ok, "handler-twins", dv.path, "default handle_view = handle_with_ctx(&view.to_message(), ctx)", "default is %s" % rows, dv.span, rows[0][1] if rows else None)
    dc = facts.body("server::HandlerErased::handle_with_ctx")
    rows = value_rows(dc, Sym(dc), facts, 0)
    ok = len(rows) == 1 and rows[0][1] == "HandlerErased::handle(arg1, arg2)"
    R.check(ok, "handler-twins", dc.path, "default handle_with_ctx = handle(req)", "default is %s" % rows, dc.span)
    tm = facts.body("message::MessageView::<'a>::to_message")
    tv = Sym(tm).local(0)
    okm = tv[0] == "agg" and tv[1] == "message::Message"
    if okm:
        d = dict(tv[3])
        okm = render_n(d["header"]) == "arg1.header" and render_n(d["query"]).endswith("to_vec(arg1.query)") and render_n(d["body"]).endswith("to_vec(arg1.body)")
    R.check(okm, "handler-twins", tm.path, "to_message copies header/query/body", "to_message builds %s" % render(tv)[:200], tm.span, render_n(tv)[:160])

    # ---------------- pipeline-forwards ------------------------------------------------------------------
    mp = [im for im in impls if im["self_ty"] == "server::MiddlewarePipeline"]
    R.check(len(mp) == 1, "pipeline-forwards", "<crate>", "MiddlewarePipeline impl", "found %d impls" % len(mp))
    for im in mp:
        for m, ctor, extra in (("handle", "new", None), ("handle_with_ctx", "with_ctx", "arg3")):
            b = facts.body(im["methods"][m])
            bs = Sym(b)
            rows = value_rows(b, bs, facts, 0)
            v = bs.local(0)
            ok = len(rows) == 1 and is_call(v, "run") and len(v[2]) == 2 and render_n(v[2][1]) == "arg2"
            nxt = _next_fields(facts, v[2][0]) if ok else {}
            if ok:
                want_ctx = "Option::None{}" if extra is None else "Option::Some{0: %s}" % extra
                ok = nxt.get("middlewares") == "arg1.middlewares" and nxt.get("handler") == "arg1.handler" and nxt.get("ctx") == want_ctx
            R.check(ok, "pipeline-forwards", b.path, "Next over the whole list and the inner handler", "pipeline %s is %s (Next = %s)" % (m, rows, nxt), b.span, rows[0][1][:160] if rows else None)
        # (constructors are folded into their callers by _next_fields, whatever they are called and however their
        # parameters are ordered)
    nr = facts.body("server::Next::<'a>::run")
    ns = Sym(nr)
    calls = [(i, t) for i, t in nr.calls() if t["callee"]["decl"] in ("server::Middleware::handle", "server::HandlerErased::handle", "server::HandlerErased::handle_with_ctx")]
    pc = path_counts(nr, [i for i, _ in calls])
    R.check(pc == (1, 1) and len(calls) == 3, "pipeline-forwards", nr.path, "exactly one downstream call per run", "downstream calls per path %s over %d sites" % (pc, len(calls)), nr.span)
    for i, t in calls:
        a = [render_n(ns.op(x)) for x in t["args"]]
        fs = ["%s is %s" % (render_n(f["expr"]), f["val"]) for f in facts_at(nr, ns, facts, i)]
        nm = t["callee"]["name"]
        if t["callee"]["decl"] == "server::Middleware::handle":
            d = _next_fields(facts, ns.op(t["args"][2]))
            ok = a[0].endswith("split_first(arg1.middlewares) as Some).0.0") and a[1] == "arg2" and \
                d.get("middlewares", "").endswith("split_first(arg1.middlewares) as Some).0.1") and d.get("middlewares", "").startswith("(") and \
                d.get("handler") == "arg1.handler" and d.get("ctx") == "arg1.ctx"
            # the same split spelled as a slice pattern `[first, rest @ ..]`
            ok = ok or (a[0] == "arg1.middlewares[0]" and a[1] == "arg2" and d.get("middlewares") == "arg1.middlewares[1..]" and
                        d.get("handler") == "arg1.handler" and d.get("ctx") == "arg1.ctx" and any("PtrMetadata(arg1.middlewares) Ge 1) is True" in x for x in fs))
            R.check(ok, "pipeline-forwards", nr.path, "first.handle(req, Next{rest, handler, ctx})", "middleware call args %s" % a, t.get("span"), "rest of the chain forwarded")
        else:
            ok = a[0] == "arg1.handler" and a[1] == "arg2" and (any("split_first(arg1.middlewares) is None" in x for x in fs) or
                                                                 any("PtrMetadata(arg1.middlewares) Eq 0) is True" in x for x in fs))
            if nm == "handle_with_ctx":
                ok = ok and "arg1.ctx" in a[2] and any("arg1.ctx is Some" in x for x in fs)
            R.check(ok, "pipeline-forwards", nr.path, "inner handler gets the same request (%s)" % nm, "inner call args %s under %s" % (a, fs), t.get("span"))
    orh = [im for im in impls if im["self_ty"].startswith("server::OffReaderHandler")]
    for im in orh:
        for m in ("handle", "handle_with_ctx"):
            b = facts.body(im["methods"][m])
            rows = value_rows(b, Sym(b), facts, 0)
            want = "::%s(arg1.0, arg2%s)" % (m, ", arg3" if m == "handle_with_ctx" else "")
            ok = len(rows) == 1 and rows[0][1].endswith(want)
            R.check(ok, "pipeline-forwards", b.path, "blocking wrapper delegates unchanged", "wrapper %s is %s" % (m, rows), b.span)

    # ---------------- rebuild-covers-all -------------------------------------------------------------------
    entry_types = [p for p, a in facts.adts.items() if p.startswith("server::") and a["kind"] == "struct"
                   and {"raw", "dispatched"} <= {f["name"] for f in a["variants"][0]["fields"]}]
    R.check(len(entry_types) == 3, "rebuild-covers-all", "<crate>", "three entry types with a dispatched slot", "entry types: %s" % entry_types)
    n_cons = 0
    for et in entry_types:
        for b, i, j, s in struct_constructions(facts, et):
            if b.path.startswith("<") and "Clone" in b.path:
                continue
            n_cons += 1
            v = Sym(b).rvalue(s["rv"])
            d = dict(v[3])
            disp = d["dispatched"]
            raw = d["raw"]
            ok = False
            det = render(disp)[:160]
            if is_call(disp, "server::wrap_with_middlewares"):
                def _core(e_):
                    while e_[0] == "call" and e_[1].rsplit("::", 1)[-1] == "clone" and len(e_[2]) == 1:
                        e_ = e_[2][0]
                    return e_
                ok = disp[2][0] == raw and render(disp[2][1]).endswith("middlewares")
                if ok and getattr(b, "changed", True):
                    # ... and it is the list as it will stand: a store to self.middlewares in the same function comes before the wrap
                    ms_ = [w_ for w_ in field_writes(facts, "server::Router", "middlewares") if w_["body"] is b and w_["kind"] in ("store", "call-dest")]
                    ok = all(b.dominates(w_["bb"], i) for w_ in ms_)
                    if not ok:
                        det = "wrapped in the list as it was before this function replaced it: " + det
                if not ok and getattr(b, "changed", True) and _core(disp[2][0]) == _core(raw):
                    # a chain assembled in this function (a merge of two routers' lists) is the router's own list when it is what the
                    # function stores into self.middlewares on every way out: entries and list are replaced together
                    bs_ = Sym(b)
                    st_ = [(w_["bb"], w_["idx"]) for w_ in field_writes(facts, "server::Router", "middlewares") if w_["body"] is b and w_["kind"] == "store"
                           and _core(bs_.rvalue(w_["rv"])) == _core(disp[2][1])]
                    ok = bool(st_) and must_cross(b, [(i, j)], return_points(b), st_, after_start=False) is None
                if not ok and raw in disp[2]:
                    # the wrapper as a method of the router (`self.wrap(raw)`): the chain it applies is the router's own list,
                    # read inside the wrapper
                    wb_ = facts.bodies.get("server::wrap_with_middlewares")
                    other = [a for a in disp[2] if a != raw]
                    self_like = all(render_n(a).endswith("self") or render_n(a) == "arg1" for a in other)
                    reads_list = wb_ is not None and any("middlewares" in render(Sym(wb_).op(a)) for _, t_ in wb_.calls() for a in t_["args"])
                    ok = self_like and reads_list
            elif disp[0] in ("local", "arg"):
                # hoisted into a variable: its single definition must be the wrap of the same raw
                defs = [dd for dd in b.defs_of(disp[1]) if dd[0] == "call"]
                ok = len(defs) == 1 and callee_matches(defs[0][2]["callee"], "server::wrap_with_middlewares")
            R.check(ok, "rebuild-covers-all", b.path, "%s.dispatched = wrap_with_middlewares(raw, middlewares)" % et.rsplit("::", 1)[-1],
                    "entry built with dispatched = %s (raw = %s)" % (det, render(raw)[:80]), s.get("span"), det)
    R.floor("rebuild-covers-all", n_cons, 6, "entry constructions")
    rm = facts.body("server::Router::register_middleware")
    rsym = Sym(rm)
    mid_store = [(w["bb"], w["idx"]) for w in field_writes(facts, "server::Router", "middlewares") if w["body"] is rm and w["kind"] in ("store", "call-dest")]
    R.check(len(mid_store) == 1, "rebuild-covers-all", rm.path, "middleware list extended", "stores to self.middlewares: %d" % len(mid_store), rm.span)
    for fld in ("inner", "registries", "structs"):
        ws = [(w["bb"], w["idx"]) for w in field_writes(facts, "server::Router", fld) if w["body"] is rm and w["kind"] in ("store", "call-dest")]
        w = must_cross(rm, [(0, 0)], return_points(rm), ws, after_start=False)
        after = bool(mid_store) and all(rm.dominates(mid_store[0][0], x[0]) for x in ws)
        R.check(bool(ws) and w is None and after, "rebuild-covers-all", rm.path, "self.%s rebuilt after the list was extended" % fld,
                "register_middleware does not rebuild `%s` on every path after updating the middleware list" % fld, rm.span, "rebuilt", path=w)
    # every store to one of the three route tables, whoever makes it: the new table is built in that function (from entry literals, each
    # judged above) or is this router's own table again - never another router's table adopted whole, whose dispatched slots carry *that*
    # router's middleware chain (`self.inner = Arc::clone(&other.inner)` in a merge fast path)
    n_tab = 0
    for fld in ("inner", "registries", "structs"):
        for w_ in field_writes(facts, "server::Router", fld):
            if w_["kind"] != "store":
                continue
            wb_ = w_["body"]
            n_tab += 1
            from analysis.sym import split_rows as _sr
            ws_ = Sym(wb_)
            alts_ = (_sr(ws_, w_["bb"], w_["idx"], w_["rv"]) if getattr(wb_, "changed", False) else None) or [({}, ws_.rvalue(w_["rv"]))]
            for _, v_ in alts_:
                foreign = [x for x in walk(v_) if x[0] == "field" and x[2] in ("inner", "registries", "structs") and x[1][0] == "arg" and
                           "server::Router" in wb_.local_ty(x[1][1]) and not (x[1][1] == 1 and (wb_.debug_name(1) or "self") == "self")]
                adopted = bool(foreign) and not any(x[0] == "agg" for x in walk(v_)) and (v_[0] != "call" or v_[1].rsplit("::", 1)[-1] in ("clone", "new", "from", "into") and
                                                                                        all(y[0] != "call" or y[1].rsplit("::", 1)[-1] in ("clone", "new", "from", "into", "deref", "as_ref") for y in walk(v_)))
                if adopted:
                    # ... unless neither router has any middleware at that point: then every dispatched slot is its raw handler on both sides
                    fs_ = facts_at(wb_, ws_, facts, w_["bb"])
                    empties_ = [render(f_["expr"][2][0]) for f_ in fs_ if is_call(f_["expr"], "is_empty") and f_["val"] is True and f_["expr"][2] and render(f_["expr"][2][0]).endswith(".middlewares")]
                    if len(set(empties_)) >= 2:
                        adopted = False
                R.check(not adopted, "rebuild-covers-all", wb_.path, "a route table is never adopted from another router",
                        "%s stores %s into self.%s: the entries' dispatched handlers were wrapped with the other router's middleware list, so this router's "
                        "middleware does not run for them" % (wb_.path.rsplit("::", 1)[-1], render(v_)[:100], fld), w_.get("span"), "table built here from judged entry literals")
    R.floor("rebuild-covers-all", n_tab, 6, "stores to the route tables")
    gt = facts.body("server::Router::get")
    gs = Sym(gt)
    rows = value_rows(gt, gs, facts, 0)
    for g, v in rows:
        import re as _re
        if v.startswith("Option::None") or (_re.match(r"^Option::map[#\d]*\(", v) and "{closure#" in v):
            continue
        m_ = _re.match(r"^Option::Some\{0: \((Option::map[#\d]*\(.*\{closure#\d+\}\{[^}]*\}\)) as Some\)\.0\}$", v)
        if m_:
            continue   # `Some(x)` behind `match opt.map(closure) { Some(x) => ..}`: the value is the closure's (judged below)
        if v.startswith("Option::map") and "or_else" in v and "fn:" in v:
            continue   # combinator chain: the closures below decide what is handed out
        R.check("dispatched" in v and ".raw" not in v, "rebuild-covers-all", gt.path, "get returns only dispatched", "Router::get can return %s" % v[:160], gt.span, v[:100])
    for c in facts.children(gt.path):
        cv = render(Sym(c).local(0))
        if "Arc" in cv or "clone" in cv or "dispatched" in cv or "raw" in cv:
            R.check("dispatched" in cv and ".raw" not in cv, "rebuild-covers-all", c.path, "get closure returns dispatched", "closure returns %s" % cv, c.span, cv)

    # ---------------- lookup-order ------------------------------------------------------------------------------
    mg = [(i, t) for i, t in gt.calls() if t["callee"]["name"] == "get" and "HashMap" in t["callee"]["path"]]
    finds = [(i, t) for i, t in gt.calls() if t["callee"]["name"] == "find"]
    # the same precedence spelled as a lazy combinator chain: inner.get(path)[.map(..)].or_else(|| registries..).or_else(|| structs..)
    raw_rows = value_rows(gt, gs, facts, 0, fmt=lambda z: z)
    if len(mg) == 1 and not finds and len(raw_rows) == 1:
        e = raw_rows[0][1]
        clos = []
        while e[0] == "call" and e[1].rsplit("::", 1)[-1] in ("map", "cloned", "copied", "or_else") and e[2]:
            if e[1].rsplit("::", 1)[-1] == "or_else" and len(e[2]) == 2:
                clos.append(e[2][1])
            e = e[2][0]
        clos.reverse()
        base_ok = is_call(e, "get") and "inner" in render(e[2][0])
        srcs = []
        for c in clos:
            cp = c[1].split(":", 1)[1] if c[0] == "agg" and c[1].startswith("closure:") else None
            cb = facts.bodies.get(cp) if cp else None
            txt = render(Sym(cb).local(0)) if cb is not None else ""
            srcs.append("registries" if ("registries" in txt and "find(" in txt) else "structs" if ("structs" in txt and "find(" in txt) else "?")
        R.check(base_ok and srcs == ["registries", "structs"], "lookup-order", gt.path, "exact lookup first, then lazy prefix scans (or_else chain)",
                "Router::get is a combinator chain over %s with fallbacks %s" % (render(e)[:60], srcs), gt.span, "inner.get(path).or_else(registries).or_else(structs)")
        finds = None
    if finds is not None:
        R.check(len(mg) == 1 and len(finds) == 2, "lookup-order", gt.path, "one exact lookup, two prefix scans", "map gets=%d finds=%d" % (len(mg), len(finds)), gt.span)
    finds = finds or []
    for i, t in finds:
        fs = facts_at(gt, gs, facts, i)
        miss = any(f["val"] == "None" and is_call(f["expr"], "get") and "inner" in render(f["expr"]) for f in fs)
        R.check(miss, "lookup-order", gt.path, "prefix scan only after exact miss", "a prefix scan runs although the exact map may hold the path; guards %s" % texts(fs), t.get("span"),
                "guarded by inner.get(path) is None")
    for g, v in rows:
        if "inner" in v and "dispatched" in v:
            R.check(any("is Some" in x and "inner" in x for x in g), "lookup-order", gt.path, "exact hit returns immediately", "row %s under %s" % (v[:80], g), gt.span)

    # ---------------- request-is-the-routing-key: what a handler or mount resolves is the query of the request it was handed.
    # Middleware may forward a rewritten request with the original context (`next.run(&rewritten)`), so the context's method()
    # can name another path than the request; it is informational.  No dispatch code reads it, and every registry mount
    # resolves its pointer from the request's own query
    n_key = 0
    for b_ in facts.bodies.values():
        if not b_.path.startswith(("server::", "<server::", "registry::", "<registry::", "server_request::", "middleware::", "<middleware::")):
            continue
        s_ = None
        for i, t in b_.calls():
            if t["callee"]["path"].startswith("peer::CallContext") and t["callee"]["name"] == "method":
                R.bad("request-is-the-routing-key", b_.path, "ctx.method() not read by dispatch code",
                      "%s reads CallContext::method(): behind a middleware that forwards a rewritten request the context still names the original path, so the request "
                      "would be resolved against the wrong path" % b_.path.rsplit("::", 1)[-1], t.get("span"))
            if callee_matches(t["callee"], "server::RegisteredRegistry::pointer_for") and len(t["args"]) == 2:
                s_ = s_ or Sym(b_)
                n_key += 1
                v = render(s_.op(t["args"][1]))
                R.check("query_str(" in v or ".query" in v, "request-is-the-routing-key", b_.path, "the mount resolves the request's own query",
                        "pointer_for is given %s, which is not the query of the request being handled" % v[:120], t.get("span"), v[:80])
    R.floor("request-is-the-routing-key", n_key, 2, "pointer_for calls in the registry mount")
    # ... and every in-crate forwarder (default trait methods, wrappers, the pipeline, the dispatch helpers, a mount that
    # delegates to an inner router) hands downstream the very request it received: built-in handlers build their error
    # responses from the request they see (create_error_response_like copies its id and query), so a re-addressed copy makes
    # the error answers of a route differ from the same handler registered flat, and from the request's query
    DOWN = ("server::HandlerErased::handle", "server::HandlerErased::handle_with_ctx", "server::HandlerErased::handle_view",
            "server::Middleware::handle", "server::Next::<'a>::run")
    n_fwd = 0
    for b_ in facts.bodies.values():
        if not b_.path.startswith(("server::", "<server::", "registry::", "<registry::", "server_request::", "middleware::", "<middleware::")):
            continue
        reqs = [a for a in range(1, b_.argc + 1) if "message::Message" in b_.local_ty(a)]
        if not reqs:
            continue
        s_ = None
        for i, t in b_.calls():
            if not (t["callee"].get("decl") in DOWN or t["callee"]["path"] in DOWN) or len(t["args"]) < 2:
                continue
            s_ = s_ or Sym(b_)
            n_fwd += 1
            v = s_.op(t["args"][1])
            while v[0] == "call" and len(v[2]) == 1 and v[1].rsplit("::", 1)[-1] in ("deref", "as_ref", "borrow", "to_message", "clone", "as_view", "view"):
                v = v[2][0]
            ok = v[0] == "arg" and v[1] in reqs
            if not ok and v[0] == "agg" and str(v[1]).rsplit("::", 1)[-1] in ("Message", "MessageView"):
                # a field-by-field copy of the received request
                d_ = dict(v[3])

                def _same(e_, f_):
                    while e_ is not None and e_[0] == "call" and len(e_[2]) == 1 and e_[1].rsplit("::", 1)[-1] in ("deref", "as_ref", "borrow", "clone", "to_vec", "to_owned", "as_slice"):
                        e_ = e_[2][0]
                    return e_ is not None and e_[0] == "field" and e_[2] == f_ and e_[1][0] == "arg" and e_[1][1] in reqs
                ok = all(_same(d_.get(f_), f_) for f_ in ("header", "query", "body"))
            R.check(ok, "request-is-the-routing-key", b_.path, "the request handed downstream is the request received",
                    "%s hands %s to %s instead of the request it was given: the inner handler's own error responses echo that request's query and id, so "
                    "the route answers differently from the same handler registered directly" % (b_.path.rsplit("::", 1)[-1], render(v)[:120], t["callee"]["path"].rsplit("::", 2)[-1]),
                    t.get("span"), "request forwarded unchanged")
    R.floor("request-is-the-routing-key", n_fwd, 12, "delegations to a downstream handler / middleware")

    # ---------------- exact-key-verbatim: "an exactly registered path always wins" needs the exact table to be keyed by the very
    # string that requests are looked up with.  Router::get looks the raw request path up; so every insert into the exact
    # table stores the registration path unmodified (an owned copy), and the lookup key is the request path unmodified
    def _verbatim(e):
        while e[0] == "call" and len(e[2]) == 1 and e[1].rsplit("::", 1)[-1] in ("to_string", "to_owned", "into", "from", "clone", "as_ref", "as_str", "deref", "borrow", "to_str"):
            e = e[2][0]
        return e
    n_ins = 0
    for b_ in facts.bodies.values():
        if not b_.path.startswith("server::Router::"):
            continue
        s_ = Sym(b_)
        for i, t in b_.calls():
            if t["callee"]["name"] == "insert" and "HashMap" in t["callee"]["path"] and len(t["args"]) == 3 and "RouterMapEntry" in (t.get("arg_tys") or ["", "", ""])[2]:
                n_ins += 1
                k = _verbatim(s_.op(t["args"][1]))
                kr = render(k)
                # (re-inserting the entries of the table itself - register_middleware re-wrapping every route - keeps their keys)
                from_table = "inner" in kr and ("iter(" in kr or "into_iter(" in kr or "keys(" in kr or "drain(" in kr) and not any(
                    x[0] == "call" and x[1].rsplit("::", 1)[-1] in ("trim", "trim_end_matches", "trim_start_matches", "to_lowercase", "to_uppercase", "replace", "format", "strip_prefix", "strip_suffix")
                    for x in walk(k))
                R.check(k[0] == "arg" or from_table, "exact-key-verbatim", b_.path, "route stored under the registration path itself",
                        "the exact-route table is keyed by %s, not by the path as registered: a request for the registered spelling misses the table and falls through to a mounted prefix"
                        % render(s_.op(t["args"][1]))[:120], t.get("span"), "insert(path.to_string(), ..)")
    R.floor("exact-key-verbatim", n_ins, 1, "inserts into the exact-route table")
    for i, t in gt.calls():
        if t["callee"]["name"] == "get" and "HashMap" in t["callee"]["path"] and "inner" in render(gs.op(t["args"][0])):
            k = _verbatim(gs.op(t["args"][1]))
            R.check(k[0] == "arg", "exact-key-verbatim", gt.path, "request path looked up as received", "Router::get looks up %s" % render(gs.op(t["args"][1]))[:120], t.get("span"), "inner.get(path)")

    # ---------------- prefix-boundary ------------------------------------------------------------------------------
    for fn, pfx in (("server::RegistryEntry::matches", "prefix"), ("server::StructEntry::matches", "root"),
                    ("server::RegisteredRegistry::pointer_for", "prefix"), ("server::RegisteredStruct::<T, L>::relative_pointer", "root")):
        prefix_table(facts, R, fn, pfx)

    # ---------------- fast-path-guard --------------------------------------------------------------------------------
    ds = facts.body("server::dispatch_struct_segments")
    dsym = Sym(ds)
    hcalls = [(i, t) for i, t in ds.calls() if t["callee"]["name"] == "repe_handle"]
    R.floor("fast-path-guard", len(hcalls), 5, "repe_handle call sites")
    parse_calls = [i for i, t in ds.calls() if callee_matches(t["callee"], "json_pointer::parse")]
    for i, t in hcalls:
        fs = texts(facts_at(ds, dsym, facts, i))
        no_tilde = any("contains(" in x and "is False" in x for x in fs)
        tilde = any("contains(" in x and "is True" in x for x in fs)
        if tilde:
            ok = any(ds.dominates(p, i) for p in parse_calls)
            R.check(ok, "fast-path-guard", ds.path, "escaped paths go through json_pointer::parse", "escape branch does not parse with json_pointer::parse", t.get("span"))
        else:
            R.check(no_tilde, "fast-path-guard", ds.path, "fast path only without '~'", "segment fast path reachable for a path containing '~'; guards %s" % fs, t.get("span"))
            seg = render_n(dsym.op(t["args"][1]))
            if any("is_empty(arg2) is True" in x for x in fs):
                R.check("array" in seg and seg.count("''") == 0, "fast-path-guard", ds.path, "\"\" -> no tokens", "empty path passes %s" % seg, t.get("span"), seg)
            elif any("eq(" in x and "is True" in x for x in fs):
                R.check("''" in seg, "fast-path-guard", ds.path, "\"/\" -> one empty token", "\"/\" passes %s" % seg, t.get("span"), seg)
    # splitter-conserves-segments: the token iterator produced by split('/') flows only through item-conserving operations.
    # std semantics: as the *receiver* of zip an iterator loses the element it yielded when the other side ran out first;
    # take_while/map_while/skip_while consume the first failing element; filter/filter_map/step_by/nth drop elements.
    LOSSY = ("zip", "take_while", "map_while", "skip_while", "filter", "filter_map", "step_by", "nth", "nth_back", "last", "rev", "skip", "take", "chain")
    CONSERVING_BY_REF = ("take",)   # by_ref().take(n) consumes exactly the n items it yields
    split_calls = [(i, t) for i, t in ds.calls() if t["callee"]["name"] in ("split", "split_terminator", "splitn", "rsplit", "split_inclusive")]
    R.floor("splitter-conserves-segments", len(split_calls), 1, "split('/') sites in the fast path")
    for i, t in split_calls:
        R.check(t["callee"]["name"] == "split" and render(dsym.op(t["args"][1])) in ("'/'", "47"), "splitter-conserves-segments", ds.path, "tokens = split('/')",
                "segments are produced by %s(%s)" % (t["callee"]["name"], render(dsym.op(t["args"][1]))), t.get("span"))
    for i, t in ds.calls():
        nm = t["callee"]["name"]
        if t["callee"].get("trait") != "std::iter::Iterator" or nm not in LOSSY or not t["args"]:
            continue
        recv = dsym.op(t["args"][0])
        rtxt = render(recv)
        is_tokens = "split(" in rtxt or any(x[0] == "local" and "Split<" in ds.local_ty(x[1]) for x in walk(recv)) or "Split<" in (t["callee"].get("self_ty") or "")
        if not is_tokens:
            continue
        if nm == "skip" and "split(" in rtxt and "by_ref" not in rtxt:
            continue   # split('/').skip(1) to drop the leading empty token is equivalent to strip_prefix('/')
        if nm in CONSERVING_BY_REF and ("by_ref" in rtxt or "&mut" in (t["callee"].get("self_ty") or "")):
            continue
        R.bad("splitter-conserves-segments", ds.path, "tokens." + nm,
              "the segment iterator is passed through `%s`, which can drop reference tokens (e.g. as the receiver of zip the element yielded when "
              "the other side is exhausted is lost): a mounted struct would not see every token of a deep path" % nm, t.get("span"))
    # each token obtained in a plain loop is stored on every path before the next one is fetched
    nxt = [(i, t) for i, t in ds.calls() if t["callee"]["name"] == "next" and "Split<" in (t["callee"].get("self_ty") or "")]
    for i, t in nxt:
        some = [x for x in sorted(ds.live_blocks()) if any(f["val"] == "Some" and not f.get("derived") and f["expr"][0] == "call" and len(f["expr"]) > 3 and f["expr"][3] == i for f in facts_at(ds, dsym, facts, x))]
        heads = [x for x in some if not any(p in some for p in ds.preds()[x])]
        stores = []
        for x, y, st in ds.assigns():
            if any(isinstance(e, dict) and "index" in e for e in st["place"]["p"]) and "next(" in render(dsym.rvalue(st["rv"])):
                stores.append((x, y))
        for x, tt in ds.calls():
            if tt["callee"]["name"] == "push" and len(tt["args"]) == 2 and "next(" in render(dsym.op(tt["args"][1])):
                stores.append(term_pt(ds, x))
        for h in heads:
            w = must_cross(ds, [(h, 0)], [term_pt(ds, i)] + return_points(ds), stores, after_start=False)
            R.check(bool(stores) and w is None, "splitter-conserves-segments", ds.path, "every token fetched is stored",
                    "a token obtained from the segment iterator can be discarded before the next one is fetched", t.get("span"), "stack[count] = seg or overflow.push(seg) on every path", path=w)
    tc = [(i, t) for i, t in ds.calls() if t["callee"]["name"] == "contains"]
    for i, t in tc:
        a = dsym.op(t["args"][1])
        R.check(const_val(a) == ord("~") or render(a) in ("'~'", "126"), "fast-path-guard", ds.path, "guard tests '~'", "contains(%s)" % render(a), t.get("span"))


def prefix_table(facts, R, fn, pfx):
    b = facts.body(fn)
    s = Sym(b)
    rows = value_rows(b, s, facts, 0, fmt=lambda z: z)
    closures = {c.path: c for c in facts.children(fn)}

    def lit(text, val):
        """map a guard text to (literal, bool) or None"""
        import re
        t = re.sub(r"#\d+\(", "(", text)
        outer = t.split("(", 1)[0]
        if outer.endswith("starts_with") and (t.endswith("'/')") or t.endswith(", 47)")):
            return ("B", val)
        if ("is_empty(arg1.%s)" % pfx) in t and outer.endswith("is_empty"):
            return ("E", val)
        if outer.endswith("eq") and ("arg1.%s" % pfx) in t and "arg2" in t:
            return ("Q", val)
        if (outer.endswith("strip_prefix") or outer.endswith("starts_with") or outer.endswith("branch")) and \
                (("strip_prefix(arg2, arg1.%s)" % pfx) in t or ("starts_with(arg2, arg1.%s)" % pfx) in t):
            return ("S", val)
        if outer.endswith("is_empty") and "is_empty(arg2)" in t:
            return ("P0", val)
        return None

    table = []
    bad = []
    for g, v in rows:
        lits = {}
        unknown = []
        for x in g:
            txt, _, valtxt = x.rpartition(" is ")
            val = {"True": True, "False": False, "Some": True, "None": False, "Continue": True, "Break": False}.get(valtxt)
            l = lit(txt, val)
            if l is None or val is None:
                unknown.append(x)
            else:
                lits[l[0]] = l[1]
        # result
        res = None
        rv = render_n(v)
        if v[0] == "const":
            res = ("const", bool(v[1]))
        elif v[0] == "agg" and v[2] in ("Some", "None"):
            res = ("const", v[2] == "Some")
        elif is_call(v, "from_residual"):
            res = ("const", False)
        elif is_call(v, "is_some_and") or is_call(v, "filter"):
            inner = v[2][0]
            clo = v[2][1]
            okc = False
            if clo[0] == "agg" and clo[1].startswith("closure:"):
                cb = closures.get(clo[1].split(":", 1)[1])
                if cb is not None:
                    cv = Sym(cb).local(0)
                    okc = is_call(cv, "starts_with") and render(cv[2][1]) in ("'/'", "47")
            if is_call(inner, "strip_prefix") and okc:
                res = ("and", "S", "B")
        elif v[0] == "call" and v[1].endswith("starts_with") and (rv.endswith("'/')") or rv.endswith(", 47)")):
            res = ("lit", "B")
        if res is None:
            bad.append("unrecognised result %s" % rv[:100])
            continue
        table.append((lits, unknown, res))

    def spec(E, Q, S, B):
        return E or Q or (S and B)
    mism = []
    for E, Q, S, B in itertools.product((False, True), repeat=4):
        if (E or Q) and not S:
            continue
        env = {"E": E, "Q": Q, "S": S, "B": B}
        hit = []
        for lits, unknown, res in table:
            if all(env.get(k) == v for k, v in lits.items() if k in env):
                hit.append((lits, unknown, res))
        outs = set()
        for lits, unknown, res in hit:
            if res[0] == "const":
                out = res[1]
            elif res[0] == "and":
                out = env[res[1]] and env[res[2]]
            else:
                out = env[res[1]]
            if unknown and out:
                mism.append("accepting row depends on an unrecognised condition %s" % unknown)
            outs.add(out)
        if len(outs) != 1:
            # rows guarded by P0 (path empty) split one case into two with the same outcome; anything else is ambiguity
            if outs == set():
                mism.append("no row covers %s" % env)
            elif len(outs) > 1:
                mism.append("rows disagree for %s" % env)
            continue
        if outs.pop() != spec(E, Q, S, B):
            mism.append("%s -> %s, specified %s" % (env, not spec(E, Q, S, B), spec(E, Q, S, B)))
    ok = not mism and not bad and table
    R.check(ok, "prefix-boundary", fn, "accept iff empty-prefix | equal | (prefix & '/' boundary)",
            "matcher decision table differs from the specified one: %s %s" % (mism[:4], bad[:3]), b.span, "%d rows, all 9 feasible cases agree" % len(table))
