"""C01 - wire frames: canonical 48-byte layout, lossless round trip, one encoding."""
import json
import os

from analysis.affine import Affine, Form, entails_le
import re
from analysis.flow import must_cross, return_points, term_pt, trace_op
from analysis.guards import facts_at, field_writes, struct_constructions
from analysis.mir import callee_matches, op_place
from analysis.report import VERIF
from analysis.sym import Sym, render, is_call, const_val, walk
from rules.common import texts, blocks_assigning_variant, value_rows, render_n

EXPLANATION = (
    "Decided structurally. (layout-table) the (field, offset, width, endianness) rows extracted from Header::encode by "
    "affine propagation of the running offset through index_mut(Range)/copy_from_slice and direct byte stores, and the rows "
    "extracted from Header::decode (slice range -> from_le_bytes -> field of the returned aggregate), equal each other and the "
    "frozen REPE v1 table, which is itself re-validated on every run by decoding the Glaze-produced interop fixtures with it "
    "in Python and comparing every field with manifest.json. (emission-normal-form) each emission route - to_vec, write_to, "
    "into_wire_bytes (both branches), write_message, write_message_streaming, write_message_async, write_view_response - emits "
    "encode(header), then the query, then the body, in that order on every path, empty payloads being the only thing that may "
    "be skipped; the in-place branch of into_wire_bytes is decided on byte regions: resize(total), body moved to [48+q, total), "
    "header to [0,48), query to [48,48+q), under capacity >= total. (length-formula) every store to Header.length is "
    "48 + query_length + body_length of the same header (decided on flow-sensitive affine forms of the values last stored, at the last store on each path) and every store to query_length/body_length is the length of the bytes "
    "emitted as query/body (or the declared body_len parameter). (decode-is-lossless) every field of decode's Ok value is the "
    "unmodified from_le_bytes of its bytes (no mask, no narrowing), and decode's rejections are exactly {fewer than 48 bytes, "
    "spec != 0x1507, length != 48+q+b}: a new rejection (e.g. of reserved bits or unknown format codes) is reported. The rules "
    "are value-independent, so they hold for all field values and capacity relations. (accept-guards, shared with C02) the parse half of the round trip: Message::from_slice and MessageView::from_slice accept only behind a successful Header::decode and 48+q+b <= len(buf), and what they return as query is buf[48..48+q] and as body buf[48+q..48+q+b] (payload-slots: each range is traced into its own slot of Message::new / the returned view, so swapped or shifted payloads are reported). (stream-fills-frame, shared with C02) the read side: a frame read from a stream into a reusable buffer leaves the buffer exactly the frame (len == 48+q+b, filled by read_exact). Not decided: what the OS / tungstenite "
    "does with the bytes afterwards."
    ' (length-formula, closed over constructions) every Message literal outside Message::new has header lengths provably equal to the lengths of the vectors it is paired with, or copies one source field for field; every store to or mutable borrow of Message.query / Message.body is followed by a store to the matching header length.'
)
ASSUMPTIONS = ["by-value iteration over a fixed array yields its elements once each in index order", "to_le_bytes/from_le_bytes are inverse; Vec::extend_from_slice/append/copy_within/copy_from_slice have std semantics",
               "every in-crate Message is well formed (header lengths agree with the vectors), which MessageBuilder::build establishes (length-formula)"]

SPEC = os.path.join(VERIF, "rules", "spec", "repe_v1_header.json")


def validate_spec_against_fixtures(R, spec):
    """decode the Glaze fixtures with the frozen table (no repe code involved)"""
    fdir = "/repo/interop/fixtures"
    mpath = os.path.join(fdir, "manifest.json")
    if not os.path.exists(mpath):
        R.bad("layout-table", "<fixtures>", "manifest", "interop/fixtures/manifest.json not found: the frozen layout table cannot be validated")
        return
    man = json.load(open(mpath))
    n = 0
    for fx in man["fixtures"]:
        p = os.path.join(fdir, fx["name"] + ".repe")
        data = open(p, "rb").read()
        vals = {}
        for f in spec["fields"]:
            vals[f["name"]] = int.from_bytes(data[f["offset"]:f["offset"] + f["width"]], "little")
        ok = True
        for k in ("id", "notify", "ec", "query_format", "body_format", "query_length", "body_length", "length"):
            if k in fx and vals[k] != fx[k]:
                ok = False
        ok = ok and vals["spec"] == spec["spec_magic"] and vals["length"] == len(data) == spec["header_size"] + vals["query_length"] + vals["body_length"]
        q = data[48:48 + vals["query_length"]]
        if "query" in fx:
            ok = ok and q == fx["query"].encode()
        n += 1
        R.check(ok, "layout-table", "<fixtures>", "fixture:" + fx["name"], "frozen REPE v1 table disagrees with Glaze frame %s: %s" % (fx["name"], vals), None,
                "table decodes the C++ reference frame to the manifest values")
    R.floor("layout-table", n, 10, "interop fixtures decoded with the frozen table")


def encode_rows(facts, R):
    b = facts.body("header::Header::encode")
    aff = Affine(b, facts)
    sym = aff.sym
    rows = []
    for i, t in b.calls():
        if t["callee"]["name"] == "copy_from_slice":
            # destination slice: index_mut(buf, Range{a,b})
            dst = op_place(t["args"][0])
            idx = _feeding_call(b, dst, ("index_mut", "index"))
            src = sym.op(t["args"][1])
            if idx is None:
                R.bad("layout-table", b.path, "copy-dest", "copy_from_slice into something that is not a range of the buffer", t.get("span"))
                continue
            ibb, it = idx
            st = aff.state_at(term_pt(b, ibb))
            rb = aff.range_bounds(st, it["args"][1])
            if rb is None or rb[1] is None or rb[2] is None or not rb[1].is_const() or not rb[2].is_const():
                R.bad("layout-table", b.path, "copy-range", "destination range is not constant", t.get("span"))
                continue
            if src[0] == "agg" and src[1] == "array" and len(src[3]) == 1 and src[3][0][1][0] == "field" and rb[2].c - rb[1].c == 1:
                # a one-byte field written as the one-element array [self.field]
                rows.append({"name": src[3][0][1][2], "offset": rb[1].c, "width": 1, "conv": "byte", "span": t.get("span"), "ty_width": 1})
                continue
            if not (src[0] == "call" and src[1].rsplit("::", 1)[-1] in ("to_le_bytes", "to_be_bytes", "to_ne_bytes") and src[2][0][0] == "field"):
                R.bad("layout-table", b.path, "copy-src", "bytes written are %s, not field.to_le_bytes()" % render(src), t.get("span"))
                continue
            rows.append({"name": src[2][0][2], "offset": rb[1].c, "width": rb[2].c - rb[1].c, "conv": src[1].rsplit("::", 1)[-1], "span": t.get("span"),
                         "ty_width": _int_width(src[1])})
    for i, j, s in b.assigns():
        pl = s["place"]
        ix = [e for e in pl["p"] if isinstance(e, dict) and "index" in e]
        if ix:
            st = aff.state_at((i, j))
            f = st.get(("L", ix[0]["index"]))
            v = sym.rvalue(s["rv"])
            if f is None or not f.is_const() or v[0] != "field":
                R.bad("layout-table", b.path, "byte-store", "byte store %s at non-constant offset / from %s" % (f, render(v)), s.get("span"))
                continue
            rows.append({"name": v[2], "offset": f.c, "width": 1, "conv": "byte", "span": s.get("span"), "ty_width": 1})
    # result is the buffer
    return rows


def decode_rows(facts, R):
    b = facts.body("header::Header::decode")
    aff = Affine(b, facts)
    sym = aff.sym
    rows = []
    oks = blocks_assigning_variant(b, "std::result::Result", "Ok")
    hdr = None
    for i, j, s in b.assigns():
        if s["rv"].get("agg") == "adt" and s["rv"]["adt"] == "header::Header":
            hdr = (i, j, s)
    if hdr is None:
        R.bad("layout-table", b.path, "aggregate", "Header aggregate not found in decode")
        return rows
    i, j, s = hdr
    for nm, op in zip(s["rv"]["fields"], s["rv"]["ops"]):
        v = sym.op(op)
        # expected: from_le_bytes(unwrap(try_into(index(input, Range{a,b}))))   or   input[k]
        row = {"name": nm, "span": s.get("span")}
        if v[0] == "call" and v[1].rsplit("::", 1)[-1] in ("from_le_bytes", "from_be_bytes", "from_ne_bytes"):
            row["conv"] = v[1].rsplit("::", 1)[-1]
            row["ty_width"] = _int_width(v[1])
            inner = [x for x in walk(v) if x[0] == "call" and x[1].rsplit("::", 1)[-1] == "index"]
            direct = v[2][0]
            chain_ok = is_call(direct, "unwrap", "expect") and is_call(direct[2][0], "try_into") and inner and direct[2][0][2][0] == inner[0]
            if not chain_ok or len(inner) != 1:
                R.bad("decode-is-lossless", b.path, "field:" + nm, "field %s is %s: not the plain from_le_bytes of a slice of the input" % (nm, render(v)[:140]), s.get("span"))
                continue
            ibb = inner[0][3]
            st = aff.state_at(term_pt(b, ibb))
            rb = aff.range_bounds(st, b.term(ibb)["args"][1])
            base = inner[0][2][0]
            if rb is None or not rb[1].is_const() or not rb[2].is_const() or not (base[0] == "arg" and base[1] == 1):
                R.bad("layout-table", b.path, "field-range:" + nm, "field %s is read from a non-constant range / not from the input" % nm, s.get("span"))
                continue
            row["offset"], row["width"] = rb[1].c, rb[2].c - rb[1].c
        elif v[0] == "index" and v[1][0] == "arg" and v[1][1] == 1:
            # single byte: find the indexing local's form
            p = op_place(op)
            d = [dd for dd in b.defs_of(p["l"]) if dd[0] == "assign"]
            for _ in range(6):   # follow plain copies of bare locals
                if len(d) == 1 and "use" in d[0][3] and op_place(d[0][3]["use"]) and not op_place(d[0][3]["use"])["p"]:
                    d = [dd for dd in b.defs_of(op_place(d[0][3]["use"])["l"]) if dd[0] == "assign"]
                else:
                    break
            ok = False
            if len(d) == 1 and "use" in d[0][3]:
                src = op_place(d[0][3]["use"])
                ix = [e for e in src["p"] if isinstance(e, dict) and "index" in e] if src else []
                if ix:
                    st = aff.state_at((d[0][1], d[0][2]))
                    f = st.get(("L", ix[0]["index"]))
                    if f is not None and f.is_const():
                        row.update(offset=f.c, width=1, conv="byte", ty_width=1)
                        ok = True
            if not ok:
                R.bad("layout-table", b.path, "field-byte:" + nm, "cannot resolve the byte offset of field %s" % nm, s.get("span"))
                continue
        else:
            R.bad("decode-is-lossless", b.path, "field:" + nm, "field %s of the decoded header is %s: modified or not read from the input" % (nm, render(v)[:140]), s.get("span"))
            continue
        rows.append(row)
    return rows


def _int_width(path):
    for k, w in (("u64", 8), ("u32", 4), ("u16", 2), ("u8", 1), ("usize", 8), ("i64", 8), ("i32", 4), ("i16", 2)):
        if "impl %s>" % k in path:
            return w
    return None


def _feeding_call(b, place, names):
    l = place["l"]
    for _ in range(8):
        d = b.defs_of(l)
        if len(d) != 1:
            return None
        if d[0][0] == "call":
            if d[0][2]["callee"]["name"] in names:
                return (d[0][1], d[0][2])
            return None
        rv = d[0][3]
        nxt = rv.get("ref") or op_place(rv.get("use", {})) or op_place(rv.get("cast", {}))
        if not nxt:
            return None
        l = nxt["l"]
    return None


def run(facts, R):
    spec = json.load(open(SPEC))
    validate_spec_against_fixtures(R, spec)
    R.check(facts.const_value("constants::HEADER_SIZE") == spec["header_size"], "layout-table", "constants::HEADER_SIZE", "HEADER_SIZE == 48", "HEADER_SIZE changed")
    R.check(facts.const_value("constants::REPE_SPEC") == spec["spec_magic"], "layout-table", "constants::REPE_SPEC", "REPE_SPEC == 0x1507", "REPE_SPEC changed")
    want = {f["name"]: (f["offset"], f["width"]) for f in spec["fields"]}
    for which, rows in (("encode", encode_rows(facts, R)), ("decode", decode_rows(facts, R))):
        got = {}
        for r in rows:
            nm = r["name"]
            if nm in got:
                R.bad("layout-table", "header::Header::" + which, "dup:" + nm, "field %s is %s twice" % (nm, "written" if which == "encode" else "read"), r["span"])
            got[nm] = r
            exp = want.get(nm)
            conv_ok = r["conv"] in ("to_le_bytes", "from_le_bytes", "byte")
            ok = exp is not None and (r["offset"], r["width"]) == exp and conv_ok and r.get("ty_width") == r["width"]
            R.check(ok, "layout-table", "header::Header::" + which, "%s@%s" % (nm, which),
                    "%s places `%s` at offset %s width %s via %s (type width %s); REPE v1 says offset/width %s little-endian"
                    % (which, nm, r["offset"], r["width"], r["conv"], r.get("ty_width"), exp), r["span"], "%s: [%d,%d) %s" % (nm, r["offset"], r["offset"] + r["width"], r["conv"]))
        missing = [n for n in want if n not in got]
        R.check(not missing, "layout-table", "header::Header::" + which, "all 11 fields", "%s does not handle fields %s" % (which, missing))
    # encode returns the buffer it filled, 48 bytes
    eb = facts.body("header::Header::encode")
    R.check(eb.local_ty(0) == "[u8; 48]", "layout-table", eb.path, "returns [u8; 48]", "encode returns %s" % eb.local_ty(0), eb.span)

    decode_rejections(facts, R)
    format_code_flow(facts, R)
    emission(facts, R)
    length_formula(facts, R)
    message_literals_well_formed(facts, R)
    vector_writes_restamp(facts, R)
    # the read side of the round trip: a frame read from a stream is exactly the frame (shared with C02)
    from rules import C02 as _c02
    cx = _c02.Ctx(facts, R)
    _c02.derive_summaries(cx)
    _c02.derive_decode_summary(cx)
    _c02.stream_fills_frame(cx, facts, R)
    # ... and the slice parsers hand back buf[48..48+q] as the query and buf[48+q..48+q+b] as the body (shared with C02)
    _c02.accept_guards(cx, facts, R)
    # one encoding for the body builders and their streaming siblings (shared with C08): a streamed frame declares what it writes, and
    # aligned padding is computed for the offset the body really gets - otherwise the buffered and the streamed route emit different
    # bytes for the same logical message
    from analysis import report as _report8
    from rules import C08 as _c08
    sub8 = _report8.Report(R.prop, R.tier, R.config)
    try:
        _c08.run(facts, sub8)
    except Exception as e:
        sub8.bad("anchor-resolution", "<crate>", "shared-C08-rules", "the shared body-encoding rules could not run: %s" % e)
    keep8 = ("size-writer-pairs", "padding-base", "anchor-resolution")
    for inst in sub8.instances:
        if inst["rule"] in keep8 and inst["verdict"] == "holds":
            R.instances.append(inst)
    for v in sub8.violations:
        if v["rule"] in keep8:
            R.bad("emission-normal-form" if v["rule"] != "anchor-resolution" else v["rule"], v["fn"], v["what"], v["msg"], v.get("site"), v.get("path"))


def format_code_flow(facts, R):
    """one encoding across client routes: the code a caller passes as `query_format` is what is stamped into header.query_format
    and `body_format` into header.body_format.  Every `MessageBuilder::query_format_code(x)` / `body_format_code(y)` whose
    argument traces (through closure captures and spliced helpers) to a parameter or captured variable is checked against that
    variable's name: the body code must not feed the query slot nor the query code the body slot (both are u16, the compiler cannot tell)."""
    n = 0
    for setter, wrong in (("query_format_code", "body"), ("body_format_code", "query")):
        for cb, ci, ct in facts.calls_to("message::MessageBuilder::" + setter):
            if len(ct["args"]) != 2:
                continue
            v = Sym(cb).op(ct["args"][1])
            if getattr(cb, "changed", False):
                from analysis.sym import split_eval
                alts = split_eval(Sym(cb), ci, len(cb.blocks[ci]["stmts"]), lambda w_: w_.op(ct["args"][1])) or [({}, v)]
            else:
                alts = [({}, v)]
            for _, v in alts:
                while v[0] == "cast" and len(v) > 2 and isinstance(v[2] if isinstance(v[2], tuple) else v[1], tuple):
                    v = v[2] if isinstance(v[2], tuple) else v[1]
                name = None
                if v[0] == "arg":
                    name = v[2]
                elif v[0] == "field" and v[1][0] == "arg" and v[1][1] == 1 and "{closure" in cb.path:
                    name = v[2]
                elif v[0] == "local":
                    name = v[2]
                if not name:
                    continue
                n += 1
                R.check(wrong not in str(name).lower() or ("query" in str(name).lower() and "body" in str(name).lower()), "format-code-flow", cb.path,
                        "%s receives its own code" % setter,
                        "header.%s is stamped with `%s`: the caller's %s format code lands in the other slot, so this route's frame differs from every other route's for the same call"
                        % (setter[:-5], name, wrong), ct.get("span"), "%s(%s)" % (setter, name))
    R.floor("format-code-flow", n, 8, "format-code setters fed from a named parameter")


def decode_rejections(facts, R):
    b = facts.body("header::Header::decode")
    s = Sym(b)
    errs = blocks_assigning_variant(b, "std::result::Result", "Err")
    # ... and rejections that arrive through `?` from an (inlined) validating half: the residual of an `Err(e)` built there
    via_q = []
    for i, t in b.calls():
        if t["callee"]["name"] == "from_residual" and not t["dest"]["p"] and t["dest"]["l"] == 0 and i in b.live_blocks():
            from analysis.sym import split_eval
            alts = split_eval(s, i, len(b.blocks[i]["stmts"]), lambda v_, t=t: v_.op(t["args"][0])) or [({}, s.at(i).op(t["args"][0]))]
            for _, e in alts:
                for x in walk(e):
                    if x[0] == "agg" and x[1] == "std::result::Result" and x[2] == "Err":
                        via_q.append((i, x, t))
                        break
                else:
                    via_q.append((i, None, t))
    kinds = []
    rows_ = [(i, s.rvalue(st["rv"]), st) for i, j, st in errs] + [(i, v, t) for i, v, t in via_q]
    for i, v, st in rows_:
        if v is None:
            R.bad("decode-is-lossless", b.path, "rejection:?", "decode propagates an error with `?` whose origin is not a rejection built in decode", st.get("span"))
            continue
        inner = dict(v[3])["0"]
        variant = inner[2] if inner[0] == "agg" else render(inner)
        fs = texts(facts_at(b, s, facts, i))
        kinds.append(variant)
        R.check(variant in ("InvalidHeaderLength", "InvalidSpec", "LengthMismatch"), "decode-is-lossless", b.path, "rejection:" + str(variant),
                "decode rejects with %s under %s: not one of the three specified rejections (reserved bits and unknown format codes must be preserved, not rejected)"
                % (variant, fs), st.get("span"), "under " + "; ".join(x[:70] for x in fs[-2:]))
    R.check(sorted(set(kinds)) == ["InvalidHeaderLength", "InvalidSpec", "LengthMismatch"], "decode-is-lossless", b.path, "exactly three rejections",
            "decode's rejection set is %s" % sorted(set(kinds)), b.span, "short input, wrong magic, inconsistent length")
    # no `?`-propagated rejections either
    brs = [t for i, t in b.calls() if t["callee"]["name"] == "from_residual" and (not any(i == q[0] for q in via_q) or any(i == q[0] and q[1] is None for q in via_q))]
    R.check(not brs, "decode-is-lossless", b.path, "no other early exits", "decode has %d `?` exits" % len(brs), b.span)


# ---------------------------------------------------------------------------------------------------------

ROUTES = (
    # path, sink kind, header expr suffix, query expr, body expr
    ("message::Message::to_vec", "extend"),
    ("message::Message::write_to", "write_all"),
    ("io::write_message", "write_all"),
    ("io::write_message_streaming", "write_all"),
    ("async_io::write_message_async::{closure#0}", "write_all"),
    ("async_server::write_view_response::{closure#0}", "write_all"),
)


# body emitters whose output length is declared up front by a size function of the same argument (contract of the beve crate;
# C08 size-writer-pairs checks the pairing at every use)
SIZED_BODY_WRITERS = {"beve::to_writer_typed_slice": "beve::typed_slice_size", "beve::to_writer_complex_slice": "beve::complex_slice_size"}


def _sized_body_writer(b, s, t):
    """`writer(w, x)` with header.body_length := size(x) stored in the same function: the declared-length body emitter"""
    want = SIZED_BODY_WRITERS.get(t["callee"]["path"])
    if want is None or len(t["args"]) != 2:
        return False
    x = s.op(t["args"][1])
    for i, j, st in b.assigns():
        names = [e["f"] for e in st["place"]["p"] if isinstance(e, dict) and "f" in e]
        if names[-1:] == ["body_length"]:
            v = s.rvalue(st["rv"])
            if is_call(v, want.rsplit("::", 1)[-1]) and v[2] and v[2][0] == x:
                return True
    return False


def _deref_only(e):
    while isinstance(e, tuple) and e and e[0] == "call" and e[1].rsplit("::", 1)[-1] in ("deref", "as_ref", "borrow", "as_slice") and len(e[2]) == 1:
        e = e[2][0]
    return e


def _param_index(b, src):
    """index (1-based, as passed by callers) of the parameter `src` denotes inside b: a plain argument, or a capture of an async fn's coroutine"""
    src = _deref_only(src)
    if src[0] == "arg" and b.kind != "coroutine":
        return src[1], b.path
    if src[0] == "field" and src[1][0] == "arg" and src[1][1] == 1 and b.kind == "coroutine" and b.path.endswith("::{closure#0}"):
        return src[2], b.path[:-len("::{closure#0}")]
    return None, None


def _pre_encoded_header_param(facts, b, src):
    k, owner = _param_index(b, src)
    if k is None or owner not in facts.bodies:
        return False
    ob = facts.bodies[owner]
    if isinstance(k, str):
        ks = [a for a in range(1, ob.argc + 1) if ob.debug_name(a) == k]
        if len(ks) != 1:
            return False
        k = ks[0]
    if "[u8; 48]" not in ob.local_ty(k):
        return False
    callers = facts.calls_to(owner)
    if not callers:
        return False
    for cb, ci, ct in callers:
        if k - 1 >= len(ct["args"]):
            return False
        v = _deref_only(Sym(cb).op(ct["args"][k - 1]))
        if not is_call(v, "header::Header::encode"):
            return False
    return True


def _length_of_emitted_payload(facts, b, s, aff_root_render, v, what):
    """`len(X)` where X is what this function hands, next to the encoded header, to an emission route as its query / body"""
    if not (is_call(v, "len") and v[2]):
        return False
    x = _deref_only(v[2][0])
    route_fns = {p_[:-len("::{closure#0}")] if p_.endswith("::{closure#0}") else p_ for p_, _ in ROUTES}
    for i, t in b.calls():
        if t["callee"]["path"] not in route_fns:
            continue
        vals = [_deref_only(s.op(a_)) for a_ in t["args"]]
        if not any(is_call(y, "header::Header::encode") for y in vals):
            continue
        ob = facts.bodies.get(t["callee"]["path"])
        if ob is None:
            continue
        for k_, y in enumerate(vals):
            if y == x and ob.debug_name(k_ + 1) == what:
                return True
    return False


def _declared_len_sources(b, s):
    """{'query_length': [X..], 'body_length': [X..]}: the expressions X with `header.<field> = X.len()` stored in this function"""
    out = {"query_length": [], "body_length": []}
    for i, j, st in b.assigns():
        names = [e["f"] for e in st["place"]["p"] if isinstance(e, dict) and "f" in e]
        if names[-1:] and names[-1] in out:
            v = _unconv(s.rvalue(st["rv"]))
            if is_call(v, "len") and v[2]:
                out[names[-1]].append(_deref_only(v[2][0]))
    return out


def emission(facts, R):
    # every function that serialises a header is an emission route: the ones the reference tree has, plus any other caller of
    # Header::encode (a writer that now frames in place instead of delegating) - judged by the same rules
    derived = []
    known_routes = {p_ for p_, _ in ROUTES} | {"message::Message::into_wire_bytes"}
    for cb, ci, ct in facts.calls_to("header::Header::encode"):
        if cb.path not in known_routes and cb.path not in [d_[0] for d_ in derived] and "{inl#" not in cb.path:
            derived.append((cb.path, "write_all"))
    if derived:
        R.note("functions outside the route table that encode a header, judged as emission routes: %s" % [d_[0] for d_ in derived])
    for path, kind in tuple(ROUTES) + tuple(derived):
        if path not in facts.bodies and any(d_[0].split("::")[0] == path.split("::")[0] for d_ in derived):
            R.note("route %s no longer exists; its module has %s, judged as the route" % (path, [d_[0] for d_ in derived if d_[0].split("::")[0] == path.split("::")[0]]))
            continue
        b = facts.body(path)
        s = Sym(b)
        if kind == "extend":
            ems = [(i, t) for i, t in b.calls() if t["callee"]["name"] in ("extend_from_slice", "append", "push", "extend", "insert", "resize")]
        else:
            ems = [(i, t) for i, t in b.calls() if t["callee"]["name"] in ("write_all", "write", "write_fmt", "write_vectored", "call_once", "call", "call_mut")
                   and not t["callee"]["path"].startswith("<")]
            ems = [(i, t) for i, t in ems if t["callee"]["name"].startswith("write") or "body_writer" in render(s.op(t["args"][0]))]
            ems = sorted(ems + [(i, t) for i, t in b.calls() if t["callee"]["path"] in SIZED_BODY_WRITERS], key=lambda x_: x_[0])
        # a route may delegate the whole emission to another (checked) route with the same message
        route_fns = {p_[:-len("::{closure#0}")] if p_.endswith("::{closure#0}") else p_ for p_, _ in ROUTES}
        dele = [(i, t) for i, t in b.calls() if t["callee"]["path"] in route_fns and t["callee"]["path"] != path]
        if not ems and dele and all(any(is_call(_deref_only(s.op(a_)), "header::Header::encode") for a_ in dt_["args"]) for _, dt_ in dele):
            # encodes the header here and hands it, with the payload, to the route that writes (judged there as a pre-encoded header)
            for di_, dt_ in dele:
                R.ok("emission-normal-form", path, "hands the encoded header to " + dt_["callee"]["path"], dt_.get("span"), "Header::encode(..) passed as an argument")
            continue
        if not ems and len(dele) == 1:
            di, dt = dele[0]
            margs = [render_n(s.op(a)) for a in dt["args"]]
            w = must_cross(b, [(0, 0)], _ok_exits(b), [term_pt(b, di)], after_start=False)
            same_msg = any(m in ("arg1", "arg2", "arg1.msg") for m in margs)
            R.check(w is None and same_msg, "emission-normal-form", path, "delegates the emission to " + dt["callee"]["path"],
                    "delegation to %s with args %s is not on every successful path / not of this message" % (dt["callee"]["path"], margs), dt.get("span"),
                    "every Ok path crosses %s(%s)" % (dt["callee"]["path"], ", ".join(margs)))
            continue
        seq = []
        for i, t in ems:
            src = s.op(t["args"][1]) if len(t["args"]) > 1 else None
            fs = texts(facts_at(b, s, facts, i))
            txt = render_n(src) if src is not None else ""
            if src is not None and is_call(src, "header::Header::encode"):
                cls = "H"
            elif src is not None and _pre_encoded_header_param(facts, b, src):
                cls = "H"       # `header: &[u8; 48]` handed in already encoded: every caller passes Header::encode(..)
            elif txt.endswith(".query") or txt in ("arg3", "arg1.query") or txt.endswith("arg1.query"):
                cls = "Q"
            elif txt.endswith(".body") or txt.endswith("arg1.resp.body"):
                cls = "B"
            elif t["callee"]["name"] in ("call_once", "call", "call_mut"):
                cls = "B"   # body_writer(w): the caller-supplied body emitter
            elif t["callee"]["path"] in SIZED_BODY_WRITERS:
                cls = "B" if _sized_body_writer(b, s, t) else "?" + t["callee"]["path"]
            elif src is not None and _deref_only(src) in _declared_len_sources(b, s)["query_length"]:
                cls = "Q"       # whatever it is called: the bytes whose length this function stored as header.query_length
            elif src is not None and _deref_only(src) in _declared_len_sources(b, s)["body_length"]:
                cls = "B"
            else:
                cls = "?" + txt[:60]
            seq.append((i, cls, fs, t))
        order = [c for _, c, _, _ in seq]
        if len(seq) == 2 and order[0] == "H" and _segment_loop(facts, R, path, b, s, seq):
            continue
        R.check(order == ["H", "Q", "B"], "emission-normal-form", path, "emits header, query, body and nothing else",
                "emission sequence is %s" % order, b.span, "H,Q,B")
        if order != ["H", "Q", "B"]:
            continue
        (hi, _, hf, ht), (qi, _, qf, qt), (bi, _, bf, bt) = seq
        R.check(b.dominates(hi, qi) and b.dominates(hi, bi) and not b.dominates(bi, qi) and (bi not in b.reachable((qi,)) or True) and qi not in b.reachable((bi,)),
                "emission-normal-form", path, "order header < query < body on every path", "emission order is not header, query, body", b.span,
                "header dominates both; body never precedes query")
        # header is always emitted
        w = must_cross(b, [(0, 0)], _ok_exits(b), [term_pt(b, hi)], after_start=False)
        R.check(w is None, "emission-normal-form", path, "header on every successful path", "a successful return is reachable without emitting the header", b.span, path=w)
        # query/body skipped only when empty
        for (xi, nm, fs) in ((qi, "query", qf), (bi, "body", bf)):
            cond = [x for x in fs if "is_empty(" in x or " Gt 0" in x or "Eq 0" in x]
            skips_ok = True
            for x in fs:
                if "is_empty(" in x and x.endswith("is True"):
                    skips_ok = False
            # the only guards on the emission are `!x.is_empty()` of the same payload and success of earlier writes
            foreign = [x for x in fs if "is_empty(" in x and nm not in x]
            foreign = [x for x in foreign if not (nm == "body" and "query" in x)]
            R.check(skips_ok, "emission-normal-form", path, "%s skipped only when empty" % nm, "%s emission guarded by %s" % (nm, fs), b.span)
            # and a non-empty payload is always emitted: paths avoiding the emission must pass the is_empty==True edge
            empties = []
            for y in sorted(b.live_blocks()):
                for f in facts_at(b, s, facts, y):
                    if is_call(f["expr"], "is_empty") and render_n(f["expr"][2][0]).endswith(nm if nm == "query" else "body") and f["val"] is True:
                        empties.append((y, 0))
                    if nm == "query" and is_call(f["expr"], "is_empty") and render_n(f["expr"][2][0]) == "arg3" and f["val"] is True:
                        empties.append((y, 0))
            oks = _ok_exits(b)
            w = must_cross(b, [term_pt(b, hi)], oks, [term_pt(b, xi)] + empties)
            R.check(w is None, "emission-normal-form", path, "non-empty %s always emitted" % nm, "a successful return is reachable that skips a non-empty %s" % nm, b.span, path=w)
        # header source
        hsrc = s.op(ht["args"][1])
        if not is_call(hsrc, "header::Header::encode"):
            R.ok("emission-normal-form", path, "emits the header its callers encoded", ht.get("span"), "every caller passes Header::encode(..) for this parameter (judged at the callers)")
            continue
        hx = render_n(hsrc[2][0])
        R.check(hx in ("arg1.header", "arg2.header", "arg2", "arg1.msg.header") or hx.endswith(".header") or hx.endswith("header"), "emission-normal-form", path, "encodes the message's header",
                "header emitted is encode(%s)" % hx, ht.get("span"), "encode(%s)" % hx)
    into_wire_bytes(facts, R)
    # the blocking server writes through write_message_streaming with |w| w.write_all(&resp.body)
    hb = facts.body("server::handle_connection")
    for c in facts.children(hb.path):
        cs = Sym(c)
        ws = [(i, t) for i, t in c.calls() if t["callee"]["name"] == "write_all"]
        if ws:
            emitted = render(cs.op(ws[0][1]["args"][1]))
            if not emitted.endswith(("resp.body", "resp__body")):
                # the slice may be bound once outside the closure (`let body = &resp.body`) and captured: look at what was captured
                m_ = re.match(r"^\(?\*?\(?arg1\.(\w+)\)?\)?$", emitted)
                hs_ = Sym(hb)
                for i_, j_, st_ in hb.assigns():
                    rv_ = st_["rv"]
                    if m_ and rv_.get("agg") == "closure" and rv_.get("def") == c.path and m_.group(1) in (rv_.get("fields") or []):
                        emitted = render(hs_.at(i_, j_).op(rv_["ops"][rv_["fields"].index(m_.group(1))]))
            R.check(len(ws) == 1 and emitted.rstrip(")").endswith(("resp.body", "resp__body", ".body")) and ("route_request_view" in emitted or emitted.endswith(("resp.body", "resp__body"))),
                    "emission-normal-form", c.path, "server body writer emits resp.body",
                    "body writer emits %s" % [emitted], c.span)
    hs = Sym(hb)
    for i, t in hb.calls():
        if callee_matches(t["callee"], "io::write_message_streaming"):
            a = [render(hs.op(x)) for x in t["args"]]
            ok = a[1].endswith(".header") and "route_request_view" in a[1] and "len(" in a[3] and a[3].endswith(".body)")
            R.check(ok, "emission-normal-form", hb.path, "server frames (resp.header, echo, resp.body.len())", "write_message_streaming args %s" % [x[-50:] for x in a], t.get("span"))


def _segment_loop(facts, R, path, b, s, seq):
    """`for segment in [query, body] { if !segment.is_empty() { emit(segment) } }` after the header: the second emission site
    emits the element of a by-value iteration over the fixed array [query, body].  Returns False when the code is not of this
    form (the caller then reports the sequence as it found it)."""
    (hi, _, hf, ht), (xi, _, xf, xt) = seq
    src = s.op(xt["args"][1])
    if not (src[0] == "field" and src[2] == "0" and src[1][0] == "variant" and src[1][2] == "Some" and is_call(src[1][1], "next")):
        return False
    nx = src[1][1]
    it = nx[2][0]
    if not (is_call(it, "into_iter") and "[T; N]" in it[1] and it[2][0][0] == "agg" and it[2][0][1] == "array"):
        return False
    elems = [render_n(v) for _, v in it[2][0][3]]
    N = nx[3]
    ok_elems = len(elems) == 2 and (elems[0].endswith(".query") or elems[0] == "arg3") and elems[1].endswith(".body")
    R.check(ok_elems, "emission-normal-form", path, "segment loop iterates [query, body]", "the payload loop iterates %s" % elems, xt.get("span"), str(elems))
    nexts = [i for i, t in b.calls() if t["callee"]["name"] == "next" and render(s.op(t["args"][0])) == render(it)]
    loop_ok = len(nexts) == 1 and nexts[0] == N and xi in b.reachable((N,)) and N in b.reachable((xi,)) and b.dominates(hi, N) and hi != N
    R.check(loop_ok, "emission-normal-form", path, "header, then one pass over the segments", "the segment iterator is advanced at %s; header emission does not dominate the loop" % nexts, xt.get("span"),
            "one Iterator::next per cycle, dominated by the header emission")
    # the switch on the iterator result
    some_t = none_t = None
    for y in sorted(b.live_blocks()):
        t = b.term(y)
        if t["k"] != "switch":
            continue
        e = s.op(t["on"])
        if e[0] == "discr" and e[1] == nx:
            from analysis.guards import _variants_for_discr
            vm = _variants_for_discr(b, facts, t, y) or {}
            listed = {vm.get(v, str(v)): tb for v, tb in t["targets"]}
            some_t = listed.get("Some", t.get("otherwise"))
            none_t = listed.get("None", t.get("otherwise"))
    if some_t is None or none_t is None or some_t == none_t:
        R.bad("emission-normal-form", path, "segment loop", "cannot find the Some/None test of the segment iterator", xt.get("span"))
        return True
    oks = _ok_exits(b)
    w = must_cross(b, [term_pt(b, hi)], oks, [(none_t, 0)])
    R.check(w is None, "emission-normal-form", path, "loop left only when the segments are exhausted", "a successful return is reachable before the segment iterator is exhausted", b.span, path=w)
    elem_txt = render(src)
    bad_guard = [x for x in xf if "is_empty(" in x and not (x.endswith("is False") and elem_txt in x)]
    R.check(not bad_guard, "emission-normal-form", path, "segment skipped only when empty", "segment emission guarded by %s" % bad_guard, xt.get("span"))
    empties = []
    for y in sorted(b.live_blocks()):
        for f in facts_at(b, s, facts, y):
            if is_call(f["expr"], "is_empty") and render(f["expr"][2][0]) == elem_txt and f["val"] is True:
                empties.append((y, 0))
    w = must_cross(b, [(some_t, 0)], oks + [term_pt(b, N)], [term_pt(b, xi)] + empties, after_start=False)
    R.check(w is None, "emission-normal-form", path, "non-empty segment always emitted", "the loop can move to the next segment without emitting a non-empty one", b.span, path=w)
    hsrc = s.op(ht["args"][1])
    hx = render_n(hsrc[2][0])
    R.check(hx.endswith("header"), "emission-normal-form", path, "encodes the message's header", "header emitted is encode(%s)" % hx, ht.get("span"), "encode(%s)" % hx)
    return True


def _ok_exits(b):
    """program points at which the function succeeds: `_0 = Ok(..)` assignments, or the returns of non-Result functions"""
    if "Result<" not in b.local_ty(0):
        return return_points(b)
    return [(i, j) for i, j, st in blocks_assigning_variant(b, "std::result::Result", "Ok")]


def _is_ok_return(b, s, facts, pt):
    # a return point reached with _0 = Ok / or non-Result functions
    ty = b.local_ty(0)
    if "Result<" not in ty:
        return True
    fs = facts_at(b, s, facts, pt[0])
    # treat as Ok-return if no `Break` fact holds at the return's dominating chain and an Ok aggregate assignment can reach it
    for i, j, st in blocks_assigning_variant(b, "std::result::Result", "Ok"):
        if pt[0] in b.reachable((i,)):
            return True
    return False


def into_wire_bytes(facts, R):
    path = "message::Message::into_wire_bytes"
    b = facts.body(path)
    aff = Affine(b, facts)
    s = aff.sym
    # the two branches are separated by capacity >= total
    cap_sw = None
    for sw, d in aff.switch_desc.items():
        if d[0] == "cmp" and d[1] in ("Ge", "Lt", "Le", "Gt") and "capacity" in render(s.op(b.term(sw)["on"])):
            cap_sw = (sw, d)
    R.check(cap_sw is not None, "emission-normal-form", path, "capacity test", "no capacity comparison found", b.span)
    if cap_sw is None:
        return
    sw, d = cap_sw

    def _is_total(f):
        return f is not None and f.c == 48 and len(f.t) == 2 and all(a[0] == "len" for a in f.t) and all(v == 1 for v in f.t.values())
    # either spelling: capacity >= total / capacity < total / total <= capacity / total > capacity
    if _is_total(d[3]) and not _is_total(d[2]):
        total_form, ok_op = d[3], d[1] in ("Ge", "Lt")
    else:
        total_form, ok_op = d[2], d[1] in ("Le", "Gt")
    # total = 48 + len(query) + len(body)
    ok_total = _is_total(total_form)
    R.check(ok_total and ok_op, "emission-normal-form", path, "in-place iff capacity >= 48+q+b",
            "branch condition is %s %s %s" % (d[2], d[1], d[3]), b.span, "capacity >= %s" % total_form)
    # fresh branch: extend(header) extend(query) append(body)
    fresh = [(i, t) for i, t in b.calls() if t["callee"]["name"] in ("extend_from_slice", "append")]
    order = []
    for i, t in fresh:
        src = s.op(t["args"][1])
        txt = render_n(src)
        order.append("H" if is_call(src, "header::Header::encode") else "Q" if txt.endswith("query") else "B" if txt.endswith("body") else "?" + txt[:40])
    R.check(order == ["H", "Q", "B"] and all(b.dominates(fresh[0][0], x[0]) for x in fresh[1:]) and fresh[1][0] not in b.reachable((fresh[2][0],)),
            "emission-normal-form", path, "fresh-buffer branch emits header, query, body", "fresh branch emission order %s" % order, b.span, "H,Q,B")
    # in-place branch: regions
    rs = [(i, t) for i, t in b.calls() if t["callee"]["name"] == "resize"]
    cw = [(i, t) for i, t in b.calls() if t["callee"]["name"] == "copy_within"]
    cf = [(i, t) for i, t in b.calls() if t["callee"]["name"] == "copy_from_slice"]
    R.check(len(rs) == 1 and len(cw) == 1 and len(cf) == 2, "emission-normal-form", path, "in-place branch shape", "resize=%d copy_within=%d copy_from_slice=%d" % (len(rs), len(cw), len(cf)), b.span)
    if len(rs) == 1 and len(cw) == 1 and len(cf) == 2:
        st = aff.state_at(term_pt(b, rs[0][0]))
        n = aff.op_form(st, rs[0][1]["args"][1])
        R.check(n == total_form, "emission-normal-form", path, "resize(total)", "body resized to %s, total is %s" % (n, total_form), rs[0][1].get("span"), str(n))
        # copy_within(0..body_len, prefix_len)
        st = aff.state_at(term_pt(b, cw[0][0]))
        rb = aff.range_bounds(st, cw[0][1]["args"][1])
        dest = aff.op_form(st, cw[0][1]["args"][2])
        blen = [a for a in total_form.t if "body" in str(a)]
        qlen = [a for a in total_form.t if "query" in str(a)]
        okw = rb is not None and rb[1] == Form.const(0) and rb[2] is not None and len(rb[2].t) == 1 and rb[2].c == 0 and dest is not None and dest.c == 48 and len(dest.t) == 1 and \
            list(dest.t)[0] in qlen and list(rb[2].t)[0] in blen
        R.check(okw, "emission-normal-form", path, "body moved to [48+q, 48+q+b)", "copy_within(%s..%s, %s)" % (rb[1] if rb else None, rb[2] if rb else None, dest), cw[0][1].get("span"),
                "copy_within(0..len(body), 48+len(query))")
        regions = []
        for i, t in cf:
            idx = _feeding_call(b, op_place(t["args"][0]), ("index_mut",))
            src = s.op(t["args"][1])
            if idx is None:
                # `let (h, q) = body[a..e].split_at_mut(m)`: h = [a, a+m), q = [a+m, e)
                dv = s.op(t["args"][0])
                half = None
                if dv[0] == "field" and dv[2] in ("0", "1") and is_call(dv[1], "split_at_mut") and len(dv[1]) > 3 and len(dv[1][2]) == 2:
                    sp_bb = dv[1][3]
                    sp_t = b.term(sp_bb)
                    inner = _feeding_call(b, op_place(sp_t["args"][0]), ("index_mut",))
                    mid = aff.op_form(aff.state_at(term_pt(b, sp_bb)), sp_t["args"][1])
                    if inner is not None and mid is not None:
                        rb0 = aff.range_bounds(aff.state_at(term_pt(b, inner[0])), inner[1]["args"][1])
                        if rb0 and rb0[1] is not None and rb0[2] is not None:
                            half = (rb0[1], rb0[1].add(mid)) if dv[2] == "0" else (rb0[1].add(mid), rb0[2])
                if half is None:
                    regions.append(("?", None, None))
                    continue
                cls = "H" if is_call(src, "header::Header::encode") else "Q" if render_n(src).endswith("query") else "?"
                regions.append((cls, str(half[0]), str(half[1])))
                continue
            st = aff.state_at(term_pt(b, idx[0]))
            rb = aff.range_bounds(st, idx[1]["args"][1])
            cls = "H" if is_call(src, "header::Header::encode") else "Q" if render_n(src).endswith("query") else "?"
            regions.append((cls, str(rb[1]) if rb else None, str(rb[2]) if rb else None))
        want_q_end = "%s + 48" % atom_name_of(qlen[0]) if qlen else None
        okr = ("H", "0", "48") in regions and any(r[0] == "Q" and r[1] == "48" and r[2] == want_q_end for r in regions)
        R.check(okr, "emission-normal-form", path, "header -> [0,48), query -> [48,48+q)", "prefix regions written: %s" % regions, b.span, str(regions))
        # everything in the in-place branch is on the capacity-ok edge
        for i, t in rs + cw + cf:
            fs = aff.facts_at(i)
            ok = any(f[0] == "le" and f[1] == total_form for f in fs)
            R.check(ok, "emission-normal-form", path, "%s under capacity >= total" % t["callee"]["name"], "in-place write not guarded by the capacity test", t.get("span"))


def atom_name_of(a):
    from analysis.affine import atom_name
    return atom_name(a)


def length_formula(facts, R):
    """Whenever a function stores length, query_length or body_length of a header, the store that is the last of these
    on some path to a point where the header is consumed (Header::encode of it, the function's return) leaves
    length == 48 + query_length + body_length, each field standing for the value last stored on that path
    (flow-sensitive affine forms) or, if this function did not store it, for the field itself."""
    n = 0
    groups = {}
    for fld_name in ("length", "query_length", "body_length"):
        for w in field_writes(facts, "header::Header", fld_name, include_borrows=False):
            b = w["body"]
            if b.path in ("header::Header::decode",) or w["kind"] != "store":
                continue
            if fld_name == "length":
                n += 1
            groups.setdefault(b.path, []).append((fld_name, w))
    for bpath, ws in sorted(groups.items()):
        b = ws[0][1]["body"]
        aff = Affine(b, facts)
        s = aff.sym
        by_root = {}
        for fld_name, w in ws:
            stmt = b.blocks[w["bb"]]["stmts"][w["idx"]]
            base_pl = {"l": stmt["place"]["l"], "p": stmt["place"]["p"][:-1]}
            by_root.setdefault((aff.root_local(base_pl), tuple(str(e.get("f")) for e in base_pl["p"] if isinstance(e, dict))), []).append((fld_name, w, base_pl))
        for (root, _), items in by_root.items():
            base_pl = items[0][2]
            base = render(s.place(base_pl))
            exits = list(return_points(b))
            for i, t in b.calls():
                if callee_matches(t["callee"], "header::Header::encode") and t["args"]:
                    ap = op_place(t["args"][0])
                    if ap is not None and aff.root_local(ap) == root:
                        exits.append(term_pt(b, i))
            pts = [(w["bb"], w["idx"]) for _, w, _ in items]
            for fld_name, w, _ in items:
                me = (w["bb"], w["idx"])
                path = must_cross(b, [me], exits, [p_ for p_ in pts if p_ != me])
                if path is None:
                    continue    # another store of the group follows on every path: that one is judged
                st = aff.state_at((w["bb"], w["idx"] + 1))

                def fld(name):
                    return aff.field_form(st, base_pl, name) or Form.atom(("sym", base + "." + name))
                lf, want = fld("length"), Form.const(48).add(fld("query_length")).add(fld("body_length"))
                det = "%s.length = %s; 48 + query_length + body_length = %s" % (base, lf, want)
                R.check(lf == want, "length-formula", b.path, "length = 48 + query_length + body_length (same header) after the last store (%s)" % fld_name,
                        "the header leaves %s with %s" % (b.path, det), w["span"], det)
    # headers built by a struct literal: the literal itself must satisfy the formula (fields inherited from another header
    # through `..base` are that header's responsibility)
    lit = {"query_length": [], "body_length": []}
    for b, i, j, st in struct_constructions(facts, "header::Header"):
        if b.path in ("header::Header::decode", "<header::Header as std::default::Default>::default") or i not in b.live_blocks():
            continue    # decode: wire values, judged by C02; Default: the blank header every builder starts from
        rv = st["rv"]
        ops = dict(zip(rv["fields"], rv["ops"]))
        s = Sym(b)
        txts = {f: render(s.op(ops[f])) for f in ("length", "query_length", "body_length") if f in ops}
        if len(txts) != 3:
            continue
        bases = {t[:-len("." + f)] for f, t in txts.items() if t.endswith("." + f)}
        if len(bases) == 1 and all(t.endswith("." + f) for f, t in txts.items()):
            continue
        aff = Affine(b, facts)
        stt = aff.state_at((i, j))
        forms = {f: aff.op_form(stt, ops[f]) for f in txts}
        n += 1
        okf = forms["length"] is not None and forms["query_length"] is not None and forms["body_length"] is not None and \
            forms["length"] == Form.const(48).add(forms["query_length"]).add(forms["body_length"])
        det = "Header{length: %s, query_length: %s, body_length: %s}" % (forms["length"], forms["query_length"], forms["body_length"])
        R.check(okf, "length-formula", b.path, "length = 48 + query_length + body_length in the header literal",
                "the header literal in %s is %s" % (b.path, det), st.get("span"), det)
        for f in lit:
            lit[f].append((b, s.op(ops[f]), st))
    R.floor("length-formula", n, 5, "stores to Header.length")
    # query_length / body_length stores
    for fld, what in (("query_length", "query"), ("body_length", "body")):
        k = 0
        for b, v, st in lit[fld]:
            txt = render(v)
            ok = (is_call(_unconv(v), "len") and (txt.rstrip(")").endswith(".%s" % what) or txt.rstrip(")").endswith("(%s" % what))) or (fld == "body_length" and txt == "body_len")
            k += 1
            R.check(ok, "length-formula", b.path, "%s = len(%s)" % (fld, what), "%s := %s" % (fld, txt), st.get("span"), txt)
        lit_fns = {b_.path for b_, i_, _, _ in struct_constructions(facts, "message::Message") if i_ in b_.live_blocks()}
        for w in field_writes(facts, "header::Header", fld, include_borrows=False):
            b = w["body"]
            if b.path == "header::Header::decode" or w["kind"] != "store":
                continue
            if b.path in lit_fns and getattr(b, "changed", False):
                # the header goes into a Message literal of this function: judged there against the very vectors it is paired
                # with (message_literals_well_formed), whatever the stored expression looks like
                k += 1
                continue
            s = Sym(b)
            v = s.rvalue(w["rv"])
            txt = render(v)
            ok = (is_call(v, "len") and (txt.endswith(".%s)" % what) or txt.endswith("(%s)" % what))) or (fld == "body_length" and txt == "body_len")
            if not ok and _length_of_emitted_payload(facts, b, s, None, v, what):
                ok = True
            if not ok and is_call(_unconv(v), "len") and _unconv(v)[2]:
                # the length of what this very function writes after the header
                x_ = _deref_only(_unconv(v)[2][0])
                ok = any(t_["callee"]["name"] in ("write_all", "extend_from_slice") and len(t_["args"]) > 1 and _deref_only(s.op(t_["args"][1])) == x_ for _, t_ in b.calls())
            # ... and where this function itself writes payload bytes after a header it encodes, the length stored is the length of
            # bytes it writes (not of a like-named neighbour: `self.resp.query.len()` stored, `self.query` written)
            emits_ = [(_deref_only(s.op(t_["args"][1]))) for _, t_ in b.calls() if t_["callee"]["name"] in ("write_all", "extend_from_slice") and len(t_["args"]) > 1]
            encodes_ = any(callee_matches(t_["callee"], "header::Header::encode") for _, t_ in b.calls())
            if ok and encodes_ and len(emits_) >= 2 and is_call(_unconv(v), "len") and _unconv(v)[2]:
                x_ = _deref_only(_unconv(v)[2][0])
                R.check(x_ in emits_, "length-formula", b.path, "%s is the length of the %s bytes written" % (fld, what),
                        "%s := %s, but what %s writes is %s" % (fld, txt, b.path.rsplit("::", 1)[-1], [render(e_)[:60] for e_ in emits_]), w["span"], txt)
            if not ok and fld == "body_length" and v[0] == "call":
                # declared length of a body written by the paired beve writer over the same argument, in this function
                ok = any(_sized_body_writer(b, s, t_) and SIZED_BODY_WRITERS[t_["callee"]["path"]].rsplit("::", 1)[-1] == v[1].rsplit("::", 1)[-1]
                         for _, t_ in b.calls() if t_["callee"]["path"] in SIZED_BODY_WRITERS)
            k += 1
            R.check(ok, "length-formula", b.path, "%s = len(%s)" % (fld, what), "%s := %s" % (fld, txt), w["span"], txt)
        R.floor("length-formula", k, 3 if fld == "query_length" else 2, "stores to Header." + fld)


def _moved_from(b, op, depth=0):
    """the place an owned value was moved out of (`_9 = move _4; Message { body: move _9 }` -> _4)"""
    p = op_place(op)
    while p is not None and not p["p"] and depth < 8:
        defs = b.defs_of(p["l"])
        if len(defs) == 1 and defs[0][0] == "assign" and "use" in defs[0][3] and op_place(defs[0][3]["use"]) is not None and not b.debug_name(p["l"]):
            p = op_place(defs[0][3]["use"])
            depth += 1
        else:
            break
    return p


def message_literals_well_formed(facts, R):
    """Every `Message { header, query, body }` built in non-test code is well formed where it is built: either a
    field-for-field copy of one source (Clone, MessageView::to_message), the validated literal of Message::new (C02's accept
    guards, shared), or a literal whose header provably has query_length == len(query), body_length == len(body) and
    length == 48 + both for the very vectors that go into it (affine forms at the literal).  All emission routes, the
    in-place writer and the async/WebSocket servers rely on it; a constructor that fills a Message some other way (a response
    built on a copy of the request header, a body edited after its length was taken) makes the routes disagree."""
    n = 0
    for b, i, j, st in struct_constructions(facts, "message::Message"):
        if i not in b.live_blocks():
            continue
        n += 1
        rv = st["rv"]
        ops = dict(zip(rv["fields"], rv["ops"]))
        if not all(k in ops for k in ("header", "query", "body")):
            R.bad("length-formula", b.path, "Message literal is well formed", "a Message literal without header/query/body operands (..base update?)", st.get("span"))
            continue
        if b.path == "message::Message::new":
            R.ok("length-formula", b.path, "Message literal is well formed", st.get("span"), "validated literal (accept-guards)")
            continue
        s = Sym(b)
        hv = s.op(ops["header"])

        def _strip(e):
            while e[0] == "call" and len(e[2]) == 1 and e[1].rsplit("::", 1)[-1] in ("to_vec", "clone", "to_owned", "deref", "as_ref", "borrow", "into", "as_slice"):
                e = e[2][0]
            return e

        def _mut_borrowed(op):
            p_ = _moved_from(b, op)
            if p_ is None or p_["p"]:
                return False
            return any(s_["rv"].get("ref", {}).get("l") == p_["l"] and s_["rv"].get("mut") for _, _, s_ in b.assigns() if "ref" in s_["rv"])
        aff = Affine(b, facts)
        stt = aff.state_at((i, j))
        hp = _moved_from(b, ops["header"])
        det = []
        ok = True
        forms = {}
        for fld, src in (("query_length", "query"), ("body_length", "body")):
            ff = aff.field_form(stt, hp, fld) if hp is not None else None
            vp = _moved_from(b, ops[src])
            vf = aff.len_form(stt, {"move": vp}) if vp is not None else aff.len_form(stt, ops[src])
            if ff is None:
                # the field was not stored here: the header came from somewhere whole - then the vector must come from the same
                # place, unmodified
                vv = _strip(s.op(ops[src]))
                same = hv[0] == "field" and hv[2] == "header" and vv[0] == "field" and vv[2] == src and vv[1] == hv[1] and not _mut_borrowed(ops[src])
                ok = ok and same
                det.append("%s inherited from %s, %s is %s%s" % (fld, render(hv)[:40], src, render(vv)[:40], " (modified through &mut)" if _mut_borrowed(ops[src]) else ""))
            else:
                forms[fld] = ff
                ok = ok and ff == vf
                det.append("%s = %s, len(%s) = %s" % (fld, ff, src, vf))
        lf = aff.field_form(stt, hp, "length") if hp is not None else None
        if lf is not None or forms:
            want = Form.const(48)
            for fld in ("query_length", "body_length"):
                want = want.add(forms.get(fld) or Form.atom(("sym", render(hv) + "." + fld)))
            got = lf if lf is not None else Form.atom(("sym", render(hv) + ".length"))
            ok = ok and got == want
            det.append("length = %s, 48 + q + b = %s" % (got, want))
        R.check(ok, "length-formula", b.path, "Message literal is well formed",
                "%s builds a Message whose header lengths are not provably those of its query and body vectors: %s" % (b.path.rsplit("::", 1)[-1], "; ".join(det)),
                st.get("span"), "; ".join(det)[:200])
    R.floor("length-formula", n, 4, "Message literals")


def vector_writes_restamp(facts, R):
    """After construction a Message's query / body is written (stored or mutably borrowed) only by functions that restamp the
    header afterwards: on every path from the write to the function's return a store to header.<field>_length follows (its
    value is judged by the length rules).  A body edited in place behind a header that still says the old length is emitted
    with the stale length by every route that does not recompute it."""
    n = 0
    for fld in ("query", "body"):
        for w in field_writes(facts, "message::Message", fld):
            b = w["body"]
            if w["kind"] == "whole":
                continue
            if w["kind"] == "mut-borrow" and w.get("dest") and not w["dest"]["p"]:
                # a `&mut` that only ever goes to calls that cannot change the vector's length (capacity management, in-place edits of
                # the elements) leaves the header lengths true
                r_ = w["dest"]["l"]
                keeps = ("reserve", "reserve_exact", "try_reserve", "try_reserve_exact", "shrink_to_fit", "shrink_to", "capacity", "as_mut_slice", "iter_mut",
                         "as_mut_ptr", "fill", "reverse", "sort", "sort_unstable", "make_ascii_lowercase", "make_ascii_uppercase", "copy_from_slice", "swap", "len", "is_empty")
                uses = [t_ for _, t_ in b.calls() if any((op_place(a_) or {}).get("l") == r_ for a_ in t_["args"])]
                other = [1 for _, _, st_ in b.assigns() if any((op_place(o_) or {}).get("l") == r_ for o_ in (st_["rv"].get(k_) for k_ in ("use", "cast")) if isinstance(o_, dict))
                         or (st_["rv"].get("ref") or {}).get("l") == r_]
                if uses and not other and all(t_["callee"]["name"] in keeps for t_ in uses):
                    R.ok("length-formula", b.path, "a `&mut` of Message.%s that cannot change its length" % fld, w.get("span"), "only %s" % sorted({t_["callee"]["name"] for t_ in uses}))
                    continue
            n += 1
            restamps = [(x["bb"], x["idx"]) for x in field_writes(facts, "header::Header", fld + "_length", include_borrows=False) if x["body"] is b and x["kind"] == "store"]
            wpath = must_cross(b, [(w["bb"], w["idx"])], return_points(b), restamps) if restamps else [w["bb"]]
            R.check(wpath is None, "length-formula", b.path, "a write to Message.%s is followed by a store to header.%s_length" % (fld, fld),
                    "%s writes (or mutably borrows) the %s of a Message and can return without storing header.%s_length afterwards: the header keeps the "
                    "old length" % (b.path.rsplit("::", 1)[-1], fld, fld), w.get("span"), "restamped", path=wpath if isinstance(wpath, list) and restamps else None)
    R.floor("length-formula", n, 2, "writes to Message.query / Message.body after construction")


def _unconv(e):
    while e[0] == "cast" and len(e) > 2:
        e = e[2] if isinstance(e[2], tuple) else e[1]
    return e


def _sum_terms(e):
    if e[0] == "field" and e[2] == "0" and e[1][0] == "bin" and e[1][1] == "AddWithOverflow":
        return _sum_terms(e[1][2]) + _sum_terms(e[1][3])
    if e[0] == "bin" and e[1] in ("Add", "AddWithOverflow"):
        return _sum_terms(e[2]) + _sum_terms(e[3])
    return [e]
