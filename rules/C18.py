"""C18 - the peer registry and its aliases stay mutually consistent (src/peer.rs)."""
from analysis.flow import must_cross, return_points, term_pt, path_counts, in_cycle
from analysis.guards import facts_at, field_writes
from analysis.mir import callee_matches, op_place
from analysis.sym import Sym, render, is_call, const_val, walk
from rules.common import texts, value_rows, render_n, callsite_ordinals

INNER = "peer::RegistryInner"
PR = "peer::PeerRegistry"

EXPLANATION = (
    "Decided structurally (per-operation content of the property). (one-lock-per-op) every public PeerRegistry method "
    "acquires self.lock() at most once and performs all its map accesses through that one guard; the three maps are fields of "
    "one struct behind one mutex that only PeerRegistry::lock locks; broadcast sends happen with no lock held. "
    "(alias-pairing) alias(): the forward insert is guarded by peers.contains_key(id); every path from it to `true` crosses "
    "alias_index.entry(id).or_default().push(key) except the row on which the key already pointed at this very peer; on the "
    "displaced-owner row the key is retained out of the previous owner's list; `false` is returned only when the peer is "
    "absent. remove(): peers.remove(id) and alias_index.remove(id) happen on every path, and a forward mapping is removed "
    "only for the keys of that peer's own reverse list and only if it still points at this peer. (alias-order) a peer's alias "
    "list is only appended to or filtered in place; no reordering Vec operation (swap_remove, sort, reverse, insert, ...) is "
    "applied to it. (broadcast-loop) "
    "broadcast_each iterates the snapshot returned by peers(); each iteration makes exactly one send_notify(path, body_for(..)) "
    "and one out.insert(peer.peer_id(), that call's result); the four public wrappers pass their path through unchanged. "
    "Not decided: the contents of the maps over arbitrary histories and linearizability checking (value-level)."
    ' (alias-pairing, closed over forward inserts) for every insert into the forward alias map the returned previous owner is looked at and a retain on an alias_index list is reachable.'
    ' In every lock region of the registry (the blocks where the guard is live and the closures nested in the locking function) no caller-supplied closure and no PeerHandle / PeerSink method other than peer_id is called, so no embedder panic or re-entrant call can interrupt a multi-map update.'
)
ASSUMPTIONS = ["std::sync::Mutex gives mutual exclusion; HashMap/Vec have their std semantics"]

MAPS = ("peers", "aliases", "alias_index")


_COPIES = ("to_vec", "to_owned", "to_string", "clone", "from", "into", "into_bytes", "into_boxed_slice", "into_vec", "as_bytes", "as_str", "as_slice", "deref", "as_ref", "borrow")
_FILLERS = ("push_str", "extend_from_slice", "extend")
_BUILD_EMPTY = ("with_capacity", "new")
_TOUCHES = ("push", "push_str", "extend_from_slice", "extend", "insert", "insert_str", "truncate", "clear", "pop", "remove", "resize", "append", "drain", "retain",
            "set_len", "swap", "reverse", "sort", "fill", "copy_from_slice", "index_mut", "deref_mut", "as_mut", "as_mut_slice", "as_mut_vec", "as_bytes_mut", "split_off", "make_ascii_uppercase",
            "make_ascii_lowercase", "replace_range", "dedup", "rotate_left", "rotate_right")


_COPY_HELPERS = {}      # path of a buffer-copying helper of peer.rs -> the (1-based) parameter whose bytes its result holds


def _copy_helpers(facts):
    """helpers of peer.rs returning a fresh Vec<u8>/String whose content is exactly one of their slice parameters"""
    _COPY_HELPERS.clear()
    for p, kb in facts.bodies.items():
        if not p.startswith("peer::") or "{closure" in p or p.count("::") != 1 or not kb.argc:
            continue
        if kb.local_ty(0) not in ("std::vec::Vec<u8>", "std::string::String"):
            continue
        ks = Sym(kb)
        src = _content_source(kb, ks, ks.local(0))
        if src is not None and src[0] == "arg" and kb.local_ty(src[1]) in ("&[u8]", "&str"):
            _COPY_HELPERS[p] = src[1]


def _content_source(b, sym, e, depth=0, use_pt=None):
    """the expression whose bytes a freshly built Vec/String holds, or None: an empty buffer filled by exactly one
    push_str/extend_from_slice on every path and touched by nothing else, a copy (to_vec, clone, ..) or clone_with_prefix_room"""
    if depth > 6 or not isinstance(e, tuple):
        return None
    if e[0] == "call":
        nm = e[1].rsplit("::", 1)[-1]
        if e[1] in _COPY_HELPERS and len(e[2]) >= _COPY_HELPERS[e[1]]:
            # a helper of this crate that returns a fresh buffer holding one of its parameters' bytes (judged on its own body)
            return _content_source(b, sym, e[2][_COPY_HELPERS[e[1]] - 1], depth + 1, use_pt)
        if nm in _COPIES and len(e[2]) == 1:
            return _content_source(b, sym, e[2][0], depth + 1, use_pt)
        if nm in _BUILD_EMPTY and len(e) > 3:
            me = render(e)
            touching = [(i, t) for i, t in b.calls() if t["args"] and render(sym.op(t["args"][0])) == me and t["callee"]["name"] in _TOUCHES]
            if len(touching) != 1 or touching[0][1]["callee"]["name"] not in _FILLERS or len(touching[0][1]["args"]) != 2:
                return None
            i, t = touching[0]
            if use_pt is not None:
                # judged for one use inside a larger function (a loop body): between the creation of the buffer and that use the
                # fill is crossed on every path, and it cannot run twice without the buffer being created anew
                if must_cross(b, [term_pt(b, e[3])], [use_pt], [term_pt(b, i)]) is not None or i in b.reachable(b.succs(i), avoid=[e[3]]):
                    return None
            elif in_cycle(b, i) or must_cross(b, [(0, 0)], return_points(b), [term_pt(b, i)], after_start=False) is not None:
                return None
            return _content_source(b, sym, sym.op(t["args"][1]), depth + 1, use_pt)
        return None
    return e


def _template_rows(facts, R, be, bs, si, st):
    """broadcast_each(path, template): the body sent is built from the template parameter, one way per variant.  Returns
    {template variant: (NotifyBody kind, has_format)} when every row is NotifyBody::K whose content is that variant's first field
    (and whose format, for Raw, is its second), each built under the `template is Variant` edge; None otherwise."""
    from analysis.sym import split_rows
    rows = split_rows(bs, si, len(be.blocks[si]["stmts"]), {"use": st["args"][2]})
    if not rows:
        return None
    out = {}
    for choice, v in rows:
        if not (v[0] == "agg" and str(v[1]).endswith("NotifyBody") and isinstance(v[2], str)):
            return None
        d = dict(v[3])
        src = _content_source(be, bs, d.get("0"), use_pt=term_pt(be, si))
        if not (src is not None and src[0] == "field" and src[2] == "0" and src[1][0] == "variant" and src[1][1][0] == "arg" and src[1][1][1] == 3):
            return None
        var = src[1][2]
        fmt = d.get("1")
        has_fmt = fmt is not None
        if has_fmt and not (fmt[0] == "field" and fmt[2] == "1" and fmt[1] == src[1]):
            return None
        # the row is built where the template is known to be that variant
        pts = [pt for pt in choice.values()]
        under = bool(pts) and all(any(f["expr"][0] == "arg" and f["expr"][1] == 3 and str(f["val"]) == var for f in facts_at(be, bs, facts, pt[0])) for pt in pts)
        if not under or var in out:
            return None
        out[var] = (v[2], has_fmt)
    R.ok("broadcast-loop", be.path, "body stamped from the template parameter, one row per variant", st.get("span"), str(sorted(out.items())))
    return out


def _template_wrapper_rule(facts, R, wpath, kind, template_map):
    """the wrapper hands broadcast_each the template variant that is stamped into NotifyBody::<kind>, holding the caller's body
    (JSON/BEVE: its serialisation; Raw: with the caller's format)"""
    wb = facts.body(wpath)
    ws = Sym(wb)
    calls = [(i, t) for i, t in wb.calls() if callee_matches(t["callee"], PR + "::broadcast_each")]
    ok = False
    det = "no broadcast_each call"
    if len(calls) == 1 and len(calls[0][1]["args"]) >= 3:
        tv = ws.op(calls[0][1]["args"][2])
        det = render_n(tv)[:140]
        if tv[0] == "agg" and isinstance(tv[2], str) and tv[2] in template_map and template_map[tv[2]][0] == kind:
            d = dict(tv[3])
            w = d.get("0")
            x = w
            for _ in range(3):
                if x is not None and x[0] == "call" and x[1].rsplit("::", 1)[-1] in ("deref", "as_ref", "as_slice", "as_str", "as_bytes", "borrow") and len(x[2]) == 1:
                    x = x[2][0]
            if kind in ("Json", "Beve"):
                want = "serde_json::to_vec" if kind == "Json" else "beve::to_vec"
                if x is not None and x[0] == "field" and x[2] == "0" and x[1][0] == "variant" and x[1][2] == "Continue" and x[1][1][0] == "call" and x[1][1][2]:
                    x = x[1][1][2][0]
                ok = x is not None and x[0] == "call" and (x[1] == want or x[1].endswith("::" + want)) and len(x[2]) == 1 and x[2][0][0] == "arg" and x[2][0][2] == "body"
            elif kind == "Utf8":
                ok = x is not None and x[0] == "arg" and x[2] == "text"
            else:
                f1 = d.get("1")
                ok = x is not None and x[0] == "arg" and x[2] == "body" and template_map[tv[2]][1] and f1 is not None and f1[0] == "arg" and f1[2] == "body_format"
    R.check(ok, "broadcast-loop", wpath, "body content is the caller's %s" % ("text" if kind == "Utf8" else "body"),
            "the %s broadcast does not hand the caller's body to the %s template: %s" % (kind, kind, det), wb.span, det)


def _body_content_rule(facts, R, wpath, c, cv, kind):
    """what every peer receives is the caller's body: the closure's NotifyBody holds a copy of a captured value, and the wrapper
    captured its own `body`/`text` parameter (JSON/BEVE: the serialisation of it), the Raw format being the caller's format"""
    cs = Sym(c)
    src = _content_source(c, cs, dict(cv[3]).get("0"))
    cap = src[2] if (src is not None and src[0] == "field" and src[1][0] == "arg" and src[1][1] == 1) else None
    wb = facts.body(wpath)
    ws = Sym(wb)
    captured = {}
    for i, t in wb.calls():
        for a_ in t["args"]:
            v = ws.op(a_)
            if v[0] == "agg" and str(v[1]).startswith("closure:") and str(v[1]).endswith(c.path.split("::{inl#")[0]) or (v[0] == "agg" and str(v[1]) == "closure:" + c.path):
                captured = dict(v[3])
    w = captured.get(cap) if cap is not None else None
    ok = False
    det = "closure content comes from %s; wrapper captured %s" % (render_n(src)[:80] if src is not None else None, render_n(w)[:100] if w is not None else None)
    if w is not None:
        if kind in ("Json", "Beve"):
            want = "serde_json::to_vec" if kind == "Json" else "beve::to_vec"
            x = w
            if x[0] == "field" and x[2] == "0" and x[1][0] == "variant" and x[1][2] == "Continue" and x[1][1][0] == "call" and x[1][1][2]:
                x = x[1][1][2][0]
            elif x[0] == "field" and x[2] == "0" and x[1][0] == "variant" and x[1][2] == "Ok":
                x = x[1][1]
            ok = x[0] == "call" and (x[1] == want or x[1].endswith("::" + want)) and len(x[2]) == 1 and x[2][0][0] == "arg" and x[2][0][2] == "body"
        elif kind == "Utf8":
            ok = w[0] == "arg" and w[2] == "text"
        else:
            ok = w[0] == "arg" and w[2] == "body"
            f1 = dict(cv[3]).get("1")
            fcap = f1[2] if (f1 is not None and f1[0] == "field" and f1[1][0] == "arg" and f1[1][1] == 1) else None
            fw = captured.get(fcap)
            ok = ok and fw is not None and fw[0] == "arg" and fw[2] == "body_format"
    R.check(ok, "broadcast-loop", c.path, "body content is the caller's %s" % ("text" if kind == "Utf8" else "body"),
            "the %s broadcast does not deliver the caller's body unchanged: %s" % (kind, det), c.span, det)


def run(facts, R):
    for m in MAPS:
        facts.require_field(INNER, m)
    _copy_helpers(facts)
    # ---------------- one-lock-per-op ------------------------------------------------------------------
    lockers = [(b, i, t) for b in facts.bodies.values() for i, t in b.calls()
               if t["callee"]["name"] in ("lock", "try_lock") and "Mutex" in t["callee"]["path"] and "RegistryInner" in (" ".join(t.get("arg_tys", [])) + str(t["callee"].get("targs")))]
    for b, i, t in lockers:
        R.check(b.path == PR + "::lock", "one-lock-per-op", b.path, "inner mutex locked only by PeerRegistry::lock", "%s locks the registry mutex directly" % b.path, t.get("span"))
    R.floor("one-lock-per-op", len(lockers), 1, "locks of the registry mutex")
    n_methods = 0
    for b in facts.bodies.values():
        uses_inner = False
        for i, bl in enumerate(b.blocks):
            for st in bl["stmts"]:
                if st["k"] == "assign":
                    import json
                    if '"a": "%s"' % INNER in json.dumps(st):
                        uses_inner = True
        if not uses_inner:
            continue
        if b.path.startswith("<peer::RegistryInner"):
            continue  # derived Default
        n_methods += 1
        R.check(b.path.startswith(PR + "::"), "one-lock-per-op", b.path, "maps touched only by PeerRegistry methods", "%s touches RegistryInner fields" % b.path, b.span)
        locks = [i for i, t in b.calls() if callee_matches(t["callee"], PR + "::lock")]
        pc = path_counts(b, locks)
        R.check(pc is not None and pc[1] <= 1 and len(locks) <= 1 + 0, "one-lock-per-op", b.path, "one lock acquisition per operation",
                "%s takes the registry lock %s times on some path: its map updates are not one atomic step" % (b.path, pc), b.span, "lock sites=%d per-path max=%s" % (len(locks), pc[1] if pc else None))
    R.floor("one-lock-per-op", n_methods, 8, "methods touching the maps")
    be = facts.body(PR + "::broadcast_each")
    R.check(not [1 for i, t in be.calls() if callee_matches(t["callee"], PR + "::lock")], "one-lock-per-op", be.path, "sends outside the lock", "broadcast_each holds the registry lock while sending", be.span)

    # nothing the embedder supplied runs while the lock is held: a caller's predicate, a sink method or a hook that panics (or calls
    # back into the registry) in the middle of a multi-map update leaves the maps disagreeing for every later caller - `lock()` forgives
    # poisoning, so the half-finished state is served as if it were consistent
    def _foreign(t):
        c = t["callee"]
        if c["name"] in ("call", "call_mut", "call_once") and ("std::ops::Fn" in c["path"] or "core::ops::function::Fn" in c["path"]):
            return "a caller-supplied closure"
        if c.get("trait", "").endswith("PeerSink") or (c["path"].startswith("peer::PeerHandle::") and c["name"] not in ("peer_id", "clone", "eq")):
            return "the peer's sink (%s)" % c["name"]
        return None
    n_lk = 0
    for b in facts.bodies.values():
        if not b.path.startswith("peer::") or "::{" in b.path:
            continue
        for i, t in b.calls():
            if not callee_matches(t["callee"], PR + "::lock") or t.get("target") is None:
                continue
            n_lk += 1
            g = t["dest"]["l"]
            held, work = set(), [t["target"]]
            while work:
                x = work.pop()
                if x in held:
                    continue
                held.add(x)
                tt = b.blocks[x]["term"]
                if tt["k"] == "drop" and tt["place"]["l"] == g and not tt["place"]["p"]:
                    continue
                if tt["k"] == "call" and any("move" in a and a["move"]["l"] == g and not a["move"]["p"] for a in tt["args"]):
                    continue
                work.extend(b.succs(x))
            bad = []
            for x in sorted(held):
                tt = b.blocks[x]["term"]
                if tt["k"] == "call" and _foreign(tt):
                    bad.append((_foreign(tt), tt.get("span")))
            # closures count when they are built while the guard is held (they are handed to a call of the lock region); a closure
            # built before the lock is taken runs before it
            built_held = set()
            for x in held:
                for st_ in b.blocks[x]["stmts"]:
                    if st_["k"] == "assign" and st_["rv"].get("agg") in ("closure", "coroutine", "coroutine_closure"):
                        built_held.add(st_["rv"]["def"])
            for cb in facts.children(b.path):
                if not any(cb.path == d_ or cb.path.startswith(d_ + "::{") for d_ in built_held):
                    continue
                for x, tt in cb.calls():
                    if _foreign(tt):
                        bad.append((_foreign(tt) + " inside " + cb.path.rsplit("::", 1)[-1], tt.get("span")))
            R.check(not bad, "one-lock-per-op", b.path, "no embedder code runs under the registry lock",
                    "%s runs %s while it holds the registry lock: a panic (or a re-entrant registry call) there interrupts the map update half-way and the forgiving lock() serves the "
                    "disagreeing maps to every later caller" % (b.path.rsplit("::", 1)[-1], bad[0][0] if bad else ""), bad[0][1] if bad else b.span, "lock region: %d blocks" % len(held))
    R.floor("one-lock-per-op", n_lk, 8, "lock regions examined for embedder code")

    # ---------------- alias-pairing: alias() ----------------------------------------------------------------
    ab = facts.body(PR + "::alias")
    s = Sym(ab)
    o = callsite_ordinals(ab)

    def gt(i):
        return ["%s is %s" % (render_n(f["expr"], o), f["val"]) for f in facts_at(ab, s, facts, i)]
    ins = [(i, t) for i, t in ab.calls() if t["callee"]["name"] == "insert" and render_n(s.op(t["args"][0])).endswith(".aliases")]
    push = [(i, t) for i, t in ab.calls() if t["callee"]["name"] == "push"]
    ret = [(i, t) for i, t in ab.calls() if t["callee"]["name"] == "retain"]
    R.check(len(ins) == 1 and len(push) == 1 and len(ret) == 1, "alias-pairing", ab.path, "shape", "insert=%d push=%d retain=%d" % (len(ins), len(push), len(ret)), ab.span)
    if len(ins) == 1 and len(push) == 1 and len(ret) == 1:
        ii, it = ins[0]
        g = gt(ii)
        R.check(any("contains_key(" in x and ".peers, arg2) is True" in x for x in g), "alias-pairing", ab.path, "forward insert only for a present peer",
                "aliases.insert reached under %s" % g, it.get("span"), "guarded by peers.contains_key(peer_id)")
        a = [render_n(s.op(x)) for x in it["args"]]
        R.check(a[2] == "arg2" and "arg3" in a[1], "alias-pairing", ab.path, "aliases[key] = peer_id", "insert(%s)" % a[1:], it.get("span"))
        pi, pt = push[0]
        pa = [render_n(s.op(x)) for x in pt["args"]]
        okp = "or_default(" in pa[0] and "entry(" in pa[0] and ".alias_index, arg2)" in pa[0] and "arg3" in pa[1]
        R.check(okp, "alias-pairing", ab.path, "alias_index[peer_id].push(key)", "push(%s)" % pa, pt.get("span"))
        # every way of succeeding after the insert crosses the push, except the same-owner shortcut.  On the reference shape the
        # two are separate `true` rows; in general (the result is the presence test itself, or a helper that returns early on the
        # same-owner edge joins the common `true`) the obligation is stated on paths: from the forward insert every way out
        # crosses the reverse-index append, except through the same-owner edge
        trues = [(x, y, st) for x, y, st in ab.assigns() if st["place"]["l"] == 0 and not st["place"]["p"] and const_val(s.rvalue(st["rv"])) == 1]
        same_edge = [(x, 0) for x in sorted(ab.live_blocks())
                     if any(("eq(" in z and "as Some).0, arg2) is True" in z) or ("PartialEq" in z and "as Some).0" in z and z.endswith("is True")) for z in gt(x))]
        n_same = 0
        if trues and not getattr(ab, "changed", False):
            for x, y, st in trues:
                g2 = gt(x)
                same_owner = any("eq(" in z and "as Some).0, arg2) is True" in z for z in g2) or any("PartialEq" in z and "as Some).0" in z and z.endswith("is True") for z in g2)
                if same_owner:
                    n_same += 1
                    R.ok("alias-pairing", ab.path, "same-owner row needs no append", st.get("span"), "key already pointed at this peer")
                    continue
                w = must_cross(ab, [term_pt(ab, ii)], [(x, y)], [term_pt(ab, pi)])
                R.check(w is None, "alias-pairing", ab.path, "insert -> true crosses the reverse-index append",
                        "alias() can return true after aliases.insert without recording the key in alias_index (remove would leave the alias behind)", st.get("span"), "push crossed", path=w)
        else:
            w = must_cross(ab, [term_pt(ab, ii)], return_points(ab), [term_pt(ab, pi)] + same_edge)
            R.check(w is None, "alias-pairing", ab.path, "insert -> true crosses the reverse-index append",
                    "alias() can return after aliases.insert without recording the key in alias_index (remove would leave the alias behind)", it.get("span"), "push crossed", path=w)
            heads = {x for x, _ in same_edge if any(p_ not in {y for y, _ in same_edge} for p_ in ab.preds().get(x, []))}
            n_same = len(heads)
        # the reverse index of the *new* owner only ever grows here; the only list alias() may shrink or drop is the previous
        # owner's (the peer the forward insert displaced), and dropping it needs that list to be empty
        for ri, rt in ab.calls():
            if "HashMap" not in rt["callee"]["path"] or rt["callee"]["name"] not in ("remove", "remove_entry", "clear", "drain", "retain", "insert") or not rt["args"]:
                continue
            if not render_n(s.op(rt["args"][0])).endswith(".alias_index"):
                continue
            kk = render_n(s.op(rt["args"][1])) if len(rt["args"]) > 1 else ""
            prev_key = "insert(" in kk and ".aliases" in kk and "as Some).0" in kk
            emptied = any("is_empty(" in z and "alias_index" in z and z.endswith("is True") for z in gt(ri))
            R.check(rt["callee"]["name"] in ("remove", "remove_entry") and prev_key and emptied, "alias-pairing", ab.path, "alias() drops only the displaced owner's emptied list",
                    "alias() calls alias_index.%s(%s): a peer's alias list is discarded although its keys still point at it (aliases_for / remove would miss them)"
                    % (rt["callee"]["name"], kk[:80]), rt.get("span"), "remove(prev) under keys.is_empty()")
        R.check(n_same == 1, "alias-pairing", ab.path, "one same-owner shortcut", "same-owner rows: %d" % n_same, ab.span)
        # displaced owner: retain on alias_index[prev] with a closure comparing to the key
        ri, rt = ret[0]
        g3 = gt(ri)
        ra = [render_n(s.op(x)) for x in rt["args"]]
        okr = "get_mut(" in ra[0] and ".alias_index, (" in ra[0] and "insert(" in ra[0] and "as Some).0" in ra[0] and any(z.endswith("arg2) is False") for z in g3)
        R.check(okr, "alias-pairing", ab.path, "displaced owner loses the key", "retain(%s) under %s" % (ra[0][:120], [z[-60:] for z in g3]), rt.get("span"), "alias_index[prev].retain(k != key)")
        for c in facts.children(ab.path):
            cv = Sym(c).local(0)
            txt = render_n(cv)
            R.check("ne(" in txt and "arg1.key" in txt and "arg2" in txt, "alias-pairing", c.path, "retain predicate is k != key", "retain predicate: %s" % txt, c.span, txt[:80])
        other = [st.get("span") for x, y, st in ab.assigns() if st["place"]["l"] == 0 and not st["place"]["p"] and const_val(s.rvalue(st["rv"])) not in (0, 1)]
        other += [t.get("span") for x, t in ab.calls() if t["dest"]["l"] == 0 and not t["dest"]["p"]]
        # a result that is the value of peers.contains_key(peer_id) is `true exactly when the peer was present`, i.e. when the
        # insert (guarded by that same test, checked above) ran
        present_rows = [st for x, y, st in ab.assigns() if st["place"]["l"] == 0 and not st["place"]["p"] and "contains_key(" in render_n(s.at(x, y).rvalue(st["rv"]))
                        and ".peers, arg2)" in render_n(s.at(x, y).rvalue(st["rv"]))]
        other = [sp_ for sp_ in other if sp_ not in [st.get("span") for st in present_rows]]
        R.check(not other, "alias-pairing", ab.path, "result is a literal true/false on every row",
                "alias() computes its result at %s instead of returning a literal per row: the true/false rows above do not cover it" % other, ab.span)
        # on the displaced row every path insert->push goes through the retain or the previous owner has no list
        falses = [(x, y, st) for x, y, st in ab.assigns() if st["place"]["l"] == 0 and not st["place"]["p"] and const_val(s.rvalue(st["rv"])) == 0]
        for x, y, st in falses:
            g4 = gt(x)
            R.check(any("contains_key(" in z and z.endswith("is False") for z in g4), "alias-pairing", ab.path, "false only for an absent peer", "alias returns false under %s" % g4, st.get("span"))

    # every forward insert, whoever makes it (an insert-and-alias convenience, a bulk alias, a rename): `aliases.insert(key, id)` hands
    # back the key's previous owner, and unless that is looked at - and, when it is another peer, the key taken out of that peer's
    # reverse list - the two maps disagree: aliases_for(prev) still lists a key that resolves to someone else
    n_fw = 0
    for b in facts.bodies.values():
        if not (b.path.startswith("peer::") or b.path.startswith("<peer::")):
            continue
        bs_ = Sym(b)
        for i, t in b.calls():
            if t["callee"]["name"] != "insert" or "HashMap" not in t["callee"]["path"] or len(t["args"]) != 3:
                continue
            if not render(bs_.op(t["args"][0])).endswith(".aliases"):
                continue
            n_fw += 1
            dl = t["dest"]["l"] if not t["dest"]["p"] else None
            looked = False
            if dl is not None:
                for x in sorted(b.live_blocks()):
                    for st_ in b.blocks[x]["stmts"]:
                        if st_["k"] == "assign":
                            rv_ = st_["rv"]
                            pls_ = [rv_[k_] for k_ in ("ref", "discr", "use") if k_ in rv_ and isinstance(rv_[k_], dict)]
                            for p_ in pls_:
                                q_ = p_ if "l" in p_ else op_place(p_)
                                if q_ is not None and q_.get("l") == dl:
                                    looked = True
                    tt = b.term(x)
                    if tt["k"] == "call" and any((op_place(a_) or {}).get("l") == dl for a_ in tt["args"]):
                        looked = True
                    if tt["k"] == "switch" and (op_place(tt["on"]) or {}).get("l") == dl:
                        looked = True
            retains = [ri for ri, rt in b.calls() if rt["callee"]["name"] in ("retain", "retain_mut") and "alias_index" in render(bs_.op(rt["args"][0])) and ri in b.reachable((i,))]
            R.check(looked and bool(retains), "alias-pairing", b.path, "a forward insert settles the key's previous owner",
                    "%s inserts into `aliases` and %s: when the key was already addressing another peer, that peer's reverse list keeps a key that now resolves to "
                    "someone else (aliases_for / key_for disagree with get_by)" % (b.path.rsplit("::", 1)[-1], "drops the previous owner that insert returns" if not looked
                                                                                    else "never filters the previous owner's alias_index list"), t.get("span"), "prev looked at, alias_index[prev].retain reachable")
    R.floor("alias-pairing", n_fw, 1, "inserts into the forward alias map")

    # alias-order: a peer's alias list is only appended to (push) or filtered in place (retain / Vec::remove, which keep
    # the relative order); any reordering operation breaks "in assignment order"
    REORDER = ("swap_remove", "sort", "sort_by", "sort_by_key", "sort_unstable", "sort_unstable_by", "sort_unstable_by_key", "reverse", "rotate_left",
               "rotate_right", "swap", "insert", "dedup", "dedup_by", "dedup_by_key", "drain", "truncate", "pop", "split_off", "select_nth_unstable")
    for b in facts.bodies.values():
        if not b.path.startswith(PR + "::"):
            continue
        bs_ = Sym(b)
        for i, t in b.calls():
            if t["callee"]["name"] in REORDER and t["args"] and ("Vec" in t["callee"]["path"] or "slice" in t["callee"]["path"]):
                recv = render_n(bs_.op(t["args"][0]))
                if "alias_index" in recv:
                    R.bad("alias-order", b.path, "alias_index[..]." + t["callee"]["name"],
                          "a peer's alias list is modified with `%s`, which does not preserve assignment order (aliases_for / key_for would report a different order)" % t["callee"]["name"], t.get("span"))
    R.ok("alias-order", ab.path, "alias lists only appended / filtered in order", ab.span, "push + retain")

    # ---------------- alias-pairing: remove() --------------------------------------------------------------------
    rb = facts.body(PR + "::remove")
    rs = Sym(rb)
    ro = callsite_ordinals(rb)
    rem = [(i, t, render_n(rs.op(t["args"][0]))) for i, t in rb.calls() if t["callee"]["name"] == "remove" and "HashMap" in t["callee"]["path"]]
    by = {m: [(i, t) for i, t, a in rem if a.endswith("." + m)] for m in MAPS}
    entry_rm = []
    if not by.get("aliases") and getattr(rb, "changed", False):
        # entry API: `match aliases.entry(key) { Occupied(slot) if *slot.get() == id => { slot.remove(); } .. }`
        for i, t in rb.calls():
            if t["callee"]["name"] in ("remove", "remove_entry") and "OccupiedEntry" in t["callee"]["path"]:
                slot = rs.op(t["args"][0])
                if slot[0] == "field" and slot[1][0] == "variant" and slot[1][2] == "Occupied" and is_call(slot[1][1], "entry") and render_n(slot[1][1][2][0]).endswith(".aliases"):
                    entry_rm.append((i, t, slot))
    if len(entry_rm) == 1 and all(len(by[m]) == 1 for m in MAPS if m != "aliases"):
        for m in ("peers", "alias_index"):
            i, t = by[m][0]
            w = must_cross(rb, [(0, 0)], return_points(rb), [term_pt(rb, i)], after_start=False)
            R.check(w is None and render_n(rs.op(t["args"][1])) == "arg2", "alias-pairing", rb.path, "%s.remove(id) on every path" % m, "remove can return without %s.remove(id)" % m, t.get("span"), path=w)
        i, t, slot = entry_rm[0]
        key = render_n(slot[1][1][2][1], ro)
        own_list = "remove#2(" in key or (".alias_index, arg2)" in key)
        owned = False
        for f in facts_at(rb, rs, facts, i):
            e = f["expr"]
            if f["val"] is True and e[0] == "call" and e[1].rsplit("::", 1)[-1] == "eq" and len(e[2]) == 2:
                a_, b_ = e[2]
                for x_, y_ in ((a_, b_), (b_, a_)):
                    if is_call(x_, "get") and "OccupiedEntry" in x_[1] and x_[2] and x_[2][0] == slot and render_n(y_).strip("&*()") == "arg2":
                        owned = True
        R.check(own_list and owned and in_cycle(rb, i), "alias-pairing", rb.path, "forward mapping removed only for own keys still pointing here",
                "aliases.entry(%s) is removed without the test that it still points at this peer" % key[:100], t.get("span"),
                "key from alias_index.remove(id); Occupied(slot) removed only if *slot.get() == id")
        by = None
    R.check(by is None or all(len(by[m]) == 1 for m in MAPS), "alias-pairing", rb.path, "one remove per map", "removes: %s" % {m: len(v) for m, v in (by or {}).items()}, rb.span)
    if by is not None and all(len(by[m]) == 1 for m in MAPS):
        for m in ("peers", "alias_index"):
            i, t = by[m][0]
            w = must_cross(rb, [(0, 0)], return_points(rb), [term_pt(rb, i)], after_start=False)
            R.check(w is None and render_n(rs.op(t["args"][1])) == "arg2", "alias-pairing", rb.path, "%s.remove(id) on every path" % m, "remove can return without %s.remove(id)" % m, t.get("span"), path=w)
        i, t = by["aliases"][0]
        g = ["%s is %s" % (render_n(f["expr"], ro), f["val"]) for f in facts_at(rb, rs, facts, i)]
        key = render_n(rs.op(t["args"][1]), ro)
        own_list = "remove#2(" in key or (".alias_index, arg2)" in key)
        owned = any("eq(" in z and "get(" in z and ".aliases" in z and "Option::Some{0: arg2}" in z and z.endswith("is True") for z in g)
        if not owned:
            # the same test spelled on the payload: aliases.get(key) is Some(owner) and owner == id
            fsr = facts_at(rb, rs, facts, i)
            for f in fsr:
                e = f["expr"]
                if f["val"] is True and e[0] == "call" and e[1].rsplit("::", 1)[-1] == "eq" and len(e[2]) == 2:
                    sides = [render_n(x, ro) for x in e[2]]
                    pay = [x for x in sides if "get(" in x and ".aliases" in x and x.rstrip(")").endswith("as Some).0")]
                    ids = [x for x in sides if x.strip("&*()") == "arg2"]
                    if pay and ids and any(render_n(g_["expr"], ro) in pay[0] and str(g_["val"]) == "Some" for g_ in fsr):
                        owned = True
        # ... and the mapping tested is the one removed: the same key
        same_key = any("get(" in z and ".aliases, " + key + ")" in z for z in g)
        R.check(same_key, "alias-pairing", rb.path, "the ownership test reads the key being removed",
                "aliases.remove(%s) is guarded by a test of another key: %s" % (key[:80], [z[-90:] for z in g if "get(" in z]), t.get("span"), "aliases.get(key) ... aliases.remove(key)")
        R.check(own_list and owned and in_cycle(rb, i), "alias-pairing", rb.path, "forward mapping removed only for own keys still pointing here",
                "aliases.remove(%s) under %s" % (key[:100], [z[-70:] for z in g]), t.get("span"), "key from alias_index.remove(id), guarded by aliases.get(key) == Some(id)")
    rows = value_rows(rb, rs, facts, 0)
    R.check(len(rows) >= 1 and all("remove#1(" in v and ".peers, arg2)" in v for g, v in rows), "alias-pairing", rb.path, "returns the removed handle", "remove returns %s" % rows, rb.span)

    # lookups read through one guard: get_by = peers.get(aliases.get(key)?)
    gb = facts.body(PR + "::get_by")
    gs = Sym(gb)
    rows = value_rows(gb, gs, facts, 0)
    okg = any("get#2(" in v and ".peers" in v and ".aliases" in v and "get#1(" in v for g, v in rows)
    R.check(okg, "alias-pairing", gb.path, "get_by resolves key -> id -> peer", "get_by rows %s" % [v[:120] for g, v in rows], gb.span)
    # ... under ONE guard: resolving the key under one lock acquisition and fetching the peer under another lets a re-point plus the
    # removal of the previous owner slip in between, and the lookup answers None for a key that was attached to a present peer throughout
    locks = [i for i, t in gb.calls() if callee_matches(t["callee"], PR + "::lock")]
    relock = [t["callee"]["path"] for i, t in gb.calls() if t["callee"]["path"].startswith(PR + "::") and not callee_matches(t["callee"], PR + "::lock")]
    pc = path_counts(gb, locks)
    R.check(pc is not None and pc[1] <= 1 and not relock, "alias-pairing", gb.path, "lookup reads both maps under one guard",
            "get_by takes the registry lock %s time(s) on a path and calls %s (which lock again): the key -> id -> peer resolution is not one critical section"
            % (pc[1] if pc else "?", relock), gb.span, "one PeerRegistry::lock per lookup, no nested locking calls")

    # ---------------- broadcast-loop -------------------------------------------------------------------------------
    template_map = None
    bs = Sym(be)
    bo = callsite_ordinals(be)
    snap = [(i, t) for i, t in be.calls() if callee_matches(t["callee"], PR + "::peers")]
    sn = [(i, t) for i, t in be.calls() if t["callee"]["name"] == "send_notify"]
    oi = [(i, t) for i, t in be.calls() if t["callee"]["name"] == "insert" and "HashMap" in t["callee"]["path"]]
    nx = [i for i, t in be.calls() if t["callee"]["name"] == "next"]
    if len(nx) > 1 and len(snap) == 1 and getattr(be, "changed", False):
        # further loops after the sends (pruning the peers that reported Disconnected, logging the results) do not iterate the snapshot
        def _over_snapshot(e):
            while e[0] == "call" and e[2] and e[1].rsplit("::", 1)[-1] in ("into_iter", "iter", "by_ref", "deref", "deref_mut", "enumerate", "as_slice"):
                e = e[2][0]
            return e[0] == "call" and len(e) > 3 and e[3] == snap[0][0]
        nx = [i for i in nx if _over_snapshot(bs.op(be.term(i)["args"][0]))] or nx
    mapped = None
    if len(snap) == 1 and not sn and not oi:
        # peers().into_iter().map(|peer| (peer.peer_id(), peer.send_notify(path, body_for(&peer, ..)))).collect()
        rv = bs.local(0)
        chain = []
        cur = rv
        clo = None
        while cur[0] == "call" and cur[2]:
            nm = cur[1].rsplit("::", 1)[-1]
            chain.append(nm)
            if nm == "map" and len(cur[2]) == 2:
                clo = cur[2][1]
            cur = cur[2][0]
        if chain == ["collect", "map", "into_iter", "peers"] and clo is not None and clo[0] == "agg" and clo[1].startswith("closure:"):
            mapped = facts.bodies.get(clo[1].split(":", 1)[1])
    if mapped is not None:
        ms = Sym(mapped)
        msn = [(i, t) for i, t in mapped.calls() if t["callee"]["name"] == "send_notify"]
        mv = ms.local(0)
        ok = len(msn) == 1 and mv[0] == "agg" and mv[1] == "tuple" and len(mv[3]) == 2
        if ok:
            a = [render_n(ms.op(x)) for x in msn[0][1]["args"]]
            k, r = mv[3][0][1], mv[3][1][1]
            ok = a[0].startswith("arg2") and "path" in a[1] and "call_mut(" in a[2] and is_call(k, "peer_id") and render_n(k[2][0]).startswith("arg2") \
                and r[0] == "call" and r[3] == msn[0][0] and path_counts(mapped, [msn[0][0]]) == (1, 1)
        R.check(ok, "broadcast-loop", mapped.path, "each snapshot peer gets one send_notify(path, body_for(peer)) and one (peer_id, result) row",
                "broadcast closure returns %s" % render_n(mv)[:160], mapped.span, "map(|peer| (peer.peer_id(), peer.send_notify(path, body_for(peer))))")
    else:
        R.check(len(snap) == 1 and len(sn) == 1 and len(oi) == 1 and len(nx) == 1, "broadcast-loop", be.path, "shape", "peers()=%d send=%d insert=%d" % (len(snap), len(sn), len(oi)), be.span)
    if len(snap) == 1 and len(sn) == 1 and len(oi) == 1 and len(nx) == 1:
        si, st = sn[0]
        a = [render_n(bs.op(x)) for x in st["args"]]
        item = "(Iterator>::next(IntoIterator>::into_iter(PeerRegistry::peers(arg1))) as Some).0"
        ok = a[0].endswith(item) and a[1] == "arg2" and "call_mut(arg3" in a[2]
        if not ok and a[0].endswith(item) and a[1] == "arg2" and getattr(be, "changed", False):
            # the per-peer body is stamped out of a template value (an enum parameter) instead of a closure: one row per variant
            template_map = _template_rows(facts, R, be, bs, si, st)
            ok = bool(template_map)
        R.check(ok, "broadcast-loop", be.path, "send_notify(path, body_for(peer)) to the snapshot item", "send_notify args %s" % [x[-70:] for x in a], st.get("span"), "peer from peers() snapshot; path unchanged")
        ii, it = oi[0]
        ia = [render_n(bs.op(x)) for x in it["args"]]
        ok = "peer_id(" in ia[1] and item in ia[1] and ia[2].startswith("PeerHandle::send_notify(")
        R.check(ok, "broadcast-loop", be.path, "out.insert(peer.peer_id(), that send's result)", "insert args %s" % [x[-70:] for x in ia[1:]], it.get("span"))
        for (xi, nm) in ((si, "send"), (ii, "insert")):
            again = xi in be.reachable(be.succs(xi), avoid=nx)
            R.check(not again and in_cycle(be, xi), "broadcast-loop", be.path, "one %s per peer" % nm, "%s can repeat within one iteration or is outside the loop" % nm, be.span)
        # every iteration that sends also inserts
        w = must_cross(be, [term_pt(be, si)], [term_pt(be, nx[0])] + return_points(be), [term_pt(be, ii)])
        R.check(w is None, "broadcast-loop", be.path, "every send is reported", "an iteration can send without recording a result", be.span, path=w)
    pb = facts.body(PR + "::peers")
    pv = render_n(Sym(pb).local(0))
    chain = [t["callee"]["name"] for i, t in pb.calls() if t["callee"].get("trait") == "std::iter::Iterator"]
    R.check(chain == ["cloned", "collect"] and ".peers" in pv and "values(" in pv, "broadcast-loop", pb.path, "snapshot = all peers", "peers() is %s (adapters %s)" % (pv[:120], chain), pb.span, "values().cloned().collect()")
    n_w = 0
    for nm in ("broadcast_notify_json", "broadcast_notify_beve", "broadcast_notify_utf8", "broadcast_notify_raw"):
        wb = facts.body(PR + "::" + nm)
        ws = Sym(wb)
        calls = [(i, t) for i, t in wb.calls() if callee_matches(t["callee"], PR + "::broadcast_each")]
        ok = len(calls) == 1
        if ok:
            a = [render_n(ws.op(x)) for x in calls[0][1]["args"]]
            ok = a[0] == "arg1" and a[1] == "arg2"   # path.as_ref() is transparent
            n_w += 1
        R.check(ok, "broadcast-loop", wb.path, "wrapper passes path through", "wrapper calls broadcast_each(%s)" % (a[:2] if calls else None), wb.span)
    # clone_with_prefix_room(src, room) holds exactly src's bytes (the spare room is capacity, not content)
    if facts.has_body("peer::clone_with_prefix_room"):
        kb = facts.body("peer::clone_with_prefix_room")
        ks = Sym(kb)
        ksrc = _content_source(kb, ks, ks.local(0))
        R.check("peer::clone_with_prefix_room" in _COPY_HELPERS, "broadcast-loop", kb.path, "copy holds exactly the source bytes",
                "clone_with_prefix_room returns %s, whose content is %s" % (render_n(ks.local(0))[:100], render_n(ksrc)[:80] if ksrc is not None else None), kb.span,
                "empty buffer + one extend_from_slice(src)")
    # body closures build the body of the advertised kind from the given bytes
    n_body = 0
    for nm, kind, src in (("broadcast_notify_json", "Json", "encoded"), ("broadcast_notify_beve", "Beve", "encoded"), ("broadcast_notify_utf8", "Utf8", "text"), ("broadcast_notify_raw", "Raw", "body")):
        if template_map:
            n_body += 1
            _template_wrapper_rule(facts, R, PR + "::" + nm, kind, template_map)
            continue
        for c in facts.children(PR + "::" + nm):
            cv = Sym(c).local(0)
            if cv[0] == "agg" and cv[1].endswith("NotifyBody"):
                txt = render_n(cv)
                ok = cv[2] == kind and (src in txt or "buf" in txt)
                if kind == "Raw":
                    ok = ok and "body_format" in txt
                R.check(ok, "broadcast-loop", c.path, "body kind %s from the given bytes" % kind, "closure builds %s" % txt[:120], c.span, txt[:80])
                _body_content_rule(facts, R, PR + "::" + nm, c, cv, kind)
                n_body += 1
    # every Raw body built on behalf of broadcast_notify_raw (in its closure or a helper spliced into it) carries the caller's format
    for c in facts.children(PR + "::broadcast_notify_raw"):
        cs_ = Sym(c)
        for i_, j_, st_ in c.assigns():
            rv_ = st_["rv"]
            if rv_.get("agg") == "adt" and str(rv_.get("adt", "")).endswith("NotifyBody") and rv_.get("variant") == "Raw" and i_ in c.live_blocks() and len(rv_["ops"]) == 2:
                fv = cs_.op(rv_["ops"][1])
                okf = (fv[0] == "field" and fv[1][0] == "arg" and fv[1][1] == 1 and fv[2] == "body_format") or (fv[0] == "arg" and fv[2] == "body_format") \
                    or (getattr(c, "changed", False) and fv[0] == "local" and "body_format" in str(fv[2]))
                R.check(okf, "broadcast-loop", c.path, "a Raw body keeps the caller's format",
                        "broadcast_notify_raw builds NotifyBody::Raw(.., %s): the peers receive the body under another format than the one given" % render_n(fv)[:80], st_.get("span"), "Raw(bytes, body_format)")
    R.floor("broadcast-loop", n_body, 4, "broadcast wrappers whose body content was judged")
