"""C15 - connection lifecycle hooks fire once, in order, on every exit path (WebSocket server)."""
import re
from analysis.flow import must_cross, return_points, term_pt, path_counts, in_cycle, yields, definitely_init, init_at_point, trace_op
from analysis.guards import facts_at, _variants_for_discr, field_writes, struct_constructions, _mentions_field
from analysis.mir import callee_matches, op_place, rv_operands
from analysis.sym import Sym, render, is_call, const_val, walk
from rules.common import texts, value_rows, render_n, ok_fact

REQUIRES = ("websocket",)
WS = "websocket_server::"
HC = WS + "handle_connection_with_config::{closure#0}"
GUARD = WS + "DisconnectGuard"

EXPLANATION = (
    "Decided structurally. (guard-owns-disconnect) disconnect hooks are invoked only from <DisconnectGuard as Drop>::drop; a "
    "DisconnectGuard is constructed at exactly one site, outside any loop, in handle_connection_with_config, from "
    "config.on_disconnect; the guard variable is never moved, forgotten or wrapped, so the compiler drops it exactly once on "
    "return, unwind and coroutine drop (drain-deadline abort, embedder cancellation); it is live across the await of the "
    "reader select! and across no other await (its scope ends with the reader, so a slow writer join cannot postpone the hooks). (post-handshake-only) every caller of handle_connection_with_config passes either an embedder-upgraded "
    "stream parameter or the Ok payload of accept_repe_websocket. (registry-pairing) with_peer_registry registers insert as a "
    "connect hook and remove as a disconnect hook on clones of one registry; the guard's construction dominates every "
    "connect-hook call, so a panicking hook still tears down. (hooks-before-reader) all connect-hook call sites dominate the "
    "reader_task call and the hook's sink, the reader's response path and the writer's receiver are the two ends of one mpsc "
    "channel. (cancel-before-hooks) in Drop the token is cancelled before the hook loop and the reader's handlers get clones "
    "of that same token. (end-signal-ends-reader) in reader_task no path from an end-of-stream, transport-error or Close-frame "
    "edge reaches StreamExt::next again, and decode_request_payload maps WsMessage::Close to FramePayload::Close. (drain-shape) graceful drain cancels the parent token before joining, the deadline arm shuts the "
    "JoinSet down, and the writer task is held through AbortOnDrop whose Drop aborts. Not decided: enumeration of exit cause x "
    "phase x connection count; RAII makes the guarantee independent of the exit path."
    ' For a hook list with several callback shapes every element the Drop loop takes is called (path rule from the next() is Some edge).'
    " Wherever one server's hook lists are handed to another server value the source's peer_id_counter is stored with them, and with_peer_registry adopts the registry's id counter (two counters minting ids into one registry collide)."
)
ASSUMPTIONS = ["Rust drops an initialised, never-moved local exactly once on every exit (return, unwind, coroutine drop)",
               "tokio mpsc is FIFO; CancellationToken clones share one state"]


def run(facts, R):
    hc = facts.body(HC)
    s = Sym(hc)
    # ---------------- guard-owns-disconnect --------------------------------------------------------------
    cons = struct_constructions(facts, GUARD)
    if len(cons) > 1:
        # one source site seen twice: the connection function's body moved into a parameterised sibling that is also spliced back into it
        seen_sp = set()
        cons = sorted(cons, key=lambda c_: 0 if c_[0] is hc else 1)
        cons = [c_ for c_ in cons if not (c_[3].get("span") in seen_sp or seen_sp.add(c_[3].get("span")))]
    R.check(len(cons) == 1 and cons[0][0] is hc, "guard-owns-disconnect", "<crate>", "one construction site", "DisconnectGuard is built in %s" % [b.path for b, _, _, _ in cons])
    if len(cons) != 1:
        return
    gb, gi, gj, gs = cons[0]
    R.check(not in_cycle(hc, gi), "guard-owns-disconnect", hc.path, "built outside any loop", "the guard is constructed inside a loop", gs.get("span"))
    gv = s.rvalue(gs["rv"])
    d = dict(gv[3])
    okh = "hooks" in d and "config.on_disconnect" in render_n(d["hooks"])
    okc = "cancel" in d and "conn_token" in render_n(d["cancel"])
    R.check(okh and okc, "guard-owns-disconnect", hc.path, "guard carries config.on_disconnect and the connection token", "guard built as %s" % render_n(gv)[:200], gs.get("span"), render_n(gv)[:160])
    gl = [l for l in range(len(hc.locals)) if hc.local_ty(l) == GUARD]
    moves = []
    for i, bl in enumerate(hc.blocks):
        for st in bl["stmts"]:
            if st["k"] == "assign":
                for o in rv_operands(st["rv"]):
                    if "move" in o and not o["move"]["p"] and o["move"]["l"] in gl:
                        dst = st["place"]["l"] if not st["place"]["p"] else None
                        if dst not in gl:
                            moves.append(st.get("span"))
        t = bl["term"]
        if t["k"] == "call":
            for o in t["args"]:
                if "move" in o and not o["move"]["p"] and o["move"]["l"] in gl:
                    if callee_matches(t["callee"], "std::mem::drop", "core::mem::drop"):
                        # `drop(guard)` runs the hooks right there: that is the guard doing its job (the liveness rule below still
                        # requires it to be held while the reader runs)
                        R.ok("guard-owns-disconnect", hc.path, "explicit drop(guard)", t.get("span"), "mem::drop runs Drop at this point")
                        continue
                    moves.append(t.get("span"))
    R.check(not moves, "guard-owns-disconnect", hc.path, "guard never moved / forgotten / wrapped",
            "the DisconnectGuard is moved out of its variable at %s (mem::forget, ManuallyDrop, Box::leak or a spawned task would skip or delay the hooks)" % moves, gs.get("span"),
            "the compiler drops the guard exactly once on every exit")
    holder = gs["place"]["l"] if not gs["place"]["p"] else None
    init = definitely_init(hc)
    n_live = 0
    for y in yields(hc):
        if y not in hc.reachable((gi,)):
            continue
        # which future is awaited here?
        polled = [render_n(s.op(t["args"][0])) for i, t in hc.calls() if t["callee"]["name"] == "poll" and hc.dominates(i, y) and y in hc.reachable((i,))]
        is_reader = any("reader_task(" in x for x in polled[-1:])
        live = holder in init_at_point(hc, init, term_pt(hc, y)) if holder is not None else False
        if is_reader:
            n_live += 1
            R.check(live, "guard-owns-disconnect", hc.path, "guard live across the reader await", "the reader is awaited with no live DisconnectGuard (a dropped connection task would skip the hooks)",
                    hc.term(y).get("span"), "live")
        elif live:
            # the guard must go out of scope as soon as the reader is done: any other await inside its scope (joining the
            # writer, draining a queue) postpones the disconnect hooks and the registry removal until that await finishes
            R.bad("guard-owns-disconnect", hc.path, "guard scope ends with the reader",
                  "the DisconnectGuard is still live across an await of %s: the disconnect hooks and the token cancellation wait for it (a writer parked on a "
                  "stalled peer would postpone them indefinitely)" % (polled[-1][:100] if polled else "another future"), hc.term(y).get("span"))
    R.floor("guard-owns-disconnect", n_live, 1, "await points of the reader select!")
    # hooks invoked only in Drop
    dp = facts.body("<%s as std::ops::Drop>::drop" % GUARD)
    ds = Sym(dp)
    hookcalls = [(i, t) for i, t in dp.calls() if t["callee"]["name"] in ("call", "call_mut", "call_once") and "hooks" in render(ds.op(t["args"][0]))]
    if len(hookcalls) == 1:
        R.check(in_cycle(dp, hookcalls[0][0]), "guard-owns-disconnect", dp.path, "Drop runs every hook", "hook call sites in Drop: %d" % len(hookcalls), dp.span, "for hook in hooks { hook(peer_id) }")
    else:
        # several kinds of hook (an enum of callback shapes): every element the loop takes from the list is called, whatever its kind - from
        # the `next() is Some` edge each way back to the loop head crosses a hook call
        nexts = [(i, t) for i, t in dp.calls() if t["callee"]["name"] == "next" and t["callee"].get("trait") == "std::iter::Iterator"]
        some_edges = []
        for x in sorted(dp.live_blocks()):
            fs_ = facts_at(dp, ds, facts, x)
            if any(f_["val"] == "Some" and is_call(f_["expr"], "next") for f_ in fs_) and any(not any(f2["val"] == "Some" and is_call(f2["expr"], "next") for f2 in facts_at(dp, ds, facts, q)) for q in dp.preds().get(x, []) if q in dp.live_blocks()):
                some_edges.append((x, 0))
        w_ = must_cross(dp, some_edges, [term_pt(dp, i) for i, _ in nexts] + return_points(dp), [term_pt(dp, i) for i, _ in hookcalls], after_start=False) if (some_edges and nexts and hookcalls) else [0]
        R.check(bool(hookcalls) and len(nexts) == 1 and all(in_cycle(dp, i) for i, _ in hookcalls) and w_ is None, "guard-owns-disconnect", dp.path, "Drop runs every hook",
                "the loop over the disconnect hooks can take a hook from the list and go on without calling it (%d call sites): that callback is not told about this "
                "connection's end" % len(hookcalls), dp.span, "every element is called", path=w_ if isinstance(w_, list) and w_ != [0] else None)
    for i, t in hookcalls:
        a = render_n(ds.op(t["args"][1]))
        R.check("arg1.peer_id" in a, "guard-owns-disconnect", dp.path, "hooks get this connection's peer id", "hook called with %s" % a, t.get("span"))
    chain = [t["callee"]["name"] for i, t in dp.calls() if t["callee"].get("trait") == "std::iter::Iterator"]
    R.check(chain == ["next"], "guard-owns-disconnect", dp.path, "no hook skipped", "iterator adapters in Drop: %s" % chain, dp.span)
    # every invocation of a disconnect-hook-typed callable (dyn Fn(PeerId)) in the crate is the one in Drop
    n_inv = 0
    for b in facts.bodies.values():
        for i, t in b.calls():
            if t["callee"]["name"] in ("call", "call_mut", "call_once") and (t["callee"].get("self_ty") or "").startswith("dyn std::ops::Fn(peer::PeerId"):
                n_inv += 1
                R.check(b is dp, "guard-owns-disconnect", b.path, "disconnect hooks invoked only by the guard's Drop",
                        "%s invokes a disconnect hook directly: hooks can fire without / in addition to the guard" % b.path, t.get("span"), "in Drop")
    R.floor("guard-owns-disconnect", n_inv, 1, "disconnect hook invocations")
    # who reads `hooks` of a guard / on_disconnect of the config
    for b in facts.bodies.values():
        if not b.path.startswith(WS) and not b.path.startswith("<" + WS):
            continue
        for i, bl in enumerate(b.blocks):
            for st in bl["stmts"]:
                if st["k"] != "assign":
                    continue
                rv = st["rv"]
                pls = [rv[k] for k in ("ref", "discr") if k in rv] + [p for p in (op_place(o) for o in rv_operands(rv)) if p]
                for p in pls:
                    if _mentions_field(p, GUARD, "hooks"):
                        R.check(b is dp, "guard-owns-disconnect", b.path, "guard.hooks read only by Drop", "%s reads DisconnectGuard.hooks" % b.path, st.get("span"))
                    if _mentions_field(p, WS + "ConnectionConfig", "on_disconnect"):
                        R.check(b is hc or "WebSocketServer" in b.path, "guard-owns-disconnect", b.path, "config.on_disconnect read only to build the guard",
                                "%s reads the disconnect hook list" % b.path, st.get("span"))

    # ---------------- cancel-before-hooks ----------------------------------------------------------------------
    cancels = [(i, t) for i, t in dp.calls() if t["callee"]["name"] == "cancel" and "CancellationToken" in t["callee"]["path"]]
    R.check(len(cancels) == 1 and bool(hookcalls) and dp.dominates(cancels[0][0], hookcalls[0][0]) and "arg1.cancel" in render_n(ds.op(cancels[0][1]["args"][0])),
            "cancel-before-hooks", dp.path, "token cancelled by the guard's Drop, before the hook loop",
            "the guard's Drop does not cancel the connection token before running the hooks (cancel calls in Drop: %d): handlers still running when the connection "
            "unwinds or its task is dropped never observe cancellation" % len(cancels), dp.span, "cancel() then hooks")
    conn = [(i, j, st) for i, j, st in hc.assigns() if st["rv"].get("agg") == "adt" and st["rv"]["adt"] == WS + "ConnDispatch"]
    R.check(len(conn) == 1, "cancel-before-hooks", hc.path, "one ConnDispatch", "found %d" % len(conn), hc.span)
    for i, j, st in conn:
        cd = dict(s.rvalue(st["rv"])[3])
        gtok = render_n(d["cancel"]) if "cancel" in d else None
        R.check(gtok is not None and render_n(cd["conn_token"]) == gtok, "cancel-before-hooks", hc.path, "handlers observe the guard's token",
                "reader token %s vs guard token %s: the token the handlers poll is not the one the disconnect guard cancels on every exit (return, unwind, task drop)"
                % (render_n(cd["conn_token"]), gtok), st.get("span"), render_n(cd["conn_token"]))

    # ---------------- reader-raced-with-cancel: the whole reader future is one arm of a select! whose other arm is the
    # connection token's cancelled(): cancellation ends the connection in every phase of the reader (parked on the
    # outbound queue, inside an inline handler, between frames), not only where the reader chooses to look at the token
    raced = False
    direct = False
    tok = None
    for i, t in hc.calls():
        if t["callee"]["name"] == "poll_fn":
            for x in walk(s.op(t["args"][0])):
                if x[0] == "agg" and x[1] == "tuple":
                    els = [v for _, v in x[3]]
                    if any(is_call(v, "reader_task") for v in els):
                        for v in els:
                            if is_call(v, "cancelled") and "CancellationToken" in v[1]:
                                raced = True
                                tok = render_n(v[2][0])
        if "reader_task::{closure#0}" in t["callee"]["path"]:
            direct = True
    conn_tok = None
    for i, j, st in conn:
        conn_tok = render_n(dict(s.rvalue(st["rv"])[3]).get("conn_token", ("?",)))
    R.check(raced and not direct and tok is not None and tok == conn_tok, "reader-raced-with-cancel", hc.path, "reader_task is raced against conn_token.cancelled()",
            "the reader future is %s: a cancelled connection whose reader is parked (full outbound queue, long inline handler) is not torn down, so the disconnect "
            "hooks and the registry removal never run" % ("awaited directly" if direct else "not an arm of a select! with the connection token's cancelled() (token %s vs %s)" % (tok, conn_tok)),
            hc.span, "select!{ reader_task(..), conn_token.cancelled() }")

    end_signal_rule(facts, R)
    handler_token_rule(facts, R)
    ctx_passed_through_rule(facts, R)
    # "with a peer registry attached, the peer and its aliases are present from connect until then and absent afterwards": the
    # disconnect hook removes the peer through PeerRegistry::remove, which purges aliases through the reverse index - so the
    # aliases are gone afterwards (and listed while connected) only if alias() / remove() keep the forward map and the reverse
    # index in step.  C18's alias-pairing / alias-order rules decide that (shared)
    from analysis import report as _report18
    from rules import C18 as _c18
    sub18 = _report18.Report(R.prop, R.tier, R.config)
    try:
        _c18.run(facts, sub18)
    except Exception as e:
        sub18.bad("anchor-resolution", "<crate>", "shared-C18-rules", "the shared alias-consistency rules could not run: %s" % e)
    for inst in sub18.instances:
        if inst["rule"] in ("alias-pairing", "alias-order") and inst["verdict"] == "holds":
            R.instances.append(inst)
    for v in sub18.violations:
        if v["rule"] in ("alias-pairing", "alias-order", "anchor-resolution"):
            R.bad("registry-aliases-consistent", v["fn"], v["what"], v["msg"], v.get("site"), v.get("path"))

    # ---------------- registry-pairing / hooks-before-reader -------------------------------------------------------
    hooks = [(i, t) for i, t in hc.calls() if t["callee"]["name"] == "call" and "on_connect" in render(s.op(t["args"][0]))]
    R.floor("hooks-before-reader", len(hooks), 2, "connect-hook call sites")
    rt = [(i, t) for i, t in hc.calls() if callee_matches(t["callee"], WS + "reader_task")]
    R.check(len(rt) == 1, "hooks-before-reader", hc.path, "one reader", "reader_task calls: %d" % len(rt), hc.span)
    for i, t in hooks:
        R.check(hc.dominates(gi, i) and gi != i, "registry-pairing", hc.path, "guard built before connect hook", "a connect hook can run before the DisconnectGuard exists (a panicking hook would leave the peer registered)",
                t.get("span"), "guard construction dominates the hook call")
        if rt:
            R.check(i not in hc.reachable((rt[0][0],)), "hooks-before-reader", hc.path, "connect hook before the reader starts", "a connect hook can run after reader_task was created", t.get("span"),
                    "hook call precedes reader_task")
            # all hook loops finish before the reader: the reader call is dominated by the loops' exits -> reader not reachable without passing loop heads
    if rt:
        ri, rtt = rt[0]
        first = [i for i, t in hooks if _loop_head_dominates(hc, i, ri)]
        R.check(bool(first), "hooks-before-reader", hc.path, "reader created after the plain connect-hook loop", "reader_task can be created before the on_connect loop ran", rtt.get("span"),
                "the on_connect loop header dominates the reader")
        cd = dict(s.rvalue(conn[0][2]["rv"])[3]) if conn else {}
        sink = [x for x in walk(s.op(hooks[0][1]["args"][1])) if x[0] == "agg" and x[1].endswith("WsPeerSink")] if hooks else []
        wt = [(i, t) for i, t in hc.calls() if callee_matches(t["callee"], WS + "writer_task")]
        same = bool(sink) and bool(wt) and cd
        if same:
            tx_sink = render_n(dict(sink[0][3])["tx"])
            tx_reader = render_n(cd["outbound_tx"])
            rx_writer = render_n(s.op(wt[0][1]["args"][1]))
            same = tx_sink.endswith(".0") and tx_reader.endswith(".0") and rx_writer.endswith(".1") and tx_sink[:-2] == tx_reader[:-2] == rx_writer[:-2] and "mpsc::channel(" in tx_sink
        R.check(same, "hooks-before-reader", hc.path, "hook sink, reader and writer share one FIFO", "channel ends: sink=%s reader=%s writer=%s" % (
            render_n(dict(sink[0][3])["tx"])[:60] if sink else None, render_n(cd.get("outbound_tx", ("const", 0)))[:60] if cd else None, None), hc.span, "one mpsc channel")
    wp = facts.body(WS + "WebSocketServer::with_peer_registry")
    wsym = Sym(wp)
    regs = {}
    for i, t in wp.calls():
        if t["callee"]["name"] in ("on_peer_connect", "on_peer_disconnect"):
            clo = wsym.op(t["args"][1])
            if clo[0] == "agg" and clo[1].startswith("closure:"):
                cb = facts.body(clo[1].split(":", 1)[1])
                calls = [y["callee"]["path"] for x, y in cb.calls() if y["callee"]["path"].startswith("peer::PeerRegistry::")]
                regs[t["callee"]["name"]] = (calls, [render_n(v) for k, v in clo[3]])
    ok = regs.get("on_peer_connect", ([],))[0] == ["peer::PeerRegistry::insert"] and regs.get("on_peer_disconnect", ([],))[0] == ["peer::PeerRegistry::remove"]
    caps = [x for v in regs.values() for x in v[1]]
    ok = ok and all("arg2" in c for c in caps) and len(caps) == 2
    R.check(ok, "registry-pairing", wp.path, "insert on connect, remove on disconnect, same registry", "with_peer_registry registers %s" % regs, wp.span, str({k: v[0] for k, v in regs.items()}))

    # a server's peer ids and the registry its hooks feed come from one counter: wherever one server's hook lists are handed to
    # another server value, the id counter travels with them (two counters minting into one registry collide on PeerId)
    SRV = WS + "WebSocketServer"
    HOOKF = ("on_connect", "on_connect_ctx", "on_disconnect")
    cw = [w for w in field_writes(facts, SRV, "peer_id_counter", include_borrows=False) if w["kind"] == "store"]
    okc = any(w["body"] is wp and "PeerRegistry::id_counter(arg2" in render_n(Sym(wp).rvalue(w["rv"])) for w in cw)
    R.check(okc, "registry-pairing", wp.path, "the registry's id counter is adopted with its hooks", "with_peer_registry does not take the registry's id counter (stores: %s)" % [
        render_n(Sym(w["body"]).rvalue(w["rv"]))[:60] for w in cw if w["body"] is wp], wp.span, "peer_id_counter = registry.id_counter()")
    n_hand = 0
    for fld in HOOKF:
        for w in field_writes(facts, SRV, fld, include_borrows=True):
            b = w["body"]
            if not b.path.startswith(WS) or "rv" not in w:
                continue
            bs = Sym(b)
            src = render_n(bs.rvalue(w["rv"])) if w["kind"] == "store" else ""
            if w["kind"] != "store":
                # a push into the list: the pushed element read from another server's list
                src = " ".join(render_n(bs.op(a)) for i_, t_ in b.calls() if t_["callee"]["name"] in ("push", "extend", "extend_from_slice", "append", "clone_from") for a in t_["args"][1:])
            m = re.search(r"(arg\d+|_\d+)[\w\.\*\(\)]*\.(on_connect_ctx|on_connect|on_disconnect)\b", src)
            if not m:
                continue
            n_hand += 1
            base = m.group(1)
            def _same_counter(v):
                # the very counter of the source server: the field itself or a clone of the Arc (a new Arc seeded from its value is
                # a second counter)
                for _h in range(4):
                    if v[0] == "call" and v[1].rsplit("::", 1)[-1] == "clone" and v[2]:
                        v = v[2][0]
                    elif v[0] in ("ref", "deref") and len(v) > 1 and isinstance(v[1], tuple):
                        v = v[1]
                    else:
                        break
                return v[0] == "field" and v[2] == "peer_id_counter" and re.match(re.escape(base) + r"\b", render_n(v[1])) is not None
            vals = [bs.rvalue(c["rv"]) for c in cw if c["body"] is b]
            got = [render_n(v_) for v_ in vals]
            R.check(any(_same_counter(v_) for v_ in vals), "registry-pairing", b.path, "hook lists travel with their id counter",
                    "%s hands %s.%s to another server without that server's peer_id_counter (a registry hook among them would see ids minted by two counters; counter stores here: %s)" % (
                        b.path.rsplit("::", 1)[-1], base, m.group(2), [g[:50] for g in got] or "none"), w.get("span"), "hooks of %s with its counter" % base)
    R.note("registry-pairing: hook-list hand-overs between servers: %d" % n_hand)

    # ---------------- post-handshake-only -------------------------------------------------------------------------------
    callers = facts.calls_to(WS + "handle_connection_with_config")
    R.floor("post-handshake-only", len(callers), 5, "callers of handle_connection_with_config")
    for b, i, t in callers:
        bs = Sym(b)
        a0 = bs.op(t["args"][0])
        txt = render_n(a0)
        fs = facts_at(b, bs, facts, i)
        from_param = txt.startswith("arg1.ws") or (a0[0] == "field" and a0[1][0] == "arg" and "WebSocketStream" in str(b.d.get("debug")))
        from_accept = "accept_repe_websocket(" in txt and ok_fact(fs, lambda e: "accept_repe_websocket" in render(e)) or \
            any(f["val"] == "Ok" and "accept_repe_websocket" in render(f["expr"]) for f in fs) and "accept_repe_websocket(" in txt
        R.check(from_param or from_accept, "post-handshake-only", b.path, "serves only an upgraded stream",
                "handle_connection_with_config is given %s (not an embedder-upgraded stream, not the Ok result of the handshake)" % txt[:120], t.get("span"),
                "embedder stream parameter" if from_param else "Ok payload of accept_repe_websocket")

    # ---------------- drain-shape -------------------------------------------------------------------------------------------
    dr = facts.body(WS + "WebSocketServer::serve_listener_with_graceful_drain::{closure#0}")
    drs = Sym(dr)
    pc = [(i, t) for i, t in dr.calls() if t["callee"]["name"] == "cancel"]
    jn = [(i, t) for i, t in dr.calls() if t["callee"]["name"] == "join_next"]
    sh = [(i, t) for i, t in dr.calls() if t["callee"]["name"] == "shutdown" and "JoinSet" in t["callee"]["path"]]
    R.check(len(pc) == 1 and len(jn) == 1 and len(sh) == 1, "drain-shape", dr.path, "shape", "cancel=%d join_next=%d shutdown=%d" % (len(pc), len(jn), len(sh)), dr.span)
    if len(pc) == 1 and len(jn) == 1 and len(sh) == 1:
        R.check(dr.dominates(pc[0][0], jn[0][0]), "drain-shape", dr.path, "parent token cancelled before joining", "connections are joined before being told to stop", pc[0][1].get("span"))
        fs = facts_at(dr, drs, facts, sh[0][0])
        R.check(any(f["val"] == "Err" and "timeout_at" in render(f["expr"]) for f in fs), "drain-shape", dr.path, "deadline arm aborts stragglers", "conns.shutdown() is not on the deadline arm: %s" % [x[-60:] for x in texts(fs)], sh[0][1].get("span"),
                "shutdown() on timeout_at == Err")
        # conn tokens are children of parent
    acc = facts.body(WS + "SharedWebSocketServer::accept_and_serve::{closure#0}")
    ac = Sym(acc)
    ct = [(i, t) for i, t in acc.calls() if t["callee"]["name"] == "child_token"]
    R.check(len(ct) == 1, "drain-shape", acc.path, "connection token is a child of the drain token", "child_token calls: %d" % len(ct), acc.span)
    ao = struct_constructions(facts, WS + "AbortOnDrop")
    if len(ao) > 1:
        seen_sp2 = set()
        ao = sorted(ao, key=lambda c_: 0 if c_[0] is hc else 1)
        ao = [c_ for c_ in ao if not (c_[3].get("span") in seen_sp2 or seen_sp2.add(c_[3].get("span")))]
    okao = len(ao) == 1 and ao[0][0] is hc and "tokio::spawn(websocket_server::writer_task(" in render_n(s.rvalue(ao[0][3]["rv"]))
    R.check(okao, "drain-shape", hc.path, "writer held through AbortOnDrop", "AbortOnDrop constructions: %s" % [b.path for b, _, _, _ in ao], hc.span)
    ad = facts.body("<websocket_server::AbortOnDrop<T> as std::ops::Drop>::drop")
    R.check(any(t["callee"]["name"] == "abort" for i, t in ad.calls()), "drain-shape", ad.path, "Drop aborts the task", "AbortOnDrop::drop does not abort", ad.span)


def handler_token_rule(facts, R):
    """(handlers-observe-connection-token) the cancel signal every handler is given - inline on the reader, or on a blocking thread -
    wraps a clone of the connection's token, on every path; a fresh token would never be cancelled when the connection ends"""
    from analysis.sym import split_eval
    n = 0
    for b in list(facts.bodies.values()):
        if not b.path.startswith(WS):
            continue
        bs = None
        for i, j, st in b.assigns():
            rv = st["rv"]
            if not (rv.get("agg") == "adt" and rv["adt"].endswith("TokenSignal") and rv["ops"]) or i not in b.live_blocks():
                continue
            bs = bs or Sym(b)
            n += 1
            alts = split_eval(bs, i, j, lambda v_, rv=rv: v_.op(rv["ops"][0])) or [({}, bs.op(rv["ops"][0]))]
            vals = []
            for _, v in alts:
                vals += _through_capture(facts, b, v)
            ok = bool(vals) and all("conn_token" in render_n(v) for v in vals)
            R.check(ok, "handlers-observe-connection-token", b.path, "the handler's cancel signal is the connection token",
                    "a handler's CallContext is built on %s: on that path the signal is not the connection's token, so the handler does not observe cancellation when the "
                    "connection ends" % [render_n(v)[:100] for v in vals if "conn_token" not in render_n(v)][:3], st.get("span"), "TokenSignal(conn_token.clone())")
    R.floor("handlers-observe-connection-token", n, 2, "TokenSignal constructions (inline and off-reader)")


def ctx_passed_through_rule(facts, R):
    """(handlers-observe-connection-token, second half) between the connection and the handler the CallContext travels through
    routers, mounts, wrappers and middleware; each of them must hand on the context it was given.  A dispatcher that builds a
    fresh CallContext for its callee (new / detached) keeps method and peer but not the cancel signal: the callee never observes
    the connection ending."""
    n = 0
    for b in list(facts.bodies.values()):
        if not (b.path.startswith(("server::", "<server::", "registry::", "<registry::", "middleware::", "<middleware::", "server_request::")) or "HandlerErased" in b.path):
            continue
        ctx_params = [a for a in range(1, b.argc + 1) if "peer::CallContext" in b.local_ty(a)]
        if not ctx_params:
            continue
        bs = Sym(b)
        for i, t in b.calls():
            tys = t.get("arg_tys") or []
            if t["callee"]["path"].startswith("peer::CallContext"):
                continue
            for k, ty in enumerate(tys):
                if "peer::CallContext" not in ty or k >= len(t["args"]):
                    continue
                n += 1
                v = bs.op(t["args"][k])
                while v[0] == "call" and v[1].rsplit("::", 1)[-1] in ("deref", "as_ref", "borrow") and len(v[2]) == 1:
                    v = v[2][0]
                if v[0] == "agg" and str(v[1]).endswith("Option") and v[2] == "Some" and len(v[3]) == 1:
                    v = v[3][0][1]          # an optional-context parameter given Some(ctx)
                ok = v[0] == "arg" and v[1] in ctx_params
                if v[0] == "agg" and v[1] == "tuple":
                    # the argument pack of a closure call `f(ctx, value)`
                    ok = any(e_[0] == "arg" and e_[1] in ctx_params for _, e_ in v[3])
                if not ok and v[0] == "agg" and str(v[1]).endswith("CallContext"):
                    # a re-addressed copy (other `method`) is fine as long as it carries the received context's peer and cancel signal
                    d_ = dict(v[3])

                    def _of_ctx(e_, f_):
                        return e_ is not None and e_[0] == "field" and e_[2] == f_ and e_[1][0] == "arg" and e_[1][1] in ctx_params
                    ok = _of_ctx(d_.get("cancel"), "cancel") and _of_ctx(d_.get("peer"), "peer")
                R.check(ok, "handlers-observe-connection-token", b.path, "the context received is the context handed on",
                        "%s passes %s to %s instead of the CallContext it was given: the callee's context has no cancel signal, so a handler behind it does not observe "
                        "cancellation when the connection ends" % (b.path.rsplit("::", 1)[-1], render_n(v)[:100], t["callee"]["path"].rsplit("::", 2)[-1]), t.get("span"), "ctx forwarded")
    R.floor("handlers-observe-connection-token", n, 6, "calls forwarding a CallContext parameter")


def _through_capture(facts, b, v, depth=0):
    """values `v` can stand for when it is (a field of) a variable captured by closure b: what the parent put into the capture"""
    from analysis.sym import split_eval
    base = v
    proj = []
    while base[0] == "field":
        proj.append(base[2])
        base = base[1]
    if not (base[0] == "arg" and base[1] == 1 and proj and "::{closure#" in b.path and depth < 3):
        return [v]
    cap = proj[-1]
    rest = list(reversed(proj[:-1]))
    parent = b.path.rsplit("::{closure#", 1)[0]
    pb = facts.bodies.get(parent)
    if pb is None and "::{inl#" in parent:
        # the closure of a helper that was spliced into its caller lives under an alias path `<caller>::{inl#helper}::{closure#k}`
        pb = facts.bodies.get(parent.rsplit("::{inl#", 1)[0])
    if pb is None:
        return [v]
    ps = Sym(pb)
    out = []
    for i, j, st in pb.assigns():
        rv = st["rv"]
        if rv.get("agg") in ("closure", "coroutine") and rv.get("def") == b.path and cap in (rv.get("fields") or []) and i in pb.live_blocks():
            op = rv["ops"][rv["fields"].index(cap)]
            for _, pv in (split_eval(ps, i, j, lambda v_, op=op: v_.op(op)) or [({}, ps.op(op))]):
                for f in rest:
                    pv = ps._field(pv, f)
                out += _through_capture(facts, pb, pv, depth + 1)
    return out or [v]


def end_signal_rule(facts, R):
    """(end-signal-ends-reader) the disconnect guard's scope ends when reader_task returns; so every signal that the peer is
    finished - end of stream, transport error, a Close frame - must leave the read loop instead of polling the socket again."""
    rb = facts.body(WS + "reader_task::{closure#0}")
    rs = Sym(rb)
    reads = [term_pt(rb, i) for i, t in rb.calls() if t["callee"]["name"] == "next" and "StreamExt" in t["callee"]["path"]]
    R.floor("end-signal-ends-reader", len(reads), 1, "frame reads in reader_task")
    ends, kinds = [], set()
    # edge level: the successor a switch takes for the end variant, also when that successor is shared with another arm
    for x in sorted(rb.live_blocks()):
        t = rb.term(x)
        if t["k"] != "switch":
            continue
        e = rs.op(t["on"])
        if e[0] != "discr":
            continue
        vm = _variants_for_discr(rb, facts, t, x)
        if not vm:
            continue
        names = [c[1].rsplit("::", 1)[-1] for c in walk(e[1]) if c[0] == "call"]
        if "decode_request_payload" in names:
            wanted = {"Close": ("decode", "Close")}
            if not any(n == "branch" for n in names):
                wanted = {}
        elif "next" in names and set(names) <= {"next", "poll", "get_context", "new_unchecked", "into_future"}:
            wanted = {"None": ("read", "None"), "Err": ("read", "Err"), "Close": ("decode", "Close")}
        else:
            continue
        listed = {vm.get(v, str(v)): tb for v, tb in t["targets"]}
        for name, kind in wanted.items():
            if name not in vm.values():
                continue
            tb = listed.get(name, t.get("otherwise"))
            if tb is None or rb.term(tb)["k"] == "unreachable" and not rb.blocks[tb]["stmts"]:
                continue
            kinds.add(kind)
            ends.append((tb, 0))
    R.floor("end-signal-ends-reader", len(kinds & {("read", "None"), ("decode", "Close")}), 2,
            "mandatory end signals (end of stream, Close frame) recognised in reader_task")
    w = must_cross(rb, ends, reads, [], after_start=False)
    R.check(w is None, "end-signal-ends-reader", rb.path, "no further read after an end signal",
            "after end of stream / a transport error / a peer Close frame the reader polls the socket again (blocks %s): reader_task does not return, the "
            "DisconnectGuard stays alive and the disconnect hooks, registry removal and handler cancellation wait on a peer that has already closed" % w,
            rb.span, "end edges %s never reach StreamExt::next again" % sorted(kinds), path=w)
    if WS + "decode_request_payload" not in facts.bodies:
        return
    db = facts.body(WS + "decode_request_payload")
    rows = value_rows(db, Sym(db), facts, 0)
    close_rows = [(g, v) for g, v in rows if any(" is " in x and "Close" in x.split(" is ", 1)[1] for x in g)]
    R.check(bool(close_rows) and all("FramePayload::Close" in v for g, v in close_rows), "end-signal-ends-reader", db.path, "a Close frame decodes to FramePayload::Close",
            "decode_request_payload maps a peer Close frame to %s" % [v[:60] for g, v in close_rows], db.span, "Close -> FramePayload::Close")


def _loop_head_dominates(b, hook_bb, reader_bb):
    """the hook call sits in a `for` loop whose header (the iterator next) dominates the reader call"""
    for i, t in b.calls():
        if t["callee"]["name"] == "next" and hook_bb in b.reachable((i,)) and i in b.reachable((hook_bb,)) and b.dominates(i, reader_bb):
            return True
    return False
