"""C06 - a dead or misbehaving connection fails calls promptly: no hang, no residue."""
from analysis.flow import must_cross, return_points, term_pt, definitely_init, init_at_point, yields, trace_op
from analysis.guards import facts_at, field_writes
from analysis.mir import callee_matches, op_place, rv_operands
from analysis.sym import Sym, render, is_call, const_val, walk
from rules.common import texts, blocks_assigning_variant, ok_fact, option_fact

EXPLANATION = (
    "Decided structurally for the three clients: (loop-exit-fails-all) every way out of a response loop crosses "
    "fail_all_pending, except the listed exits on which no client handle is left (Weak::upgrade() == None) or an orderly "
    "shutdown was signalled (Drop of the inner state fails the waiters itself); fail_all_pending drains the whole pending map "
    "and sends an Err into every drained sender, and crosses the close of the write side so later calls fail instead of "
    "blocking; (write-failure-returns) a call waits for a response only on the Ok edge of its own write, and every receive-"
    "side failure (timeout, closed channel) is mapped to Err; (notify-closed-on-loss) the WebSocket fail_all_pending always "
    "empties the notify slot, which ends the subscriber's stream; (write-failure-must-poison, cancellable-write-section: shared with C05) a failed, timed-out or abandoned request write leaves the client poisoned, so a later call fails promptly instead of writing into a torn frame and waiting forever; (shutdown-wakes-reader) every TcpStream::shutdown in the blocking client (failed write, reader death, Drop) shuts both directions, which is what wakes the reader thread parked in read(); (loss-signal-ends-loop) in each response loop the edges on which the frame read reports an error, the stream ends, or (WebSocket) a frame is undecodable never lead back to another read - the only retry is io::ErrorKind::Interrupted on the blocking read - and decode_websocket_frame maps a peer Close frame to Err and skips nothing but Ping/Pong/raw frames; (pending-removed-on-abandon) in the blocking client every "
    "non-success arm of the wait and the write-failure path cross remove_pending(id); in the async and WebSocket clients "
    "the PendingRequestGuard is live (never moved or forgotten) across every later await and return, its Drop removes the "
    "key unless disarmed, and disarm happens only after a response was received. Late responses are discarded without "
    "touching other entries (C04 deliver-by-key). Not decided: promptness as wall-clock time, races of expiry against "
    "arrival, byte-offset fault injection. Observation (not a finding, outside the quantifier): the async and WebSocket "
    "fail_all_pending take the writer lock before draining, so a writer stalled on a full socket delays failing the waiters."
    " (late-response-only-misses-the-lookup, shared with C04) a late response is discarded only by missing the pending lookup - nothing filters responses in front of it; the guard's Drop adds to no collection."
    ' Guards that travel through a slot value and a vector of slots still belong to the coroutine frame as long as every guard-carrying value only moves between locals, collection locals and mem::drop (forget, leak, spawn, send or any non-std callee ends that); for a burst writer no receiver is polled on a path that left a write of the burst through its Err edge.'
)
ASSUMPTIONS = ["dropping an mpsc/oneshot Sender wakes its receiver with a Disconnected/RecvError", "tokio::spawn tasks run to completion or are dropped with the runtime"]

LOOPS = (
    ("client", "client::spawn_response_loop::{closure#0}", "client::fail_all_pending", False),
    ("async_client", "async_client::spawn_response_loop::{closure#0}", "async_client::fail_all_pending::{closure#0}", True),
    ("websocket_client", "websocket_client::spawn_response_loop::{closure#0}", "websocket_client::fail_all_pending::{closure#0}", True),
)
# exits of a response loop that need not fail the waiters: one line per exception
EXIT_EXCEPTIONS = {
    "upgrade-none": "Weak::upgrade() returned None: every client handle is gone, Drop for the inner state already failed/cleared the waiters",
    "shutdown-signal": "first branch of the select!: the shutdown oneshot fired from Drop for AsyncClientInner, which drains pending itself",
}


def _wait_helper_rules(facts, R, wb):
    ws = Sym(wb)
    rmw = [term_pt(wb, i) for i, t in wb.calls() if callee_matches(t["callee"], "client::Client::remove_pending") and ws.op(t["args"][1]) == ("arg", 2, "id")]
    errs = blocks_assigning_variant(wb, "std::result::Result", "Err")
    R.floor("pending-removed-on-abandon", len(errs), 1, "failure rows of wait_for_response")
    # every failed receive (timeout, disconnected) leads to the return only through remove_pending(id)
    has = set()
    for x in sorted(wb.live_blocks()):
        for f in facts_at(wb, ws, facts, x):
            if str(f["val"]) == "Err" and not f.get("derived") and is_call(f["expr"], "recv", "recv_timeout"):
                has.add(x)
    preds = wb.preds()
    recv_fail = [(x, 0) for x in sorted(has) if any(p_ not in has for p_ in preds.get(x, []))]   # entry blocks of the failure regions
    R.floor("pending-removed-on-abandon", len({p_[0] for p_ in recv_fail}) and len([1 for i, t in wb.calls() if t["callee"]["name"] in ("recv", "recv_timeout")]), 2,
            "receive calls in wait_for_response with a failure edge")
    w = must_cross(wb, recv_fail, return_points(wb), rmw, after_start=False)
    R.check(w is None and bool(recv_fail), "pending-removed-on-abandon", wb.path, "failed receive removes the entry",
            "a timed-out / disconnected receive reaches the return without remove_pending(id)", wb.span, "remove_pending(id) on every failure edge", path=w)
    for i, j, s in errs:
        w = must_cross(wb, [(0, 0)], [(i, j)], rmw, after_start=False)
        R.check(w is None, "pending-removed-on-abandon", wb.path, "failure row removes the entry",
                "a timed-out / disconnected wait returns an error but leaves its entry in the pending map", s.get("span"), "remove_pending(id) before Err", path=w)
    # every other row returns exactly what the receiver delivered
    rows = [(i, j, s) for i, j, s in wb.assigns() if s["place"]["l"] == 0 and not s["place"]["p"] and s["rv"].get("agg") != "adt"]
    for i, j, s in rows:
        v = ws.rvalue(s["rv"])
        ok = v[0] == "field" and v[2] == "0" and v[1][0] == "variant" and v[1][2] == "Ok" and is_call(v[1][1], "recv", "recv_timeout")
        R.check(ok, "write-failure-returns", wb.path, "success row is the received value", "wait_for_response returns %s" % render(v), s.get("span"), render(v))
    # a receive that fails is never turned into Ok
    oks = blocks_assigning_variant(wb, "std::result::Result", "Ok")
    R.check(not oks, "write-failure-returns", wb.path, "no fabricated Ok", "wait_for_response builds an Ok value itself", wb.span)



def _inline_wait_rules(facts, R, cb, cs, waits, rm):
    """The same obligations when the receive sits in the call function: every failure edge of a receive reaches the return
    only through remove_pending, and what goes on to validation is what the receiver delivered."""
    from analysis.guards import _variants_for_discr
    from analysis.sym import switch_alternatives
    recv_fail = []
    wbbs = {i for i, _ in waits}
    for x in sorted(cb.live_blocks()):
        t = cb.term(x)
        if t["k"] != "switch" or t.get("on_ty") == "bool":
            continue
        vm = _variants_for_discr(cb, facts, t, x)
        if not vm or "Err" not in vm.values():
            continue
        for e in switch_alternatives(cs, x):
            if e[0] == "discr" and e[1][0] == "call" and len(e[1]) > 3 and e[1][3] in wbbs:
                listed = {vm.get(v, str(v)): tb for v, tb in t["targets"]}
                tb = listed.get("Err", t.get("otherwise"))
                if tb is not None and not (cb.term(tb)["k"] == "unreachable" and not cb.blocks[tb]["stmts"]):
                    recv_fail.append((tb, 0))
    R.floor("pending-removed-on-abandon", len(set(recv_fail)), len(waits), "receive calls in call_with_body_and_timeout with a failure edge")
    w = must_cross(cb, recv_fail, return_points(cb), rm, after_start=False)
    R.check(w is None and bool(recv_fail) and bool(rm), "pending-removed-on-abandon", cb.path, "failed receive removes the entry",
            "a timed-out / disconnected receive reaches the return without remove_pending(id)", cb.span, "remove_pending(id) on every failure edge", path=w)
    vals = [(i, t) for i, t in cb.calls() if callee_matches(t["callee"], "client::Client::validate_response")]
    R.check(len(vals) == 1, "write-failure-returns", cb.path, "one validation", "validate_response calls: %d" % len(vals), cb.span)
    for i, t in vals:
        from analysis.sym import split_rows
        alts = split_rows(cs, i, len(cb.blocks[i]["stmts"]), {"use": t["args"][-1]}) or [({}, cs.op(t["args"][-1]))]
        ok = all(any(x[0] == "call" and len(x) > 3 and x[3] in wbbs for x in walk(v)) and "as Ok" in render(v) for _, v in alts)
        R.check(ok, "write-failure-returns", cb.path, "success row is the received value", "validate_response is given %s" % [render(v)[:120] for _, v in alts], t.get("span"),
                "the Ok payload of the receive")


def _inline_fail_rules(facts, R, module, lb, ls, fails, stops):
    """fail_all_pending written out inside the response loop: same obligations, on the blocks reachable from the drain."""
    from analysis.flow import in_cycle
    after = set()
    work = [p[0] for p in fails]
    while work:
        x = work.pop()
        if x in after:
            continue
        after.add(x)
        work.extend(lb.succs(x))
    adapters = [t["callee"]["name"] for i, t in lb.calls() if i in after and t["callee"].get("trait") == "std::iter::Iterator"
                and t["callee"]["name"] not in ("collect", "next")]
    R.check(not adapters, "loop-exit-fails-all", lb.path, "no waiter is skipped", "the drained waiters pass through %s before being failed" % adapters, lb.span,
            "drain().collect() then a plain for loop")
    sends = [(i, t) for i, t in lb.calls() if i in after and i not in {p[0] for p in fails} and t["callee"]["name"] == "send" and ("Sender" in t["callee"]["path"])]
    ok_send = len(sends) == 1
    det = ""
    for i, t in sends:
        a1 = ls.op(t["args"][1])
        det = render(a1)[:120]
        ok_send = ok_send and a1[0] == "agg" and a1[2] == "Err" and in_cycle(lb, i) and "Some" in render(ls.op(t["args"][0]))
    R.check(ok_send, "loop-exit-fails-all", lb.path, "each drained waiter gets Err", "sends after the drain: %d %s" % (len(sends), det), lb.span,
            "one send(Err(..)) per drained entry, inside the loop over the drained entries")
    closers = [term_pt(lb, i) for i, t in lb.calls() if t["callee"]["name"] in ("shutdown", "close_writer", "close")]
    w = must_cross(lb, [(0, 0)], return_points(lb), closers, after_start=False, stop=stops)
    R.check(bool(closers) and w is None, "reader-death-closes-writer", lb.path, "write side closed",
            "the response loop can end without shutting the write side: later calls would write into a dead connection and wait", lb.span,
            "shutdown/close crossed on all exits that fail the waiters", path=w)
    if module == "websocket_client":
        tk = [term_pt(lb, i) for i, t in lb.calls() if callee_matches(t["callee"], "websocket_client::take_notify_sender")]
        w = must_cross(lb, [(0, 0)], return_points(lb), tk, after_start=False, stop=stops)
        R.check(bool(tk) and w is None, "notify-closed-on-loss", lb.path, "notify slot emptied",
                "the notification subscriber is not told that the socket died (its recv() parks forever)", lb.span, "take_notify_sender on all exits", path=w)


def _frame_owned(facts, b, module):
    """Every local whose type can hold a PendingRequestGuard moves only into another local of this body, into a collection local, or into
    mem::drop: ownership never leaves the coroutine frame, so each guard is dropped on every exit (return, error, cancellation)."""
    G = module + "::PendingRequestGuard"
    carriers = {G}
    changed = True
    while changed:
        changed = False
        for p_, a_ in facts.adts.items():
            if p_ in carriers or not p_.startswith(module + "::"):
                continue
            if any(any(c_ in (f_.get("ty") or "") for c_ in carriers) for v_ in a_.get("variants", []) for f_ in v_["fields"]):
                carriers.add(p_)
                changed = True
    def carries(ty):
        return any(c_ in ty for c_ in carriers)
    ALLOWED = ("push", "push_back", "extend", "into_iter", "next", "drop", "insert", "replace", "take", "map", "and_then", "collect", "branch", "from_residual", "unwrap", "expect")
    for i, bl in enumerate(b.blocks):
        t = bl["term"]
        if t["k"] != "call":
            continue
        if t.get("inlined_future"):
            continue
        for o in t["args"]:
            pl = o.get("move")
            if pl is None or not carries(b.local_ty(pl["l"])) or pl["p"] and not carries(str(pl)):
                continue
            if b.local_ty(pl["l"]).startswith(("&", "*")) and not pl["p"]:
                continue        # (a borrow of a carrier: ownership stays where it was)
            nm = t["callee"]["name"]
            std_ = t["callee"]["path"].startswith(("std::", "core::", "alloc::", "<std::", "<core::", "<alloc::"))
            if nm in ("forget", "leak", "into_raw", "spawn", "send", "try_send") or "ManuallyDrop" in t["callee"]["path"]:
                return False, "%s moves a guard-carrying value into %s" % (b.path, t["callee"]["path"])
            if not (std_ and nm in ALLOWED):
                return False, "%s hands a guard-carrying value to %s" % (b.path, t["callee"]["path"])
    return True, None


def run(facts, R):
    # a timed-out / cancelled call's late response is discarded *by the pending lookup missing*, nothing else: a filter in front
    # of the lookup also discards the answers of live calls (C04's rule, shared)
    from rules.C04 import every_response_is_looked_up
    every_response_is_looked_up(facts, R, "late-response-only-misses-the-lookup")
    has_ws = "websocket" in facts.features
    for module, loopfn, failfn, is_async in LOOPS:
        if module == "websocket_client" and not has_ws:
            continue
        lb = facts.body(loopfn)
        ls = Sym(lb)
        fails = [term_pt(lb, i) for i, t in lb.calls() if callee_matches(t["callee"], module + "::fail_all_pending")]
        # fail_all_pending merged into the loop: the fail-all event is the drain of the pending map, and the obligations on the
        # helper's body are read off the loop body (the part reachable from the drain)
        inline_fail = not fails and not facts.has_body(failfn) and lb.changed
        if inline_fail:
            fails = [term_pt(lb, i) for i, t in lb.calls() if t["callee"]["name"] == "drain" and "HashMap" in t["callee"]["path"]]
            R.note("%s: no fail_all_pending helper; the drain of the pending map in %s is taken as the fail-all event" % (module, loopfn))
        R.floor("loop-exit-fails-all", len(fails), 1, "fail_all_pending calls in " + loopfn)
        stops = []
        used = set()
        for x in sorted(lb.live_blocks()):
            fs = facts_at(lb, ls, facts, x)
            for f in fs:
                if f["val"] == "None" and is_call(f["expr"], "upgrade"):
                    stops.append((x, 0))
                    used.add("upgrade-none")
                if f["val"] == "_0" and "poll_fn" in render(f["expr"]) and _first_select_future_is_shutdown(lb, ls):
                    stops.append((x, 0))
                    used.add("shutdown-signal")
        if "shutdown-signal" in used:
            # the exception's premise, checked: the shutdown oneshot is taken / fired only by Drop for the inner state (when no handle
            # and therefore no call is left).  A `close()` that fires it while clones have calls in flight ends the loop through the
            # exempted exit with the waiters still parked
            for b_ in facts.bodies.values():
                if b_.path.split("::")[0].lstrip("<") != module or "::tests::" in b_.path:
                    continue
                s_ = None
                for i_, t_ in b_.calls():
                    if t_["callee"]["name"] in ("take", "send", "replace", "take_if") and t_["args"]:
                        s_ = s_ or Sym(b_)
                        a0 = render(s_.op(t_["args"][0]))
                        if ".shutdown" in a0 and "writer" not in a0 and t_["callee"]["name"] != "send" or (t_["callee"]["name"] == "send" and ".shutdown" in a0 and "oneshot" in t_["callee"]["path"]):
                            in_drop = " as std::ops::Drop>::drop" in b_.path
                            after = [term_pt(b_, j_) for j_, u_ in b_.calls() if u_["callee"]["name"] in ("fail_all_pending", "drain") and j_ in b_.reachable((i_,))]
                            okx = in_drop or (bool(after) and must_cross(b_, [term_pt(b_, i_)], return_points(b_), after) is None)
                            R.check(okx, "loop-exit-fails-all", b_.path, "the shutdown signal is fired only when no call can be in flight",
                                    "%s takes / fires the response loop's shutdown signal outside Drop and does not fail the pending calls itself: the loop leaves through "
                                    "its exempted shutdown exit while other handles still have calls in flight, and those calls wait forever"
                                    % b_.path.rsplit("::", 2)[-2 if "{closure" in b_.path else -1], t_.get("span"), "only Drop for the inner state")
        for u in sorted(used):
            R.exception("loop-exit-fails-all", loopfn + ":" + u, EXIT_EXCEPTIONS[u])
        w = must_cross(lb, [(0, 0)], return_points(lb), fails, after_start=False, stop=stops)
        R.check(w is None, "loop-exit-fails-all", lb.path, "every exit fails the waiters",
                "the response loop can end without fail_all_pending: calls in flight would wait forever", lb.span,
                "all returns cross fail_all_pending (exceptions used: %s)" % sorted(used), path=w)
        # ---- loss-signal-ends-loop: once the connection reported loss, the loop never reads again
        loss_signal_rule(facts, R, module, lb, ls)
        # ---- fail_all_pending itself
        if inline_fail:
            _inline_fail_rules(facts, R, module, lb, ls, fails, stops)
            continue
        fb = facts.body(failfn)
        fsym = Sym(fb)
        drains = [(i, t) for i, t in fb.calls() if t["callee"]["name"] == "drain" and "HashMap" in t["callee"]["path"]]
        R.check(len(drains) == 1, "loop-exit-fails-all", fb.path, "drains the whole pending map", "fail_all_pending has %d drain() calls" % len(drains), fb.span)
        adapters = [t["callee"]["name"] for i, t in fb.calls() if t["callee"].get("trait") == "std::iter::Iterator"
                    and t["callee"]["name"] not in ("collect", "next", "map", "enumerate", "rev", "inspect", "by_ref", "for_each")]     # one-to-one adapters lose nobody
        R.check(not adapters, "loop-exit-fails-all", fb.path, "no waiter is skipped", "the drained waiters pass through %s before being failed" % adapters, fb.span,
                "drain().collect() then a plain for loop")
        sends = [(i, t) for i, t in fb.calls() if t["callee"]["name"] == "send" and ("Sender" in t["callee"]["path"])]
        ok_send = len(sends) == 1
        det = ""
        for i, t in sends:
            a1 = fsym.op(t["args"][1])
            det = render(a1)[:120]
            ok_send = ok_send and a1[0] == "agg" and a1[2] == "Err"
            from analysis.flow import in_cycle
            ok_send = ok_send and in_cycle(fb, i)
            # the sender is the iterator item's .1
            snd = render(fsym.op(t["args"][0]))
            ok_send = ok_send and "Some" in snd
        R.check(ok_send, "loop-exit-fails-all", fb.path, "each drained waiter gets Err", "sends: %d %s" % (len(sends), det), fb.span, "one send(Err(..)) per drained entry, inside the loop over the drained entries")
        upg_stop = [(x, 0) for x in sorted(fb.live_blocks()) if any(f["val"] == "None" and is_call(f["expr"], "upgrade") for f in facts_at(fb, fsym, facts, x))]
        if drains:
            w = must_cross(fb, [(0, 0)], return_points(fb), [term_pt(fb, drains[0][0])], after_start=False, stop=upg_stop)
            R.check(w is None, "loop-exit-fails-all", fb.path, "drain on every path", "fail_all_pending can return without draining the waiters", fb.span, path=w)
        # close of the write side
        closers = [term_pt(fb, i) for i, t in fb.calls() if t["callee"]["name"] in ("shutdown", "close_writer", "close")]
        w = must_cross(fb, [(0, 0)], return_points(fb), closers, after_start=False, stop=upg_stop)
        R.check(bool(closers) and w is None, "reader-death-closes-writer", fb.path, "write side closed",
                "fail_all_pending does not shut the write side on every path: later calls would write into a dead connection and wait", fb.span,
                "shutdown/close crossed on all paths", path=w)
        if module == "websocket_client":
            tk = [term_pt(fb, i) for i, t in fb.calls() if callee_matches(t["callee"], "websocket_client::take_notify_sender")]
            w = must_cross(fb, [(0, 0)], return_points(fb), tk, after_start=False, stop=upg_stop)
            R.check(bool(tk) and w is None, "notify-closed-on-loss", fb.path, "notify slot emptied",
                    "the notification subscriber is not told that the socket died (its recv() parks forever)", fb.span, "take_notify_sender on all paths", path=w)
            tb = facts.body("websocket_client::take_notify_sender")
            ts = Sym(tb)
            takes = [(i, t) for i, t in tb.calls() if t["callee"]["name"] == "take" and "Option" in t["callee"]["path"]]
            okt = len(takes) == 1 and "notify_tx" in render(ts.op(takes[0][1]["args"][0]))
            R.check(okt, "notify-closed-on-loss", tb.path, "slot.take()", "take_notify_sender does not take() the notify_tx slot", tb.span)
            # the subscriber's stream ends when the *last sender is dropped*, not when the slot is emptied: the sender taken out of
            # the slot must be gone before fail_all_pending waits for anything (the close handshake can stall behind a blocked writer
            # for as long as the peer does not read).  No sender-typed value may be live across an await of fail_all_pending.
            initf = definitely_init(fb)
            held = []
            for y in yields(fb):
                live_ = init_at_point(fb, initf, term_pt(fb, y))
                for l_ in sorted(live_):
                    ty_ = fb.local_ty(l_)
                    if "UnboundedSender<" in ty_ and not ty_.startswith("&") and "Arc<" not in ty_ and "WebSocketClientInner" not in ty_:
                        held.append((y, fb.debug_name(l_) or "_%d" % l_))
            R.check(not held, "notify-closed-on-loss", fb.path, "notify sender dropped before the close handshake is awaited",
                    "the sender taken out of the notify slot is still alive while fail_all_pending awaits (%s): the subscriber's recv() does not see end-of-stream "
                    "until the close handshake finishes, which a stalled writer can delay indefinitely" % sorted({n_ for _, n_ in held}), fb.span,
                    "no UnboundedSender value live across an await")

    # ---------------- shutdown-wakes-reader: the blocking client's reader thread is parked in read(); only shutting the
    # *read* side down (Shutdown::Both) wakes it so that fail_all_pending runs; a half-close of the write side leaves the
    # calls in flight waiting for a peer that may never close
    n_sd = 0
    for b in facts.bodies.values():
        if not (b.path.startswith("client::") or b.path.startswith("<client::")):
            continue
        bs = Sym(b)
        for i, t in b.calls():
            if callee_matches(t["callee"], "std::net::TcpStream::shutdown") and len(t["args"]) == 2:
                n_sd += 1
                how = render(bs.op(t["args"][1]))
                R.check(how.startswith("Shutdown::Both"), "shutdown-wakes-reader", b.path, "socket shut down in both directions",
                        "the connection is shut down with %s: the reader thread stays blocked in read(), fail_all_pending does not run and calls in flight hang "
                        "until the peer closes" % how, t.get("span"), how)
    R.floor("shutdown-wakes-reader", n_sd, 2, "TcpStream::shutdown calls in the blocking client")

    # ---------------- write-failure-returns + pending-removed-on-abandon ---------------------------------
    # blocking client
    cb = facts.body("client::Client::call_with_body_and_timeout")
    cs = Sym(cb)
    inline_wait = "client::Client::wait_for_response" not in facts.bodies
    if inline_wait:
        # the receive lives in the call function itself (its helper was folded in / replaced by a side-effect-free one)
        waits = [(i, t) for i, t in cb.calls() if t["callee"]["name"] in ("recv", "recv_timeout") and "mpsc" in t["callee"]["path"]]
        R.check(1 <= len(waits) <= 2, "write-failure-returns", cb.path, "one wait", "found %d receive calls" % len(waits), cb.span)
    else:
        waits = [(i, t) for i, t in cb.calls() if callee_matches(t["callee"], "client::Client::wait_for_response")]
        R.check(len(waits) == 1, "write-failure-returns", cb.path, "one wait", "found %d wait_for_response calls" % len(waits), cb.span)
    for i, t in waits:
        fs = facts_at(cb, cs, facts, i)
        ok = ok_fact(fs, lambda e: is_call(e, "client::Client::write_request"))
        R.check(ok, "write-failure-returns", cb.path, "wait only after a successful write",
                "the call waits for a response although its write failed; guards: %s" % texts(fs), t.get("span"), "guarded by write_request == Ok")
    # write failure path removes the entry
    wr = [(i, t) for i, t in cb.calls() if callee_matches(t["callee"], "client::Client::write_request")]
    rm = [term_pt(cb, i) for i, t in cb.calls() if callee_matches(t["callee"], "client::Client::remove_pending")]
    for i, t in wr:
        err_blocks = [x for x in sorted(cb.live_blocks()) if any(f["val"] in ("Err", "Break") and any(y[0] == "call" and y[3] == i for y in walk(f["expr"])) for f in facts_at(cb, cs, facts, x))]
        heads = [x for x in err_blocks if not any(p in err_blocks for p in cb.preds()[x])]
        R.check(bool(heads), "pending-removed-on-abandon", cb.path, "write failure arm found", "no Err arm for write_request", t.get("span"))
        # a later re-test of the same result (`r.inspect_err(..)?`: the Err arm ran the clean-up, then `?` sees Err again) starts no
        # new failure path: judge from the write itself - every way to a return passes the success edge or the removal
        ok_blocks = [(x, 0) for x in sorted(cb.live_blocks()) if any(f["val"] in ("Ok", "Continue") and any(y[0] == "call" and len(y) > 3 and y[3] == i for y in walk(f["expr"]))
                                                                      for f in facts_at(cb, cs, facts, x))]
        if getattr(cb, "changed", False) and heads:
            w0 = must_cross(cb, [term_pt(cb, i)], return_points(cb), rm + ok_blocks)
            if w0 is None:
                R.ok("pending-removed-on-abandon", cb.path, "write failure removes the pending entry", t.get("span"), "remove_pending(id) crossed")
                continue
        for h in heads:
            w = must_cross(cb, [(h, 0)], return_points(cb), rm, after_start=False)
            R.check(bool(rm) and w is None, "pending-removed-on-abandon", cb.path, "write failure removes the pending entry",
                    "a failed write returns with the waiter still registered (residue in the pending map)", t.get("span"), "remove_pending(id) crossed", path=w)
    if inline_wait:
        _inline_wait_rules(facts, R, cb, cs, waits, rm)
    wb = facts.body("client::Client::wait_for_response") if not inline_wait else None
    if wb is not None:
        _wait_helper_rules(facts, R, wb)

    # async + ws clients: guard discipline
    for module, fns in (("async_client", ("async_client::AsyncClient::call_with_body_and_timeout::{closure#0}",
                                           "async_client::AsyncClient::forward_message_with_optional_timeout::{closure#0}")),
                        ("websocket_client", ("websocket_client::WebSocketClient::call_with_body_and_timeout::{closure#0}",))):
        if module == "websocket_client" and not has_ws:
            continue
        # ... and every other function of the module that registers a guard (a forward / batch sibling added later): same discipline
        extra = sorted(p_ for p_, b_ in facts.bodies.items() if p_.split("::")[0] == module and p_ not in fns and "::tests::" not in p_
                       and any(callee_matches(t_["callee"], module + "::PendingRequestGuard::register") for _, t_ in b_.calls()))
        for p_ in extra:
            R.note("derived guarded call function of %s: %s" % (module, p_))
        for fn in tuple(fns) + tuple(extra):
            b = facts.body(fn)
            s = Sym(b)
            regs = [(i, t) for i, t in b.calls() if callee_matches(t["callee"], module + "::PendingRequestGuard::register")]
            if len(regs) != 1:
                R.bad("pending-removed-on-abandon", b.path, "register", "expected one PendingRequestGuard::register, found %d" % len(regs), b.span)
                continue
            ri, rt = regs[0]
            gl = [l for l in range(len(b.locals)) if b.local_ty(l) == module + "::PendingRequestGuard"]
            # where is each guard-typed local moved to?  (bb, dest local or None)
            moves = {l: [] for l in gl}
            for i, bl in enumerate(b.blocks):
                for st in bl["stmts"]:
                    if st["k"] == "assign":
                        for o in rv_operands(st["rv"]):
                            if "move" in o and not o["move"]["p"] and o["move"]["l"] in moves:
                                dst = st["place"]["l"] if not st["place"]["p"] and "use" in st["rv"] else None
                                moves[o["move"]["l"]].append((st.get("span"), dst))
                t = bl["term"]
                if t["k"] == "call" and not t.get("inlined_future"):
                    # (a guard handed to an `async fn` helper that was inlined at its await is still the caller's: the helper's
                    # code, including where it drops the guard, is part of this body now)
                    for o in t["args"]:
                        if "move" in o and not o["move"]["p"] and o["move"]["l"] in moves:
                            moves[o["move"]["l"]].append((t.get("span"), None))
            holders = [l for l in gl if not moves[l]]
            escaped = [(l, m) for l in gl for m in moves[l] if m[1] not in gl]
            frame_owned = False
            if (len(holders) != 1 or escaped) and fn in extra:
                # a burst: the guards travel inside a slot value through a vector of slots.  They still belong to this coroutine's frame -
                # and are dropped with it on every exit - as long as every value that can hold a guard only ever moves into another local, a
                # collection local (push / extend / into_iter / next) or mem::drop, and never into a call that could keep or forget it
                frame_owned, why_not = _frame_owned(facts, b, module)
                if frame_owned:
                    R.ok("pending-removed-on-abandon", b.path, "guards stay in the coroutine frame", b.span, "every guard-carrying value moves only between locals and collection locals of this frame")
            if not frame_owned:
                R.check(len(holders) == 1 and not escaped, "pending-removed-on-abandon", b.path, "guard never moved/forgotten",
                        "the PendingRequestGuard is moved out of its variable (%s): its Drop may not run when the call is cancelled" % escaped, b.span,
                        "guard ends in one variable that is never moved; the compiler drops it on every exit")
            if len(holders) != 1 and not frame_owned:
                continue
            init = definitely_init(b)
            n = 0
            for y in yields(b):
                if y in b.reachable((ri,)):
                    n += 1
                    if frame_owned:
                        continue        # (owned by the frame at every point: whichever local holds a guard is dropped with the frame)
                    # (the guard may sit in the variable it was registered into or, later, in the one it was moved to)
                    R.check(any(l_ in init_at_point(b, init, term_pt(b, y)) for l_ in gl), "pending-removed-on-abandon", b.path, "guard live across await #%d" % n,
                            "an await after registration is not covered by the PendingRequestGuard: cancelling there leaves the entry behind",
                            b.term(y).get("span"), "guard live")
            R.floor("pending-removed-on-abandon", n, 2, "await points after registration in " + b.path)
            # wait only after successful write
            wr = [(i, t) for i, t in b.calls() if t["callee"]["name"] == "write_request"]
            recv_fields = {f_["name"] for p_, a_ in facts.adts.items() if p_.startswith(module + "::") and a_.get("kind") in ("struct", "enum") and a_.get("variants")
                           for v_ in a_["variants"] for f_ in v_["fields"] if "oneshot::Receiver<" in (f_.get("ty") or "")}

            def _recv_text(txt):
                # the response receiver: the second half of the oneshot channel, or a Receiver-typed field of a private struct
                # (`PendingCall { receiver, guard }` returned by register)
                return "oneshot::channel().1" in txt or any(("." + f_) in txt for f_ in recv_fields)
            polls_recv = [(i, t) for i, t in b.calls() if t["callee"]["name"] == "poll" and _recv_text(render(s.op(t["args"][0])))]
            R.floor("write-failure-returns", len(polls_recv), 1, "receiver polls in " + b.path)
            own_w = [i_ for i_, t_ in b.calls() if t_["callee"]["name"].startswith("write_message") or (t_["callee"]["name"] == "flush" and "writer" in render(s.op(t_["args"][0])))] if not wr else []
            if own_w:
                # a burst writer: no receiver is polled on a path that left one of the burst's writes through its Err edge
                errh = []
                for x_ in sorted(b.live_blocks()):
                    for f_ in facts_at(b, s, facts, x_):
                        if str(f_["val"]) in ("Err", "Break") and any(y_[0] == "call" and len(y_) > 3 and y_[3] in own_w for y_ in walk(f_["expr"])):
                            errh.append((x_, 0))
                wpth = must_cross(b, errh, [term_pt(b, i_) for i_, _ in polls_recv], [], after_start=False) if errh else None
                R.check(bool(errh) and wpth is None, "write-failure-returns", b.path, "wait only after a successful write",
                        "a response is awaited although a write of the burst failed", b.span, "no receiver poll reachable from a failed write", path=wpth)
            for i, t in (polls_recv if not own_w else []):
                fs = facts_at(b, s, facts, i)
                ok = ok_fact(fs, lambda e: any(y[0] == "call" and "write_request" in y[1] for y in walk(e)))
                R.check(ok, "write-failure-returns", b.path, "wait only after a successful write",
                        "the call awaits its response although the write failed; guards: %s" % [x[:80] for x in texts(fs)], t.get("span"), "guarded by write_request(..).await == Ok")
            # disarm only after a response was received
            dis = [(i, t) for i, t in b.calls() if callee_matches(t["callee"], module + "::PendingRequestGuard::disarm")]
            R.check(len(dis) == 1, "pending-removed-on-abandon", b.path, "one disarm", "found %d disarm calls" % len(dis), b.span)
            for i, t in dis:
                fs = facts_at(b, s, facts, i)
                def from_receiver(e):
                    if _recv_text(render(e)):
                        return True
                    for x in walk(e):
                        if x[0] == "local":
                            ds = [d for d in b.defs_of(x[1]) if d[0] == "assign"]
                            # (a definition that builds an Err literal cannot be the value behind an Ok fact)
                            ds = [d for d in ds if not (d[3].get("agg") == "adt" and d[3].get("variant") == "Err")] or ds
                            if ds and all(_recv_text(render(s.rvalue(d[3]))) for d in ds):
                                return True
                            # through temporaries assigned on several paths (rewritten combinators): every reaching combination
                            from analysis.sym import split_rows
                            if ds and all(all(_recv_text(render(v)) for _, v in (split_rows(s, d[1], d[2], d[3]) or [({}, ("unknown", "?"))])) for d in ds):
                                return True
                    return False
                from analysis.guards import fact_alternatives
                got = all(any(f["val"] in ("Ok", "Continue") and from_receiver(f["expr"]) for f in alt) for alt in fact_alternatives(b, s, facts, i))
                R.check(got, "pending-removed-on-abandon", b.path, "disarm only after a response arrived",
                        "the guard is disarmed on a path where no response was received: a timeout/cancel would leave the entry", t.get("span"),
                        "dominated by the Ok value of the response receiver")
        # Drop impl of the guard
        dp = facts.body("<%s::PendingRequestGuard as std::ops::Drop>::drop" % module)
        ds = Sym(dp)
        rms = [(i, t) for i, t in dp.calls() if t["callee"]["name"] == "remove" and "HashMap" in t["callee"]["path"]]
        R.check(len(rms) == 1, "pending-removed-on-abandon", dp.path, "Drop removes the key", "Drop has %d removes" % len(rms), dp.span)
        # ... and leaves nothing else behind: an abandoned call that records itself somewhere (a set of abandoned ids, a log of
        # late ids, a counter map) is residue that outlives the call and that something will later act on
        grows = [(i, t) for i, t in dp.calls() if t["callee"]["name"] in ("insert", "push", "push_back", "push_front", "extend", "entry", "append", "or_insert", "or_insert_with")
                 and any(k in t["callee"]["path"] for k in ("HashMap", "HashSet", "BTreeMap", "BTreeSet", "Vec", "VecDeque"))]
        R.check(not grows, "pending-removed-on-abandon", dp.path, "an abandoned call leaves nothing behind",
                "dropping the guard of an abandoned call adds to a collection through %s: the record outlives the call (the property's `leaves nothing behind`), "
                "and whatever reads it later acts on a call that no longer exists" % [t["callee"]["path"].rsplit("::", 2)[-2:] for _, t in grows][:3], grows[0][1].get("span") if grows else dp.span,
                "Drop only removes")
        for i, t in rms:
            key = ds.op(t["args"][1])
            fs = facts_at(dp, ds, facts, i)
            okk = key[0] == "field" and key[2] == "request_id"
            gadt = module + "::PendingRequestGuard"
            gflds = facts.adt_fields(gadt)
            flag = vrm = None
            for f in fs:
                if f["expr"][0] == "field" and f["expr"][2] in gflds and isinstance(f["val"], bool):
                    flag, vrm = f["expr"][2], f["val"]
                elif f["expr"][0] == "field" and f["expr"][2] in gflds and isinstance(f["val"], str) and getattr(dp, "changed", False):
                    # the flag as a private two-variant enum (`state: GuardState::{Armed, Disarmed}`)
                    fty = [x_.get("ty") for x_ in facts.adts[gadt]["variants"][0]["fields"] if x_["name"] == f["expr"][2]]
                    ea = facts.adts.get(fty[0]) if fty else None
                    if ea is not None and ea.get("kind") == "enum" and len(ea.get("variants") or []) == 2 and f["val"] in [v_["name"] for v_ in ea["variants"]]:
                        flag, vrm = f["expr"][2], f["val"]
            okd = flag is not None
            # one Option<u64> in place of (id, disarmed): Drop removes the id while the slot is Some, disarm() empties it
            opt = None
            if key[0] == "field" and key[2] == "0" and key[1][0] == "variant" and key[1][2] == "Some" and key[1][1][0] == "field" and key[1][1][2] in gflds \
                    and any(f["val"] == "Some" and f["expr"] == key[1][1] for f in fs):
                opt = key[1][1][2]
            if opt is not None:
                from analysis.guards import struct_constructions
                R.ok("pending-removed-on-abandon", dp.path, "remove(self.request_id) unless disarmed", t.get("span"), "pending.remove(id) while `%s` is Some(id)" % opt)
                for cb, ci, cj, cst in struct_constructions(facts, gadt):
                    init = dict(zip(cst["rv"]["fields"], cst["rv"]["ops"])).get(opt)
                    iv = Sym(cb).op(init) if init is not None else None
                    R.check(iv is not None and iv[0] == "agg" and iv[2] == "Some", "pending-removed-on-abandon", cb.path, "guard starts armed",
                            "a PendingRequestGuard is built with %s = %s: its Drop would not remove the entry" % (opt, render(iv) if iv else None), cst.get("span"), "%s = Some(id)" % opt)
                for w in field_writes(facts, gadt, opt):
                    okw = w["body"].path == gadt + "::disarm"
                    if okw and w["kind"] == "store":
                        wv = Sym(w["body"]).rvalue(w["rv"])
                        okw = wv[0] == "agg" and wv[2] == "None"
                    R.check(okw, "pending-removed-on-abandon", w["body"].path, "flag flipped only by disarm()",
                            "`%s` is written outside disarm() or to an arming value" % opt, w["span"])
                continue
            R.check(okk and okd, "pending-removed-on-abandon", dp.path, "remove(self.request_id) unless disarmed",
                    "Drop removes %s under %s" % (render(key), texts(fs)), t.get("span"), "pending.remove(self.request_id) on the `%s == %s` edge" % (flag, vrm))
            if flag is None:
                continue
            # ... and whenever the guard is still armed: the armed/disarmed flag is the *only* thing that may keep Drop from removing
            # the entry (any further condition - "only if our sender is closed", "only if present" - leaves the entry of a call
            # that was abandoned before that condition became true)
            off_blocks = [(x, 0) for x in sorted(dp.live_blocks())
                          if any(f["expr"][0] == "field" and f["expr"][2] == flag and (f["val"] is (not vrm) if isinstance(vrm, bool) else (isinstance(f["val"], str) and f["val"] != vrm))
                                 for f in facts_at(dp, ds, facts, x))]
            wdp = must_cross(dp, [(0, 0)], return_points(dp), [term_pt(dp, i)], after_start=False, stop=off_blocks)
            R.check(wdp is None, "pending-removed-on-abandon", dp.path, "an armed guard always removes its entry",
                    "Drop of an armed PendingRequestGuard can return without pending.remove(self.request_id): a call abandoned on that path leaves its entry "
                    "(and a later request under the same id is refused or mis-delivered)", t.get("span"), "remove crossed on every path with %s == %s" % (flag, vrm), path=wdp)
            # the flag starts in the removing state and only disarm() flips it
            from analysis.guards import struct_constructions
            for cb, ci, cj, cst in struct_constructions(facts, gadt):
                init = dict(zip(cst["rv"]["fields"], cst["rv"]["ops"])).get(flag)
                iv = const_val(Sym(cb).op(init)) if init is not None else None
                if not isinstance(vrm, bool):
                    ive = Sym(cb).op(init) if init is not None else None
                    R.check(ive is not None and ive[0] == "agg" and ive[2] == vrm, "pending-removed-on-abandon", cb.path, "guard starts armed",
                            "a PendingRequestGuard is built with %s = %s: its Drop would not remove the entry" % (flag, render(ive) if ive else None), cst.get("span"), "%s = %s" % (flag, vrm))
                    continue
                R.check(iv is not None and bool(iv) == vrm, "pending-removed-on-abandon", cb.path, "guard starts armed",
                        "a PendingRequestGuard is built with %s = %s: its Drop would not remove the entry" % (flag, iv), cst.get("span"), "%s = %s" % (flag, vrm))
            for w in field_writes(facts, gadt, flag):
                okw = w["body"].path == gadt + "::disarm"
                if okw and w["kind"] == "store" and not isinstance(vrm, bool):
                    wve = Sym(w["body"]).rvalue(w["rv"])
                    okw = wve[0] == "agg" and isinstance(wve[2], str) and wve[2] != vrm
                elif okw and w["kind"] == "store":
                    wv = const_val(Sym(w["body"]).rvalue(w["rv"]))
                    okw = wv is not None and bool(wv) == (not vrm)
                R.check(okw, "pending-removed-on-abandon", w["body"].path, "flag flipped only by disarm()",
                        "`%s` is written outside disarm() or to the arming value" % flag, w["span"])

    # ---------------- a torn or abandoned request write poisons the connection (shared with C05): otherwise the next call
    # writes into the middle of the old frame, the server never answers it and it blocks forever
    from analysis import report as _report
    from rules import C05 as _c05
    sub = _report.Report(R.prop, R.tier, R.config)
    try:
        _c05.run(facts, sub)
    except Exception as e:     # C05's own anchors: reported by C05; here only its client-side verdicts are borrowed
        sub.bad("anchor-resolution", "<crate>", "shared-C05-rules", "the shared write-poisoning rules could not run: %s" % e)
    keep = ("write-failure-must-poison", "cancellable-write-section", "anchor-resolution")
    for inst in sub.instances:
        if inst["rule"] in keep and inst["verdict"] == "holds":
            R.instances.append(inst)
    for v in sub.violations:
        if v["rule"] in keep:
            R.bad(v["rule"], v["fn"], v["what"], v["msg"], v.get("site"), v.get("path"))

    # Drop for the blocking client's inner state fails its waiters (backs the upgrade-none exception)
    for path, mod in (("<client::ClientInner as std::ops::Drop>::drop", "client"),):
        dp = facts.body(path)
        ds = Sym(dp)
        dr = [(i, t) for i, t in dp.calls() if t["callee"]["name"] == "drain"]
        sn = [(i, t) for i, t in dp.calls() if t["callee"]["name"] == "send"]
        R.check(len(dr) == 1 and len(sn) == 1, "loop-exit-fails-all", dp.path, "Drop drains and fails waiters", "drain=%d send=%d" % (len(dr), len(sn)), dp.span,
                "backs the upgrade-none exit exception")


READ_FNS = ("io::read_message", "async_io::read_message_async", "futures_util::StreamExt::next", "websocket_client::decode_websocket_frame")
LOSS_WRAPPERS = ("poll", "poll_fn", "new", "new_unchecked", "into_future", "get_context", "as_mut", "get_mut", "deref_mut")
LOSS_EXCEPTIONS = {
    "interrupted-retry": "io::ErrorKind::Interrupted from the blocking read is a signal interruption (EINTR), not a lost connection: the read is retried",
}


def _read_result_fact(f):
    """A discriminant fact that talks about the frame-read result itself (possibly through await/select wrappers)."""
    names = [x[1] for x in walk(f["expr"]) if x[0] == "call"]
    if not any(n in READ_FNS for n in names):
        return False
    return all(n in READ_FNS or n.rsplit("::", 1)[-1] in LOSS_WRAPPERS for n in names)


def loss_signal_rule(facts, R, module, lb, ls):
    reads = [term_pt(lb, i) for i, t in lb.calls() if t["callee"]["path"] in READ_FNS[:3]]
    R.floor("loss-signal-ends-loop", len(reads), 1, "frame reads in " + lb.path)
    loss, stops, used = [], [], set()
    kinds = set()
    for x in sorted(lb.live_blocks()):
        for f in facts_at(lb, ls, facts, x):
            txt = render(f["expr"])
            only_interrupted = (f["val"] is True and is_call(f["expr"], "eq") and "Interrupted" in txt) or \
                               (is_call(f["expr"], "kind") and (f["val"] == "Interrupted" or f["val"] == ("in", ["Interrupted"])))
            if only_interrupted and "read_message" in txt:
                stops.append((x, 0))
                used.add("interrupted-retry")
    # edge level: the successor each test of the read / decode result takes for its loss variant (the arm may be shared with
    # other paths, e.g. when the read and the decode sit in one helper whose Err exits were specialised)
    from analysis.guards import _variants_for_discr
    from analysis.sym import switch_alternatives
    # what the frame decoder answers for a peer Close frame is a loss signal whatever the answer's type is called
    # (`Err(..)`, or a variant of a private result enum): taken from the decoder's own rows
    dec_loss, dec_rows = {"Err"}, []
    if module == "websocket_client" and "websocket_client::decode_websocket_frame" in facts.bodies:
        from rules.common import value_rows as _vr
        db_ = facts.body("websocket_client::decode_websocket_frame")
        dec_rows = _vr(db_, Sym(db_), facts, 0)
        for g_, v_ in dec_rows:
            if any("Close" in x_ for x_ in g_) and not v_.startswith("Result::"):
                dec_loss.add(v_.split("{", 1)[0].rsplit("::", 1)[-1])
    for x in sorted(lb.live_blocks()):
        t = lb.term(x)
        if t["k"] != "switch" or t.get("on_ty") == "bool":
            continue
        vm = _variants_for_discr(lb, facts, t, x)
        if not vm:
            continue
        for e in switch_alternatives(ls, x):
            if e[0] != "discr" or not _read_result_fact({"expr": e[1]}):
                continue
            is_dec = "decode_websocket_frame" in render(e[1])
            listed = {vm.get(v, str(v)): tb for v, tb in t["targets"]}
            for name in (("Err", "None") if not is_dec else tuple(sorted(dec_loss))):
                if name not in vm.values() or (name == "None" and is_dec):
                    continue
                tb = listed.get(name, t.get("otherwise"))
                if tb is None or (lb.term(tb)["k"] == "unreachable" and not lb.blocks[tb]["stmts"]):
                    continue
                loss.append((tb, 0))
                kinds.add((name if not is_dec else "Err", "decode" if is_dec else "read"))
    want = {"client": 1, "async_client": 1, "websocket_client": 3}[module]
    R.floor("loss-signal-ends-loop", len(kinds), want, "distinct loss signals (read Err / end of stream / undecodable frame) in " + lb.path)
    for u in sorted(used):
        R.exception("loss-signal-ends-loop", lb.path + ":" + u, LOSS_EXCEPTIONS[u])
    w = must_cross(lb, loss, reads, [], after_start=False, stop=stops)
    R.check(w is None, "loss-signal-ends-loop", lb.path, "no further read after a loss signal",
            "after a read error / end of stream / undecodable frame the response loop goes back to reading (blocks %s): the waiters are not failed while the "
            "connection is already gone" % w, lb.span, "loss edges %s never reach a read again (exceptions: %s)" % (sorted(set(loss))[:6], sorted(used)), path=w)
    if module == "websocket_client":
        db = facts.body("websocket_client::decode_websocket_frame")
        from rules.common import value_rows
        rows = value_rows(db, Sym(db), facts, 0)
        close_rows = [(g, v) for g, v in rows if any("Close" in x for x in g)]
        loss_heads = ("Result::Err",) + tuple(n_ for n_ in dec_loss if n_ != "Err")
        R.check(bool(close_rows) and all(v.startswith("Result::Err") or v.split("{", 1)[0].rsplit("::", 1)[-1] in loss_heads for g, v in close_rows),
                "loss-signal-ends-loop", db.path, "a Close frame is a loss signal",
                "decode_websocket_frame maps a peer Close frame to %s: the loop keeps waiting on a connection the peer has closed" % [v[:40] for g, v in close_rows],
                db.span, "Close -> Err")
        # rows that carry nothing to the loop (Ok(None), or a payload-free variant that is not the loss variant)
        ignored = [g for g, v in rows if v == "Result::Ok{0: Option::None{}}" or (v.endswith("{}") and not v.startswith("Result::") and v.split("{", 1)[0].rsplit("::", 1)[-1] not in dec_loss)]
        okset = all(set(_variants(x)) <= {"Ping", "Pong", "Frame"} for g in ignored for x in g if "arg1 is" in x)
        R.check(okset, "loss-signal-ends-loop", db.path, "only keep-alive frames are skipped", "frames skipped without effect: %s" % ignored, db.span, "skipped: Ping/Pong/Frame")


def _variants(text):
    import re
    return re.findall(r"[A-Z][A-Za-z]+", text.split(" is ", 1)[1]) if " is " in text else []


def _first_select_future_is_shutdown(b, s):
    for i, t in b.calls():
        if t["callee"]["name"] == "poll_fn":
            e = s.op(t["args"][0])
            for x in walk(e):
                if x[0] == "agg" and x[1] == "tuple" and x[3]:
                    return "shutdown" in render(x[3][0][1])
    return False
