"""C12 - a parked producer is always woken (mutex + condvar monitor discipline in src/stream.rs).

The four rules are the classical sufficient conditions for absence of lost wake-ups on a
mutex/condition-variable monitor: wait-in-loop, same-monitor, notify-after-enabling-write,
timeout-at-deadline.
"""
from analysis.flow import must_cross, return_points, term_pt, in_cycle
from analysis.guards import facts_at, field_writes, _mentions_field
from analysis.mir import op_place, rv_operands, callee_matches
from analysis.sym import Sym, render, is_call, walk, const_val
from rules.common import site, option_fact, texts, blocks_assigning_variant

INNER = "stream::TransferControlInner"
TC = "stream::TransferControl"
WAITERS = (TC + "::wait_for_credit", TC + "::wait_for_reconnect")

# one line per exception, one symbol each
EXCEPTIONS = {
    (TC + "::record_sent", "sent_offset"):
        "the store is guarded monotone-increasing (C11 sent-monotone) and can only falsify the credit predicate "
        "(in_flight grows); no waiter's condition can become true because of it",
}

EXPLANATION = (
    "Monitor discipline for TransferControl{inner: Mutex, cv: Condvar}: (1) every condvar wait sits in a cycle and "
    "every path from the wait to a return re-reads the predicate fields through the re-acquired guard; (2) the wait "
    "uses self.cv with the guard of self.inner and no untimed wait exists; (3) every store or mutable borrow of a "
    "predicate field (the set is derived: fields of TransferControlInner read inside a waiting cycle) outside the "
    "waiters is followed on all paths to return by notify_all/notify_one on self.cv (or preceded by one under the "
    "same held guard); (4) Timeout is returned only on the now>=deadline edge and the wait duration is deadline-now. "
    "Under std Condvar semantics (spurious wake-ups allowed) these conditions imply no lost wake-up. "
    "Not decided: wall-clock latency."
    " Waiters are derived from the condvar wait sites; (test-and-wait under one critical section) on every path from an acquisition of the mutex to the wait the predicate chain is re-entered at its head, a head being a read of the chain's first field that dominates a read of every other field."
    ' notify iff acked.saturating_sub(before) > 0 is one of the notify-iff-changed forms.'
)
ASSUMPTIONS = [
    "std::sync::Condvar::wait_timeout atomically releases the mutex and parks; notify_all wakes all parked threads",
    "Instant is monotone",
]


def _reads_of_inner(body, blocks):
    fields = set()
    for i in blocks:
        bl = body.blocks[i]
        for s in bl["stmts"]:
            if s["k"] != "assign":
                continue
            rv = s["rv"]
            places = []
            for k in ("ref", "discr"):
                if k in rv:
                    places.append(rv[k])
            for o in rv_operands(rv):
                p = op_place(o)
                if p is not None:
                    places.append(p)
            for p in places:
                for e in p["p"]:
                    if isinstance(e, dict) and e.get("a") == INNER:
                        fields.add(e["f"])
    return fields


def _wait_calls(body):
    return body.call_sites(lambda c: callee_matches(c, "std::sync::Condvar::wait_timeout", "std::sync::Condvar::wait",
                                                     "std::sync::Condvar::wait_while", "std::sync::Condvar::wait_timeout_while"))


def _waker_types(facts):
    """ADTs whose Drop impl calls notify_all / notify_one on a condvar they hold"""
    out = set()
    for p_, db_ in facts.bodies.items():
        if p_.startswith("<stream::") and p_.endswith(" as std::ops::Drop>::drop"):
            if any(callee_matches(t["callee"], "std::sync::Condvar::notify_all", "std::sync::Condvar::notify_one") for _, t in db_.calls()):
                out.add(p_[1:].split(" as ", 1)[0].split("<")[0])
    return out


def _waker_locals(facts, b, sym):
    """locals of b that hold an RAII waker built from self.cv"""
    wt = _waker_types(facts)
    if not wt:
        return []
    out = []
    for i, j, st in b.assigns():
        rv = st["rv"]
        if rv.get("agg") == "adt" and rv.get("adt") in wt and not st["place"]["p"] and i in b.live_blocks():
            v = sym.rvalue(rv)
            if any(x[0] == "field" and x[2] == "cv" and x[1][0] in ("arg", "call") for x in walk(v)):
                out.append(st["place"]["l"])
    # the literal may be built into a temporary and moved into the named variable
    moved = []
    for i, j, st in b.assigns():
        rv = st["rv"]
        if "use" in rv and op_place(rv["use"]) and not op_place(rv["use"])["p"] and op_place(rv["use"])["l"] in out and not st["place"]["p"]:
            moved.append(st["place"]["l"])
    return out + moved


def _is_capped_ack(b, sym, e):
    """a local holding the capped acknowledgement: each of its definitions is the ack argument, sent_offset, or min of the two"""
    if not (isinstance(e, tuple) and e and e[0] == "local"):
        return False
    defs = b.defs_of(e[1])
    if not defs:
        return False
    for d in defs:
        if d[0] != "assign":
            v = sym.op({"copy": {"l": e[1], "p": []}}) if len(defs) == 1 else None
            if v is None or not (is_call(v, "min") and any(y[0] == "arg" for y in walk(v))):
                return False
            continue
        v = sym.rvalue(d[3])
        ok = v[0] == "arg" or (v[0] == "field" and v[2] == "sent_offset") or (is_call(v, "min") and any(y[0] == "arg" for y in walk(v)))
        if not ok:
            return False
    return True


def run(facts, R):
    tc = facts.adt(TC)
    fields = [f["name"] for f in tc["variants"][0]["fields"]]
    if "cv" not in fields or "inner" not in fields:
        raise Exception("TransferControl no longer has {inner, cv}")

    # ---- who waits on the condvar at all (A4) ------------------------------------------------
    all_waits = []
    for b in facts.bodies.values():
        if not b.path.startswith("stream::"):
            continue
        for i, t in _wait_calls(b):
            all_waits.append((b, i, t))
    R.floor("wait-in-loop", len(all_waits), 2, "condvar wait sites in stream.rs")
    predicate_fields = set()
    for b, i, t in all_waits:
        fn = b.path
        sym = Sym(b)
        name = t["callee"]["path"].rsplit("::", 1)[-1]
        R.check(name == "wait_timeout", "same-monitor", fn, "timed-wait",
                "untimed or predicate-closure wait `%s` is not covered by the deadline rule" % name, t.get("span"),
                "wait_timeout")
        if b.path not in WAITERS:
            # a waiter added later (a sibling such as `reserve_credit`): every rule below is applied to it as to the listed ones
            R.note("derived waiter: %s" % fn)
        R.ok("same-monitor", fn, "known-waiter", t.get("span"), "listed" if b.path in WAITERS else "derived from its condvar wait")
        # (1) in a cycle
        R.check(in_cycle(b, i), "wait-in-loop", fn, "wait-in-cycle",
                "condvar wait is not inside a loop: a spurious or early wake-up is taken as the event", t.get("span"),
                "wait call lies on a CFG cycle")
        # the cycle's blocks
        cyc = [x for x in b.reachable((t["target"],)) if i in b.reachable((x,))] if t["target"] is not None else []
        pf = _reads_of_inner(b, cyc)
        predicate_fields |= pf
        # every path wait -> return goes back through the head of the test chain: the earliest predicate read
        # (the read that dominates every other predicate read and the wait itself) is crossed again, and no
        # TransferControlInner field is read outside the cycle (a hoisted read would be a stale predicate).
        reads = []
        for x in sorted(b.live_blocks()):
            for j, s in enumerate(b.blocks[x]["stmts"]):
                if s["k"] == "assign":
                    rv = s["rv"]
                    pls = [rv[k] for k in ("ref", "discr") if k in rv] + [p for p in (op_place(o) for o in rv_operands(rv)) if p]
                    for p in pls:
                        for e in p["p"]:
                            if isinstance(e, dict) and e.get("a") == INNER:
                                reads.append((x, j, e["f"]))
        # (a read after the loop - the predicate run once more after the final timed-out wake-up - is fresh, not hoisted)
        outside = [r for r in reads if r[0] not in cyc and i in b.reachable((r[0],))]
        # a field that nothing in the crate stores to or borrows mutably after construction cannot go stale: hoisting its read is sound
        frozen = {f_ for f_ in {r[2] for r in outside} if not field_writes(facts, INNER, f_)}
        if frozen:
            R.note("%s reads %s before its waiting loop; no store or mutable borrow of these fields exists in the crate" % (fn, sorted(frozen)))
        outside = [r for r in outside if r[2] not in frozen]
        R.check(not outside, "wait-in-loop", fn, "reads-inside-loop",
                "predicate state %s is read outside the waiting loop (stale after a wake-up)" % sorted({r[2] for r in outside}),
                t.get("span"), "%d reads of TransferControlInner fields, all inside the waiting cycle" % len(reads))
        dom_reads = [r for r in reads if r[0] in cyc and b.dominates(r[0], i)]
        first = None
        for r in dom_reads:
            if all(b.dominates(r[0], o[0]) and (r[0] != o[0] or r[1] <= o[1]) for o in dom_reads):
                first = r
                break
        if first is None:
            R.bad("wait-in-loop", fn, "retest", "no predicate read dominates the condvar wait", t.get("span"))
        else:
            # the head of the chain is the read of its first field; a second copy of the chain (the predicate run again after the
            # last wake-up) starts with the same read
            # (a read of that field that is not followed by the rest of the chain - `if guard.cancelled.is_none() { return Ok(()) }`
            # after the wake-up - is no re-test: a head dominates a read of every other field of the chain)
            chain_f = {r[2] for r in dom_reads} - {first[2]}

            def _is_head(r):
                if (r[0], r[1]) == (first[0], first[1]):
                    return True
                return all(any(o[2] == f_ and b.dominates(r[0], o[0]) and (r[0] != o[0] or r[1] <= o[1]) for o in reads) for f_ in chain_f)
            heads_ = [(r[0], r[1]) for r in reads if r[2] == first[2] and _is_head(r)]
            w = must_cross(b, [term_pt(b, i)], return_points(b), heads_)
            R.check(w is None, "wait-in-loop", fn, "retest-from-head",
                    "after the condvar wait a return is reachable without re-running the predicate chain from its "
                    "head (read of `%s`)" % first[2], t.get("span"),
                    "every path wait->return re-enters the test chain at the read of `%s`; chain reads: %s"
                    % (first[2], [r[2] for r in dom_reads]), path=w)
            # ... and the monitor is not left between the test and the wait: whenever the mutex is (re)acquired, the predicate chain is
            # run from its head before the thread parks.  A helper that drops the guard to call out (a hook, a log sink) and locks
            # again just before `wait_timeout` opens a window in which the event and its notify happen with nobody waiting.
            locks_ = [term_pt(b, li) for li, lt in b.calls() if callee_matches(lt["callee"], "std::sync::Mutex::<T>::lock") or
                      (lt["callee"]["name"] in ("lock", "try_lock") and "Mutex" in lt["callee"]["path"])]
            w2 = must_cross(b, locks_, [term_pt(b, i)], heads_) if locks_ else None
            R.check(bool(locks_) and w2 is None, "wait-in-loop", fn, "test-and-wait under one critical section",
                    "the mutex can be acquired and the thread parked on the condvar without the predicate being tested in between (the guard was "
                    "released and re-taken after the test): an event that lands in that window notifies nobody and the waiter sleeps to its deadline",
                    t.get("span"), "every lock -> wait path re-enters the test chain at the read of `%s`" % first[2], path=w2)
        # (2) same monitor: cv argument is self.cv, guard comes from self.inner.lock() or a previous wait
        cv = sym.op(t["args"][0])
        R.check(cv[0] == "field" and cv[2] == "cv" and cv[1][0] == "arg" and cv[1][1] == 1, "same-monitor", fn, "cv-is-self.cv",
                "waits on %s, not on self.cv" % render(cv), t.get("span"), render(cv))
        g = op_place(t["args"][1])
        ok = False
        why = ""
        if g is not None:
            from analysis.flow import trace_place
            origs = trace_place(b, g)
            ok = bool(origs)
            for o in origs:
                if o.kind == "call":
                    c = o.info["callee"]
                    if callee_matches(c, "std::sync::Mutex::<T>::lock"):
                        a0 = Sym(b).op(o.info["args"][0])
                        if not (a0[0] == "field" and a0[2] == "inner" and a0[1][0] == "arg" and a0[1][1] == 1):
                            ok = False
                            why = "guard of %s" % render(a0)
                    elif callee_matches(c, "std::sync::Condvar::wait_timeout", "std::result::Result::<T, E>::expect", "std::result::Result::<T, E>::unwrap"):
                        # expect(lock()) / expect(wait_timeout()) are followed through by the transparent trace below
                        inner = Sym(b).op(o.info["args"][0])
                        txt = render(inner)
                        if "Mutex::lock(self.inner)" not in txt and "wait_timeout" not in txt:
                            ok = False
                            why = txt
                    else:
                        ok = False
                        why = c["path"]
                else:
                    ok = False
                    why = repr(o)
        R.check(ok, "same-monitor", fn, "guard-is-self.inner",
                "the guard handed to the wait does not come from self.inner.lock() / a previous wait: %s" % why, t.get("span"),
                "guard originates from self.inner.lock() or the previous wait")

    # ---- (2b) a credit-freeing resume frees the credit: an accepted resume at `last` with acked < last <= sent (the trailing
    # edge `last == sent` included - the receiver has everything and the whole window is free) must store acked_offset := last
    # before it notifies; otherwise the producer wakes, re-tests unchanged offsets and parks again until its deadline.  Every
    # accepting path either crosses the store or lies behind an edge that says `last <= acked` or `last > sent`.
    from rules.common import cmp_facts
    rr = facts.body(TC + "::request_resume")
    rsym = Sym(rr)

    def _fld(e, f):
        return isinstance(e, tuple) and e and e[0] == "field" and e[2] == f
    st_pts = [(w["bb"], w["idx"]) for w in field_writes(facts, INNER, "acked_offset") if w["body"] is rr and w["kind"] == "store"]
    skip_pts = []
    for x in sorted(rr.live_blocks()):
        for (o, a, b2) in cmp_facts(facts_at(rr, rsym, facts, x)):
            if (o == "Le" and a[0] == "arg" and _fld(b2, "acked_offset")) or (o == "Lt" and _fld(a, "sent_offset") and b2[0] == "arg"):
                skip_pts.append((x, 0))
    err_pts = [(i, j) for i, j, _ in blocks_assigning_variant(rr, "std::result::Result", "Err")]
    err_pts += [term_pt(rr, i) for i, t in rr.calls() if t["callee"]["name"] == "from_residual"]
    w = must_cross(rr, [(0, 0)], return_points(rr), st_pts + skip_pts, after_start=False, stop=err_pts)
    R.check(bool(st_pts) and w is None, "notify-after-enabling-write", rr.path, "an accepted resume inside (acked, sent] releases its credit",
            "request_resume can accept a resume without storing acked_offset on a path not known to have last <= acked or last > sent (e.g. the trailing edge "
            "last == sent): the waiting producer is woken but finds no credit and sleeps on until its deadline", rr.span,
            "store crossed, or edge last<=acked / last>sent", path=w)

    # ... and the same for an acknowledgement: record_ack stores acked_offset := min(ack, sent) whenever the ack is for the current
    # file and that value is above acked_offset; the only edges that may skip the store say `file_index != current` or
    # `min(ack, sent) <= acked`
    ra = facts.body(TC + "::record_ack")
    asym = Sym(ra)
    a_st = [(w["bb"], w["idx"]) for w in field_writes(facts, INNER, "acked_offset") if w["body"] is ra and w["kind"] == "store"]
    a_skip = []
    for x in sorted(ra.live_blocks()):
        for (o, a, b2) in cmp_facts(facts_at(ra, asym, facts, x)):
            other_file = o == "Ne" and ((a[0] == "arg" and _fld(b2, "current_file_index")) or (b2[0] == "arg" and _fld(a, "current_file_index")))
            stale = o == "Le" and _fld(b2, "acked_offset") and (any(y[0] == "arg" for y in walk(a)) or _is_capped_ack(ra, asym, a))
            if other_file or stale:
                a_skip.append((x, 0))
    w = must_cross(ra, [(0, 0)], return_points(ra), a_st + a_skip, after_start=False)
    R.check(bool(a_st) and w is None, "notify-after-enabling-write", ra.path, "a fresh acknowledgement for the current file releases its credit",
            "record_ack can return without storing acked_offset on a path not known to have file_index != current or ack <= acked: the credit stays taken "
            "and the waiting producer sleeps on until its deadline", ra.span, "store crossed, or edge other-file / stale", path=w)

    # ---- (3) notify after enabling write ---------------------------------------------------------
    R.note("derived predicate fields: " + ", ".join(sorted(predicate_fields)))
    for need in ("cancelled", "acked_offset", "sent_offset", "pending_resume"):
        R.check(need in predicate_fields, "notify-after-enabling-write", "<crate>", "predicate-field:" + need,
                "field %s is no longer read inside a waiting loop (rule tables out of date)" % need)
    n_sites = 0
    for f in sorted(predicate_fields):
        for w in field_writes(facts, INNER, f):
            b = w["body"]
            fn = b.path
            if fn in WAITERS or any(wb_ is b for wb_, _, _ in all_waits):
                continue  # a waiter consuming state cannot be its own waker
            if (fn, f) in EXCEPTIONS:
                R.exception("notify-after-enabling-write", "%s:%s" % (fn, f), EXCEPTIONS[(fn, f)])
                R.ok("notify-after-enabling-write", fn, "exception:" + f, w["span"], EXCEPTIONS[(fn, f)], trivial=True)
                continue
            if f == "sent_offset" and w["kind"] == "store":
                from rules.C11 import sent_store_is_monotone
                if sent_store_is_monotone(facts, b, w):
                    R.ok("notify-after-enabling-write", fn, "exception:" + f, w["span"], "monotone-increasing store: it can only falsify the credit predicate (in_flight grows)", trivial=True)
                    continue
            n_sites += 1
            notifies = [(i, t) for i, t in b.calls() if callee_matches(t["callee"], "std::sync::Condvar::notify_all", "std::sync::Condvar::notify_one")]
            good_n = []
            sym = Sym(b)
            for i, t in notifies:
                cv = sym.op(t["args"][0])
                if cv[0] == "field" and cv[2] == "cv":
                    good_n.append(term_pt(b, i))
            # an RAII waker: a local whose type's Drop notifies the condvar it was built with (`WakeOnDrop(&self.cv)`) notifies
            # where it is dropped (scope end or an explicit drop)
            for wl_ in _waker_locals(facts, b, sym):
                for i_ in sorted(b.live_blocks()):
                    t_ = b.term(i_)
                    if t_["k"] == "drop" and not t_["place"]["p"] and t_["place"]["l"] == wl_:
                        good_n.append(term_pt(b, i_))
                    if t_["k"] == "call" and callee_matches(t_["callee"], "std::mem::drop", "core::mem::drop") and t_["args"]:
                        q_ = op_place(t_["args"][0])
                        if q_ is not None and q_["l"] == wl_:
                            good_n.append(term_pt(b, i_))
            wpath = must_cross(b, [(w["bb"], w["idx"])], return_points(b), good_n)
            if wpath is not None and w["kind"] == "store":
                # the notify may be deferred behind a flag (`advanced = true` next to the store, `if advanced { notify }` after a loop over a
                # batch): once the store has happened the flag is true and nothing sets it back, so the flag's False edge is not a way out
                flags_ = set()
                for j_, st_ in enumerate(b.blocks[w["bb"]]["stmts"]):
                    if st_["k"] == "assign" and not st_["place"]["p"] and b.local_ty(st_["place"]["l"]) == "bool" and "use" in st_["rv"] \
                            and const_val(sym.op(st_["rv"]["use"])) == 1:
                        flags_.add(st_["place"]["l"])
                reach_ = b.reachable((w["bb"],))
                for l_ in list(flags_):
                    for x_ in reach_:
                        for st_ in b.blocks[x_]["stmts"]:
                            if st_["k"] == "assign" and not st_["place"]["p"] and st_["place"]["l"] == l_ and not ("use" in st_["rv"] and const_val(sym.op(st_["rv"]["use"])) == 1):
                                flags_.discard(l_)
                if flags_:
                    dead_ = []
                    for x_ in sorted(b.live_blocks()):
                        t_ = b.term(x_)
                        if t_["k"] == "switch" and (op_place(t_["on"]) or {}).get("l") in flags_ and not (op_place(t_["on"]) or {}).get("p"):
                            for v_, tb_ in t_["targets"]:
                                if v_ == 0:
                                    dead_.append((tb_, 0))
                            if not any(v_ == 0 for v_, _ in t_["targets"]) and t_.get("otherwise") is not None and any(v_ == 1 for v_, _ in t_["targets"]):
                                dead_.append((t_["otherwise"], 0))
                    if dead_:
                        wpath = must_cross(b, [(w["bb"], w["idx"])], return_points(b), good_n, stop=dead_)
            if wpath is not None and w["kind"] == "store":
                # `let before = g.f; .. stores .. ; if g.f - before > 0 { notify }` (or `g.f != before`): the notify is skipped only when the
                # field did not change; after a store (which the C11 rules require to be strictly increasing) it did.  The evaluator
                # reads `before` as the field itself, so the test shows up as a comparison of the field with itself
                def _selfcmp(e_):
                    if e_[0] != "bin" or e_[1] not in ("Gt", "Ne", "Lt", "Eq", "Le", "Ge"):
                        return False
                    l_, r_ = e_[2], e_[3]
                    if l_[0] == "field" and l_[2] == "0" and l_[1][0] == "bin" and l_[1][1] in ("SubWithOverflow", "Sub"):
                        return render(l_[1][2]).endswith("." + f) and render(l_[1][2]) == render(l_[1][3]) and const_val(r_) == 0
                    if l_[0] == "bin" and l_[1] == "Sub":
                        return render(l_[2]).endswith("." + f) and render(l_[2]) == render(l_[3]) and const_val(r_) == 0
                    if l_[0] == "call" and l_[1].rsplit("::", 1)[-1] in ("saturating_sub", "wrapping_sub", "abs_diff") and len(l_[2]) == 2:
                        return render(l_[2][0]).endswith("." + f) and render(l_[2][0]) == render(l_[2][1]) and const_val(r_) == 0
                    return render(l_).endswith("." + f) and render(l_) == render(r_)
                dead2 = []
                for x_ in sorted(b.live_blocks()):
                    for f_ in facts_at(b, sym, facts, x_):
                        unchanged = (f_["expr"][1] in ("Gt", "Ne", "Lt") and f_["val"] is False) or (f_["expr"][1] in ("Eq", "Le", "Ge") and f_["val"] is True) if f_["expr"][0] == "bin" else False
                        if unchanged and _selfcmp(f_["expr"]) and not any(_selfcmp(f2["expr"]) for q_ in b.preds().get(x_, []) for f2 in facts_at(b, sym, facts, q_)):
                            dead2.append((x_, 0))
                if dead2:
                    wpath = must_cross(b, [(w["bb"], w["idx"])], return_points(b), good_n, stop=dead2)
            if wpath is not None and w["kind"] == "mut-borrow":
                # `let previous = mem::replace(&mut g.f, new); if new != previous { notify }`: the swap is a store of `new`, and the notify is
                # skipped only when the value did not change
                reps_ = [(ri_, rt_) for ri_, rt_ in b.calls() if callee_matches(rt_["callee"], "std::mem::replace", "core::mem::replace") and len(rt_["args"]) == 2
                         and render(sym.op(rt_["args"][0])).endswith("." + f)]
                if len(reps_) == 1:
                    ri_, rt_ = reps_[0]
                    newv = sym.op(rt_["args"][1])
                    dead3 = []
                    for x_ in sorted(b.live_blocks()):
                        for f_ in facts_at(b, sym, facts, x_):
                            e_ = f_["expr"]
                            if e_[0] == "bin" and e_[1] in ("Ne", "Eq") and ((e_[1] == "Ne" and f_["val"] is False) or (e_[1] == "Eq" and f_["val"] is True)):
                                sides = (e_[2], e_[3])
                                if any(x__ == newv for x__ in sides) and any(x__[0] == "call" and len(x__) > 3 and x__[3] == ri_ for x__ in sides):
                                    dead3.append((x_, 0))
                    if dead3:
                        wpath = must_cross(b, [term_pt(b, ri_)], return_points(b), good_n, stop=dead3)
            before = False
            if wpath is not None:
                # accept a notify that dominates the store with the guard held in between
                for (nb, ni) in good_n:
                    if b.dominates(nb, w["bb"]) and nb != w["bb"]:
                        drops = [term_pt(b, i) for i, bl in enumerate(b.blocks) if bl["term"]["k"] == "drop"
                                 and "MutexGuard" in b.local_ty(bl["term"]["place"]["l"])]
                        if must_cross(b, [(nb, ni)], [(w["bb"], w["idx"])], []) is not None and \
                                must_cross(b, [(nb, ni)], drops, [(w["bb"], w["idx"])]) is None:
                            before = True
            R.check(wpath is None or before, "notify-after-enabling-write", fn, "%s:%s" % (w["kind"], f),
                    "`%s` is modified (%s) and a return is reachable without notify on self.cv: a parked producer "
                    "would sleep until its deadline" % (f, w["kind"]), w["span"],
                    "all paths store->return cross cv.notify", path=wpath)
    R.floor("notify-after-enabling-write", n_sites, 7, "predicate-field writes outside the waiters")

    # ---- (4) timeout at deadline -------------------------------------------------------------------
    for wp_ in WAITERS:
        facts.body(wp_)
    TIMEOUTS = {"stream::CreditError": "Timeout", "stream::ReconnectOutcome": "Timeout"}
    for path in list(WAITERS) + sorted({wb_.path for wb_, _, _ in all_waits} - set(WAITERS)):
        b = facts.body(path)
        sym = Sym(b)
        touts = []
        adt, variant = None, "Timeout"
        for i, j, s in b.assigns():
            rv = s["rv"]
            if rv.get("agg") == "adt" and TIMEOUTS.get(rv["adt"]) == rv["variant"]:
                touts.append((i, j, s))
                adt = rv["adt"]
        if getattr(b, "changed", False):
            # the value may be built ahead of time (`.unwrap_or(Err(Timeout))`): what counts is where it becomes the result
            at_return = []
            for i, j, s in b.assigns():
                if s["place"]["l"] == 0 and not s["place"]["p"] and i in b.live_blocks():
                    v = sym.at(i, j).rvalue(s["rv"])
                    if any(x[0] == "agg" and x[1] == adt and x[2] == variant for x in walk(v)):
                        at_return.append((i, j, s))
            if at_return:
                touts = at_return
        R.floor("timeout-at-deadline", len(touts), 1, "Timeout exits of " + b.name)
        deadline_txt = None
        for i, j, s in touts:
            fs = facts_at(b, sym, facts, i)
            ok = False
            for f in fs:
                e, v = f["expr"], f["val"]
                if v is True and is_call(e, "ge") and len(e[2]) == 2:
                    now, dl = e[2]
                    if is_call(now, "std::time::Instant::now", "Instant::now"):
                        ok = True
                        deadline_txt = render(dl)
                if v is False and is_call(e, "lt") and len(e[2]) == 2 and is_call(e[2][0], "Instant::now"):
                    ok = True
                    deadline_txt = render(e[2][1])
                # remaining = deadline.saturating_duration_since(now); remaining.is_zero()  <=>  now >= deadline
                if v is True and is_call(e, "is_zero") and e[2] and is_call(e[2][0], "saturating_duration_since", "checked_duration_since") and len(e[2][0][2]) == 2 \
                        and is_call(e[2][0][2][1], "Instant::now"):
                    ok = True
                    deadline_txt = render(e[2][0][2][0])
            for f in fs:
                e, v = f["expr"], f["val"]
                if v is True and is_call(e, "timed_out"):
                    for x in walk(e):
                        if is_call(x, "wait_timeout") and len(x[2]) == 3 and (is_call(x[2][2], "saturating_duration_since") or is_call(x[2][2], "sub")) \
                                and len(x[2][2][2]) == 2 and is_call(x[2][2][2][1], "Instant::now"):
                            nowbb, wbb = x[2][2][2][1][3], x[3]
                            # the remaining time is recomputed for this very wait: the clock is read on the cycle of the wait
                            if wbb in b.reachable((nowbb,)) and nowbb in b.reachable((wbb,)):
                                ok = True
                                deadline_txt = render(x[2][2][2][0])
            R.check(ok, "timeout-at-deadline", b.path, "Timeout-guard",
                    "Timeout is returned on a path not guarded by `Instant::now() >= deadline`; guards: %s" % texts(fs), s.get("span"),
                    "Timeout only on now >= deadline")
        for i, t in _wait_calls(b):
            if len(t["args"]) < 3:
                continue
            d = sym.op(t["args"][2])
            if getattr(b, "changed", False):
                from analysis.sym import split_rows
                alts = split_rows(sym, i, len(b.blocks[i]["stmts"]), {"use": t["args"][2]})
                if alts and len(alts) == 1:
                    d = alts[0][1]
                elif alts:
                    # the duration arrives through a temporary several paths assign: the `Some(..)` definitions are the ones that
                    # can reach a wait (a `None` leaves through the let-else)
                    somes = [v for _, v in alts if not (v[0] == "field" and v[1][0] == "variant" and v[1][1][0] == "agg" and v[1][1][2] == "None")]
                    if len(somes) == 1:
                        d = somes[0]
            ok = (is_call(d, "sub") or is_call(d, "saturating_duration_since") or is_call(d, "duration_since")) and len(d[2]) == 2 and render(d[2][0]) == deadline_txt and is_call(d[2][1], "Instant::now")
            fresh = ok and len(d[2][1]) > 3 and i in b.reachable((d[2][1][3],)) and d[2][1][3] in b.reachable((i,))
            R.check(ok and fresh, "timeout-at-deadline", b.path, "wait-duration",
                    "wait duration is %s%s, expected deadline - now (clock read again before every wait) with deadline=%s"
                    % (render(d), "" if fresh or not ok else " computed once outside the waiting loop: every wake-up that leaves the condition false re-arms the full timeout",
                       deadline_txt), t.get("span"), render(d))
            # the wait itself happens only while now < deadline
            fs = facts_at(b, sym, facts, i)
            lt = any((f["val"] is False and is_call(f["expr"], "ge")) or (f["val"] is True and is_call(f["expr"], "lt")) or
                     (f["val"] is False and is_call(f["expr"], "is_zero") and "duration_since" in render(f["expr"])) for f in fs)
            lt = lt or is_call(d, "saturating_duration_since")      # saturates at zero: no panic, and a zero wait times out at once
            R.check(lt, "timeout-at-deadline", b.path, "wait-before-deadline",
                    "parks without having checked now < deadline (deadline - now would panic / wait is unbounded)", t.get("span"))
