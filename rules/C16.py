"""C16 - off-reader handlers are capped, never block the reader or kill the connection."""
from analysis.flow import must_cross, return_points, term_pt, path_counts, in_cycle
from analysis.guards import facts_at, struct_constructions
from analysis.mir import callee_matches, op_place, rv_operands
from analysis.sym import Sym, render, is_call, const_val, walk
from rules.common import texts, value_rows, render_n

REQUIRES = ("websocket",)
WS = "websocket_server::"
SOR = WS + "spawn_off_reader::{closure#0}"

EXPLANATION = (
    "Decided structurally. (permit-before-spawn) spawn_blocking is unreachable from the Err edge of try_acquire_owned, i.e. it "
    "runs only with no semaphore configured or with a permit held; the permit moves into the spawned closure, is bound to a "
    "local there and is never dropped early or moved on; the semaphore is Semaphore::new(limit) created once per connection, "
    "outside any loop. (saturation-branch) on the Err edge nothing is spawned, the error hook is crossed, a notify returns "
    "true with nothing sent, and otherwise exactly one response built from the request with ErrorCode::ResourceExhausted is "
    "enqueued; (reader-never-awaits-permit) no awaiting acquire form is called on a semaphore anywhere in the WebSocket server. "
    "(catch-unwind-shape) in the spawned closure dispatch is called only inside the closure given to catch_unwind; the panic "
    "arm reports the panic and builds an InternalError response from the request only for a non-notify; the closure never "
    "returns early past the permit. (blocking-marker-in-raw) each with_*_blocking constructor wraps the leaf handler in the off-reader marker and registers that as the route's raw handler, so rebuilding the dispatched slot from raw when middleware is registered later keeps the route off-reader. (execution-forwarded) every HandlerErased impl whose handle delegates to another "
    "HandlerErased overrides execution - MiddlewarePipeline forwards the inner handler's mode, the blocking wrapper returns "
    "OffReader - and the reader switches on execution() with both arms present. Not decided: enumeration of release orders and "
    "mixes of returning/erroring/panicking handlers (schedules)."
    ' (permit-before-spawn, closed over spawn sites) every spawn site of the WebSocket server whose closure runs a handler owns an OwnedSemaphorePermit, is reached only behind the Ok / no-semaphore edge and never moves the permit away.'
    ' In every function that pairs fetch_add and fetch_sub on one atomic (a hand-counted slot) every unwind path from the increment crosses a decrement or the drop of a guard whose Drop does it. A wrapper that does not override execution() is accepted when every concrete type it is instantiated over is an inline leaf handler.'
)
ASSUMPTIONS = ["tokio::sync::Semaphore permits are released when the OwnedSemaphorePermit is dropped", "catch_unwind catches handler panics (panic=unwind)"]


def _keeps_reading(facts, vtxt):
    """the value spawn_off_reader returns is an enum variant on which reader_task goes on to read the next frame"""
    import re
    m = re.match(r"^([A-Za-z_][\w:]*)::([A-Za-z_]\w*)\{\}$", vtxt)
    if not m:
        return False
    variant = m.group(2)
    from analysis.guards import _variants_for_discr
    from analysis.sym import switch_alternatives
    rb = facts.bodies.get(WS + "reader_task::{closure#0}")
    if rb is None:
        return False
    rs = Sym(rb)
    reads = [i for i, t in rb.calls() if t["callee"]["name"] == "next" and "StreamExt" in t["callee"]["path"]]
    for x in sorted(rb.live_blocks()):
        t = rb.term(x)
        if t["k"] != "switch" or t.get("on_ty") == "bool":
            continue
        if not any(e[0] == "discr" and "spawn_off_reader" in render(e[1]) for e in switch_alternatives(rs, x)):
            continue
        vm = _variants_for_discr(rb, facts, t, x) or {}
        if variant not in vm.values():
            continue
        listed = {vm.get(v, str(v)): tb for v, tb in t["targets"]}
        tb = listed.get(variant, t.get("otherwise"))
        others = [b2 for n, b2 in listed.items() if n != variant]
        return tb is not None and any(r in rb.reachable((tb,)) for r in reads) and all(not any(r in rb.reachable((o,)) for r in reads) for o in others)
    return False


def _holds_permit(facts, ty):
    """the type is a permit, an Option of one, or a small in-crate struct that owns one (a slot guard bundling the permit with a gauge)"""
    if "OwnedSemaphorePermit" in ty:
        return True
    a = facts.adts.get(ty.replace("&mut ", "").lstrip("&").split("<")[0])
    return bool(a) and a.get("kind") == "struct" and any("OwnedSemaphorePermit" in (f.get("ty") or "") for f in a["variants"][0]["fields"])


def run(facts, R):
    b = facts.body(SOR)
    s = Sym(b)
    # reader never awaits a permit
    n_wait = 0
    for bb in facts.bodies.values():
        if not bb.path.startswith(WS):
            continue
        for i, t in bb.calls():
            if "Semaphore" in t["callee"]["path"] and t["callee"]["name"] in ("acquire", "acquire_owned", "acquire_many", "acquire_many_owned"):
                n_wait += 1
                R.bad("reader-never-awaits-permit", bb.path, t["callee"]["name"], "an awaiting semaphore acquire in the WebSocket server would park the reader at the cap", t.get("span"))
    R.ok("reader-never-awaits-permit", "<crate>", "no awaiting acquire on a semaphore", None, "0 sites")
    acq = [(i, t) for i, t in b.calls() if t["callee"]["name"] == "try_acquire_owned"]
    mapped_acq = False
    if not acq:
        # `sem.map(|s| Arc::clone(s).try_acquire_owned())`: the acquire sits in the closure handed to Option::map
        for i, t in b.calls():
            if t["callee"]["name"] == "map" and "Option" in t["callee"]["path"] and len(t["args"]) == 2:
                c = s.op(t["args"][1])
                cb_ = facts.bodies.get(c[1].split(":", 1)[1]) if c[0] == "agg" and c[1].startswith("closure:") else None
                if cb_ is not None and is_call(Sym(cb_).local(0), "try_acquire_owned"):
                    acq.append((i, t))
                    mapped_acq = True

    def _is_acq(e):
        if is_call(e, "try_acquire_owned"):
            return True
        return mapped_acq and e[0] == "field" and e[2] == "0" and e[1][0] == "variant" and e[1][2] == "Some" and e[1][1][0] == "call" and len(e[1][1]) > 3 and e[1][1][3] == acq[0][0]
    spw = [(i, t) for i, t in b.calls() if t["callee"]["name"] == "spawn_blocking"]
    # a hand-rolled counter in place of the semaphore: a store of a value computed from a load of the same atomic is a
    # check-then-act that a concurrent release (handler finishing on a blocking thread) can interleave with
    n_atomic = 0
    for i, t in b.calls():
        if "Atomic" in (t["callee"].get("self_ty") or t["callee"]["path"]) and t["callee"]["name"] == "store":
            n_atomic += 1
            val = s.op(t["args"][1])
            tgt = render(s.op(t["args"][0]))
            loads = [x for x in walk(val) if x[0] == "call" and x[1].endswith("::load") and "Atomic" in x[1] and render(x[2][0]) == tgt]
            R.check(not loads, "permit-before-spawn", b.path, "slot accounting is one atomic operation",
                    "the off-reader slot count is updated by load + store on %s (value %s): a permit released concurrently between the two is lost or double counted, "
                    "so the cap drifts away from the configured limit" % (tgt, render(val)[:120]), t.get("span"), tgt)
    late = [c.path for c in facts.bodies.values() if c.path.startswith(b.path + "::{closure") and any(t_["callee"]["name"] in ("try_acquire_owned", "try_acquire", "acquire_owned") for _, t_ in c.calls())]
    if not acq and late:
        R.bad("permit-before-spawn", b.path, "permit taken before the spawn",
              "the permit is acquired inside the spawned closure (%s), after spawn_blocking returned: between the reader's saturation test and that acquire the "
              "semaphore still shows a free slot, so a burst of requests is admitted beyond the cap and runs without permits" % late, b.span)
    R.check(len(acq) == 1 and len(spw) == 1, "permit-before-spawn", b.path, "shape", "try_acquire_owned=%d spawn_blocking=%d" % (len(acq), len(spw)), b.span)
    if len(acq) != 1 or len(spw) != 1:
        return
    ai, at = acq[0]
    si, st = spw[0]
    # Err-edge region of the acquire
    err_blocks = [x for x in sorted(b.live_blocks()) if any(f["val"] == "Err" and not f.get("derived") and not f.get("merged") and _is_acq(f["expr"]) for f in facts_at(b, s, facts, x))]
    heads = [x for x in err_blocks if not any(p in err_blocks for p in b.preds()[x])]
    R.check(bool(heads), "saturation-branch", b.path, "Err arm present", "no Err arm for try_acquire_owned", at.get("span"))
    R.check(si not in b.reachable(heads), "permit-before-spawn", b.path, "no spawn without a permit", "spawn_blocking is reachable from the saturated (Err) edge of try_acquire_owned: the cap is not enforced", st.get("span"),
            "spawn only on the None / Ok edges")
    # sem arg comes from the per-connection option
    a0 = render_n(s.op(at["args"][0]))
    a0e = s.op(at["args"][0])
    roots = [x for x in walk(a0e) if x[0] == "arg"]
    sem_arg = any("Semaphore" in b.local_ty(x[1]) or "ConnDispatch" in b.local_ty(x[1]) or "Semaphore" in a0 for x in roots) or "offreader_sem" in a0
    # in a coroutine the parameters are captured: arg1.<name>; fall back on the declared types of the async fn's captures
    if not sem_arg:
        sem_arg = any("Semaphore" in b.local_ty(l) for l in range(len(b.locals)) if b.debug_name(l) and b.debug_name(l) in a0)
    if not sem_arg:
        # ... or a small per-connection wrapper around the semaphore (`struct OffReaderSlots(Option<Arc<Semaphore>>)`) handed down the same way
        def _wraps_sem(ty):
            a_ = facts.adts.get(ty.replace("&mut ", "").lstrip("&").split("<")[0])
            return bool(a_) and a_.get("kind") == "struct" and any("Semaphore" in (f_.get("ty") or "") for f_ in a_["variants"][0]["fields"])
        sem_arg = any(_wraps_sem(b.local_ty(l)) for l in range(len(b.locals)) if b.debug_name(l) and b.debug_name(l) in a0)
        if not sem_arg and b.kind == "coroutine":
            pb_ = facts.bodies.get(b.path[:-len("::{closure#0}")])
            if pb_ is not None:
                sem_arg = any(_wraps_sem(pb_.local_ty(a_)) for a_ in range(1, pb_.argc + 1) if pb_.debug_name(a_) and pb_.debug_name(a_) in a0)
    R.check(sem_arg and "Semaphore::new" not in a0, "permit-before-spawn", b.path, "acquires the per-connection semaphore", "try_acquire_owned on %s" % a0, at.get("span"), a0)
    # the closure captures the permit produced by this acquire
    clo = s.op(st["args"][0])
    okc = clo[0] == "agg" and clo[1].startswith("closure:")
    worker = None
    if okc:
        caps = dict(clo[3])
        worker = facts.body(clo[1].split(":", 1)[1])
        pl = caps.get("permit")
        if pl is None:
            # the capture holding the permit, whatever it is called: the one whose value derives from the acquire
            for k_, v_ in caps.items():
                cand = [v_] + ([s.rvalue(d[3]) for d in b.defs_of(v_[1]) if d[0] == "assign"] if v_[0] == "local" else [])
                if any(_is_acq(z) or (z[0] == "call" and len(z) > 3 and z[3] == acq[0][0]) for c_ in cand for z in walk(c_)):
                    pl = v_
        # the permit local: multi-def (Some(permit) / None); all its defs are Some(acquire Ok payload) or None
        okp = pl is not None
        if okp and pl[0] == "local":
            from analysis.sym import split_rows
            for d in b.defs_of(pl[1]):
                if d[0] == "assign":
                    # (values that flow through temporaries assigned on several paths are resolved by reaching definitions)
                    for _, v in (split_rows(s, d[1], d[2], d[3]) or [({}, s.rvalue(d[3]))]):
                        okp = okp and v[0] == "agg" and (v[2] == "None" or (v[2] == "Some" and "as Ok" in render(v) and
                                                                            ("try_acquire_owned" in render(v) or (mapped_acq and any(x[0] == "call" and len(x) > 3 and x[3] == acq[0][0] for x in walk(v))))))
        if not okp:
            # the permit may travel inside a small struct (`slot = Slot { permit: Some(p), .. }`) or through temporaries several
            # paths assign: enumerate what each capture can hold at the point the closure is built
            from analysis.sym import split_eval
            cdef = None
            for x_, y_, cs_ in b.assigns():
                if cs_["rv"].get("agg") == "closure" and cs_["rv"].get("def") == worker.path and x_ in b.live_blocks():
                    cdef = (x_, y_, cs_["rv"])

            def _permit_like(v):
                if v[0] == "agg" and v[2] == "None" and v[1].endswith("Option"):
                    return "none"
                if v[0] == "agg" and v[2] == "Some" and "as Ok" in render(v) and "try_acquire_owned" in render(v):
                    return "some"
                return None
            if cdef is not None:
                for op in cdef[2]["ops"]:
                    alts = split_eval(s, cdef[0], cdef[1], lambda v_, op=op: v_.op(op)) or []
                    vals = [v for _, v in alts]
                    if not any("try_acquire_owned" in render(v) for v in vals):
                        continue
                    good = True
                    for v in vals:
                        kinds = [_permit_like(v)] if _permit_like(v) else [_permit_like(fv) for _, fv in v[3]] if v[0] == "agg" else [None]
                        good = good and any(k in ("none", "some") for k in kinds)
                    okp = good and bool(vals)
        R.check(okp, "permit-before-spawn", b.path, "closure captures the acquired permit", "closure captures permit = %s" % (render_n(pl) if pl else None), st.get("span"), "Some(permit from try_acquire_owned) | None")
    else:
        R.bad("permit-before-spawn", b.path, "spawned-closure", "spawn_blocking argument is not a local closure", st.get("span"))
    if worker is not None:
        ws = Sym(worker)
        # permit bound to a local for the closure's whole run: no drop()/forget()/move of it
        pl = [l for l in range(len(worker.locals)) if _holds_permit(facts, worker.local_ty(l))]
        bad = []
        for i, bl in enumerate(worker.blocks):
            t = bl["term"]
            if t["k"] == "call":
                for o in t["args"]:
                    if "move" in o and not o["move"]["p"] and o["move"]["l"] in pl:
                        bad.append((t["callee"]["path"], t.get("span")))
        R.check(bool(pl) and not bad, "permit-before-spawn", worker.path, "permit held to the end of the handler run",
                "the permit is released early / handed away: %s" % bad, worker.span, "permit is a closure local dropped at scope end (all exits, panic included)")
        # no-panic-outside-catch-unwind: the only code that may panic here is the handler, inside catch_unwind.  A panic in
        # spawn_off_reader itself unwinds the reader task (the connection dies with every call in flight); a panic in the worker
        # before or after catch_unwind - e.g. while the panic report is built - leaves the caller without its answer.  Panic
        # sites = compiler-inserted assertions (overflow, bounds) and calls that panic on bad input (unwrap/expect, indexing /
        # slicing incl. `&str[a..b]` on a non-boundary, copy_from_slice, split_at, explicit panics)
        PANICKY = ("unwrap", "expect", "unwrap_err", "expect_err", "index", "index_mut", "panic", "panic_fmt", "begin_panic", "unreachable", "copy_from_slice",
                   "split_at", "split_at_mut", "swap_remove", "remove", "insert", "slice_index_order_fail", "from_utf8_unchecked", "unwrap_unchecked")
        guarded_closures = set()
        for _, t_ in worker.calls():
            if t_["callee"]["name"] == "catch_unwind":
                for x_ in walk(ws.op(t_["args"][0])):
                    if x_[0] == "agg" and str(x_[1]).startswith("closure:"):
                        guarded_closures.add(x_[1].split(":", 1)[1])
        scan = [b] + [c_ for c_ in facts.children(b.path) if not any(c_.path == g_ or c_.path.startswith(g_ + "::") for g_ in guarded_closures)]
        n_scan = 0
        for sb_ in scan:
            for i_ in sorted(sb_.live_blocks()):
                t_ = sb_.term(i_)
                n_scan += 1
                site = None
                if t_["k"] == "assert":
                    site = "assertion (%s)" % (t_.get("msg") or "overflow/bounds check")
                elif t_["k"] == "call" and t_["callee"]["name"] in PANICKY and not (t_["callee"]["name"] in ("remove", "insert") and "HashMap" in t_["callee"]["path"]):
                    site = t_["callee"]["path"]
                if site is not None:
                    R.bad("no-panic-outside-catch-unwind", sb_.path, "off-reader plumbing cannot panic",
                          "%s in %s can panic outside catch_unwind: on the reader task that kills the connection, in the worker it leaves the caller unanswered"
                          % (site, sb_.path.rsplit("::", 2)[-2] if "{closure" in sb_.path else sb_.path), t_.get("span"))
        R.floor("no-panic-outside-catch-unwind", n_scan, 40, "blocks of spawn_off_reader and its worker scanned for panic sites")
        # no early return that skips the handler but keeps... (returns only at the end): single return block
        cu = [(i, t) for i, t in worker.calls() if t["callee"]["name"] == "catch_unwind"]
        R.check(len(cu) == 1, "catch-unwind-shape", worker.path, "one catch_unwind", "catch_unwind calls: %d" % len(cu), worker.span)
        direct = [(i, t) for i, t in worker.calls() if t["callee"]["name"] in ("dispatch", "dispatch_view", "handle", "handle_with_ctx", "handle_view")]
        R.check(not direct, "catch-unwind-shape", worker.path, "handler runs only inside catch_unwind", "the worker calls %s outside catch_unwind: a panic would unwind through the blocking task" % [t["callee"]["name"] for _, t in direct], worker.span)
        for i, t in cu:
            c0 = ws.op(t["args"][0])
            inner = [x for x in walk(c0) if x[0] == "agg" and x[1].startswith("closure:")]
            okd = False
            if inner:
                ib = facts.body(inner[0][1].split(":", 1)[1])
                okd = path_counts(ib, [x for x, y in ib.calls() if callee_matches(y["callee"], "server_request::dispatch")]) == (1, 1)
            R.check(okd, "catch-unwind-shape", worker.path, "catch_unwind wraps exactly one dispatch", "catch_unwind argument is %s" % render_n(c0)[:120], t.get("span"))
            # panic arm
            err_b = [x for x in sorted(worker.live_blocks()) if any(f["val"] == "Err" and is_call(f["expr"], "catch_unwind") for f in facts_at(worker, ws, facts, x))]
            eh = [x for x in err_b if not any(p in err_b for p in worker.preds()[x])]
            rep = [term_pt(worker, x) for x, y in worker.calls() if callee_matches(y["callee"], WS + "report_error")]
            thens = [(x, y) for x, y in worker.calls() if y["callee"]["name"] == "then" and x in err_b]
            okp = bool(eh) and bool(rep) and len(thens) == 1
            if okp:
                c = ws.op(thens[0][1]["args"][0])
                okp = c[0] == "un" and c[1] == "Not" and render_n(c[2]).endswith(".notify")
                cl = ws.op(thens[0][1]["args"][1])
                if okp and cl[0] == "agg":
                    eb = facts.body(cl[1].split(":", 1)[1])
                    ev = render_n(Sym(eb).local(0))
                    okp = ev.startswith("message::create_error_response_like(arg1.request") and "ErrorCode::InternalError" in ev
                else:
                    okp = False
            if not okp and eh and rep and not thens:
                # the same decision spelled as `if notify { None } else { Some(error_like(request, InternalError)) }`
                errs = [(x, y) for x, y in worker.calls() if x in err_b and y["callee"]["name"].startswith("create_error_response")]
                okp = len(errs) == 1
                for x, y in errs:
                    ev = render_n(ws.op(y["args"][0])) + " " + render_n(ws.op(y["args"][1]))
                    fsx = texts(facts_at(worker, ws, facts, x))
                    okp = okp and "request" in ev and "ErrorCode::InternalError" in ev and any(z.endswith("notify is False") for z in fsx)
                # and nothing is answered on the notify edge of the panic arm
                nones = [(x, y, st) for x, y, st in worker.assigns() if x in err_b and st["rv"].get("agg") == "adt" and st["rv"].get("variant") == "None"]
                okp = okp and any(any(z.endswith("notify is True") for z in texts(facts_at(worker, ws, facts, x))) for x, y, st in nones)
            R.check(okp, "catch-unwind-shape", worker.path, "panic -> InternalError with the request (non-notify only)", "panic arm does not build (!notify).then(|| error_like(request, InternalError))", t.get("span"),
                    "reported; InternalError response carrying the request id for non-notify")
            for h in eh:
                w = must_cross(worker, [(h, 0)], return_points(worker), rep, after_start=False)
                R.check(w is None, "catch-unwind-shape", worker.path, "panic is reported", "a handler panic can go unreported", t.get("span"), path=w)

    # ---------------- saturation-branch rows -----------------------------------------------------------------
    spawns_in_err = [x for x in err_blocks if b.term(x)["k"] == "call" and b.term(x)["callee"]["name"].startswith("spawn")]
    R.check(not spawns_in_err, "saturation-branch", b.path, "nothing spawned when saturated", "saturated branch spawns", b.span)
    rep = [term_pt(b, i) for i, t in b.calls() if callee_matches(t["callee"], WS + "report_error")]
    sends = [(i, t) for i, t in b.calls() if t["callee"]["name"] == "send" and i in err_blocks]
    for h in heads:
        w = must_cross(b, [(h, 0)], return_points(b), rep, after_start=False)
        R.check(bool(rep) and w is None, "saturation-branch", b.path, "saturation reported", "a rejected request is not reported through the error hooks", at.get("span"), path=w)
    R.check(len(sends) == 1, "saturation-branch", b.path, "one rejection reply", "sends on the saturated branch: %d" % len(sends), b.span)
    for i, t in sends:
        fs = texts(facts_at(b, s, facts, i))
        msg = render_n(s.op(t["args"][1]))
        mv = s.op(t["args"][1])
        # built from this request: the owned request handed in, or the owned copy of the request view handed in (`view.to_message()`)
        req_ok = False
        if is_call(mv, "create_error_response_like") and len(mv[2]) >= 2:
            rq = mv[2][0]
            if is_call(rq, "to_message") and len(rq[2]) == 1:
                rq = rq[2][0]
            req_ok = rq[0] == "field" and rq[1][0] == "arg" and rq[1][1] == 1 and rq[2] in ("request", "view") and render_n(mv[2][1]).startswith("ErrorCode::ResourceExhausted")
        ok = any(x.endswith("notify is False") for x in fs) and req_ok
        R.check(ok, "saturation-branch", b.path, "ResourceExhausted reply built from the request, only for non-notify", "saturated reply %s under %s" % (msg[:100], [x[-40:] for x in fs]), t.get("span"),
                "create_error_response_like(request, ResourceExhausted) iff !notify")
    rows = value_rows(b, s, facts, 0)
    for g, v in rows:
        if any("is Err" in x and ("try_acquire_owned" in x or (mapped_acq and "Option::map" in x and "as Some).0" in x)) for x in g) and any(x.endswith("notify is True") for x in g):
            R.check(v == "1" or _keeps_reading(facts, v), "saturation-branch", b.path, "saturated notify is dropped, reader continues", "saturated notify returns %s" % v, b.span, "returns true (keep reading)")
    # semaphore: Semaphore::new(limit) once per connection
    hc = facts.body(WS + "handle_connection_with_config::{closure#0}")
    sems = []
    for bb in facts.bodies.values():
        for i, t in bb.calls():
            if t["callee"]["path"].endswith("Semaphore::new") and bb.path.startswith(WS):
                sems.append((bb, i, t))
    # (one source site may be seen twice once a constructor helper and its closure were spliced into the connection function)
    seen_sp = set()
    sems = sorted(sems, key=lambda x: 0 if x[0].path.startswith(hc.path) else 1)      # (keep the connection function's copy of a source site)
    sems = [x for x in sems if not (x[2].get("span") in seen_sp or seen_sp.add(x[2].get("span")))]
    ok = len(sems) == 1 and sems[0][0].path.startswith(hc.path)
    R.check(ok, "permit-before-spawn", "<crate>", "one Semaphore::new per connection", "Semaphore::new sites: %s" % [x[0].path for x in sems], None, "inside handle_connection_with_config")
    if ok:
        cb, ci, ct = sems[0]
        sz = render_n(Sym(cb).op(ct["args"][0]))
        hs = Sym(hc)
        if cb is hc:
            # built in the connection function itself: `match config.offreader_limit { Some(n) => Some(Arc::new(Semaphore::new(n))), None => None }`
            R.check(sz.endswith("config.offreader_limit as Some).0"), "permit-before-spawn", cb.path, "sized by the configured limit", "Semaphore::new(%s)" % sz, ct.get("span"))
            R.check(not in_cycle(hc, ci), "permit-before-spawn", hc.path, "created once, outside loops, from config.offreader_limit", "Semaphore::new sits in a loop", hc.span)
        else:
            R.check(sz == "arg2", "permit-before-spawn", cb.path, "sized by the configured limit", "Semaphore::new(%s)" % sz, ct.get("span"))
            mp = [(i, t) for i, t in hc.calls() if t["callee"]["name"] == "map" and "offreader_limit" in render_n(hs.op(t["args"][0]))]
            R.check(len(mp) == 1 and not in_cycle(hc, mp[0][0]), "permit-before-spawn", hc.path, "created once, outside loops, from config.offreader_limit", "offreader_limit.map sites: %d" % len(mp), hc.span)

    # ---------------- every way a handler leaves the reader carries a permit: each spawn site in the WebSocket server
    # (spawn_blocking / thread::spawn / tokio::spawn) whose closure runs a handler (dispatch / handle*) captures an
    # OwnedSemaphorePermit - a permit bound in the spawning function instead is released when that function returns, i.e. right
    # after the spawn, and the cap no longer bounds the number of running handlers.  Closed over all spawn sites, so a second
    # off-reader path (a bulk / priority / batched variant of spawn_off_reader) is judged like the first
    n_sp = 0
    for b_ in facts.bodies.values():
        if not b_.path.startswith(WS):
            continue
        for i_, t_ in b_.calls():
            if t_["callee"]["name"] not in ("spawn_blocking", "spawn", "spawn_local") or not t_["args"]:
                continue
            s_ = Sym(b_)
            clo = [x for x in walk(s_.op(t_["args"][0])) if x[0] == "agg" and str(x[1]).startswith(("closure:", "coroutine:"))]
            if not clo:
                continue
            cpath = str(clo[0][1]).split(":", 1)[1]
            sub = [facts.bodies[p_] for p_ in facts.bodies if p_ == cpath or p_.startswith(cpath + "::{")]
            runs_handler = any(t2["callee"]["name"] in ("dispatch", "dispatch_view", "handle", "handle_with_ctx", "handle_view") and
                               ("server_request::" in t2["callee"]["path"] or "HandlerErased" in (t2["callee"].get("decl") or t2["callee"]["path"]))
                               for sb_ in sub for _, t2 in sb_.calls())
            if not runs_handler:
                continue
            n_sp += 1
            holds = any(_holds_permit(facts, sb_.local_ty(l_)) for sb_ in sub[:1] for l_ in range(len(sb_.locals)))
            R.check(holds, "permit-before-spawn", b_.path, "a spawned handler run holds a permit for its whole run",
                    "%s spawns a task that runs a handler, and the spawned closure owns no OwnedSemaphorePermit: whatever permit the spawning function took is "
                    "released when that function returns, so any number of such handlers run at once regardless of the off-reader cap"
                    % b_.path.rsplit("::", 2)[-2 if "{closure" in b_.path else -1], t_.get("span"), "closure owns the permit")
            if not holds or b_.path == SOR:
                continue        # (spawn_off_reader itself is judged in detail above)
            # the same two obligations as in spawn_off_reader, for a derived site: nothing is spawned on the saturated edge, and the
            # worker keeps the permit to its end
            from analysis.guards import path_facts as _pf
            alts_ = _pf(b_, s_, facts, i_)

            def _admitted(fs_):
                got = any(str(f_["val"]) == "Ok" and any(is_call(y_, "try_acquire_owned") for y_ in walk(f_["expr"])) for f_ in fs_)
                nosem = any(str(f_["val"]) == "None" and ("sem" in render(f_["expr"]).lower() or "Semaphore" in render(f_["expr"])) for f_ in fs_)
                return got or nosem
            R.check(bool(alts_) and all(_admitted(fs_) for fs_ in alts_), "permit-before-spawn", b_.path, "no spawn without a permit (derived site)",
                    "the spawn at this site is reached on a way that is neither behind the Ok edge of try_acquire_owned nor behind `no semaphore configured`: "
                    "the cap is not enforced on this path; ways in: %s" % [[f_["text"][-50:] for f_ in fs_][-3:] for fs_ in alts_][:3],
                    t_.get("span"), "spawn only on the None / Ok edges")
            wk_ = sub[0]
            pl_ = [l_ for l_ in range(len(wk_.locals)) if _holds_permit(facts, wk_.local_ty(l_))]
            moved = [(t2["callee"]["path"]) for _, t2 in wk_.calls() for o_ in t2["args"] if "move" in o_ and not o_["move"]["p"] and o_["move"]["l"] in pl_]
            R.check(not moved, "permit-before-spawn", wk_.path, "permit held to the end of the handler run (derived site)",
                    "the permit is released early / handed away: %s" % moved, wk_.span, "permit is a closure local dropped at scope end")
    R.floor("permit-before-spawn", n_sp, 1, "spawn sites that run a handler off the reader")

    # ---------------- a slot counted by hand is given back on unwind too: a function that takes a slot with fetch_add on an atomic and
    # returns it with fetch_sub on the same atomic must return it on the panic path as well (an owned permit / a guard's Drop does
    # that by construction; a plain statement after the handler call does not run when the handler panics, and every panic then
    # shrinks the cap for good).  Closed over every function of the crate that contains such a pair
    n_pairs = 0
    for b_ in facts.bodies.values():
        adds_ = [(i_, t_) for i_, t_ in b_.calls() if t_["callee"]["name"] == "fetch_add" and "atomic" in t_["callee"]["path"]]
        subs_ = [(i_, t_) for i_, t_ in b_.calls() if t_["callee"]["name"] == "fetch_sub" and "atomic" in t_["callee"]["path"]]
        if not adds_ or not subs_:
            continue
        sy_ = Sym(b_)
        for i_, t_ in adds_:
            tgt_ = render(sy_.op(t_["args"][0]))
            ev_ = [term_pt(b_, j_) for j_, u_ in subs_ if render(sy_.op(u_["args"][0])) == tgt_]
            if not ev_ or t_.get("target") is None:
                continue
            n_pairs += 1
            # ... a guard whose Drop does the fetch_sub returns the slot wherever it is dropped
            for x_ in range(len(b_.blocks)):
                tt_ = b_.blocks[x_]["term"]
                if tt_["k"] == "drop" and not tt_["place"]["p"]:
                    ty_ = b_.local_ty(tt_["place"]["l"]).split("<")[0]
                    if any(p_.startswith("<" + ty_) and p_.endswith(" as std::ops::Drop>::drop") and any(u_["callee"]["name"] == "fetch_sub" for _, u_ in d_.calls())
                           for p_, d_ in facts.bodies.items() if "Drop>::drop" in p_):
                        ev_.append(term_pt(b_, x_))
            exits_ = [(x_, len(b_.blocks[x_]["stmts"])) for x_ in range(len(b_.blocks)) if b_.blocks[x_]["term"]["k"] == "resume"]
            wp_ = must_cross(b_, [(t_["target"], 0)], exits_, ev_, unwind=True, after_start=False) if exits_ else None
            R.check(wp_ is None, "permit-before-spawn", b_.path, "a hand-counted slot is returned on unwind",
                    "%s takes a slot with %s.fetch_add and gives it back with a plain fetch_sub: a panic in between (the handler it runs) unwinds past the fetch_sub and the slot is "
                    "never returned - after `limit` panics the route refuses every call" % (b_.path.rsplit("::", 1)[-1], tgt_[:40]), t_.get("span"), "fetch_sub on every unwind path", path=wp_)
    R.note("hand-counted slot pairs (fetch_add/fetch_sub on one atomic in one function): %d" % n_pairs)

    # ---------------- blocking-marker-in-raw: the off-reader marker wraps the leaf handler that is stored as the route's
    # `raw`, so that rebuilding the dispatched slot from `raw` (middleware registered later) keeps the route off-reader
    from analysis.guards import struct_constructions
    n_mark = 0
    for cb, ci, cj, cst in struct_constructions(facts, "server::OffReaderHandler"):
        if cb.path.startswith("<") and "Clone" in cb.path:
            continue
        n_mark += 1
        csym = Sym(cb)
        v = csym.rvalue(cst["rv"])
        payload = render(v)
        inner_ok = "wrap_with_middlewares" not in payload and "MiddlewarePipeline" not in payload and ".dispatched" not in payload
        routed = False
        for x, t in cb.calls():
            if t["callee"]["name"] in ("insert_route", "with_erased_handler") and any(v == y or any(z == v for z in walk(y)) for y in [csym.op(a) for a in t["args"]]):
                routed = True
        for eb, ei, ej, est in [c for et in ("server::RouterMapEntry",) for c in struct_constructions(facts, et) if c[0] is cb]:
            d = dict(Sym(eb).rvalue(est["rv"])[3])
            if any(z == v for z in walk(d.get("raw", ("?",)))):
                routed = True
        R.check(inner_ok and routed, "blocking-marker-in-raw", cb.path, "the off-reader marker wraps the leaf handler and is stored as the route's raw handler",
                "OffReaderHandler is built around %s and %s: a middleware registered after the route rebuilds the dispatched handler from `raw` and the route "
                "silently becomes inline (runs on the reader, takes no permit, panics escape catch_unwind)" % (payload[:90], "is registered as raw" if routed else "is not what the route keeps as raw"),
                cst.get("span"), "insert_route(path, Arc::new(OffReaderHandler(leaf)))")
    R.floor("blocking-marker-in-raw", n_mark, 4, "OffReaderHandler constructions (the with_*_blocking constructors)")

    # ---------------- execution-forwarded ---------------------------------------------------------------------------
    impls = facts.impls_of("server::HandlerErased")
    n_del = 0
    for im in impls:
        hb = facts.body(im["methods"]["handle"])
        hs_ = Sym(hb)
        delegates = False
        for i, t in hb.calls():
            if t["callee"]["decl"] in ("server::HandlerErased::handle", "server::HandlerErased::handle_with_ctx", "server::HandlerErased::handle_view"):
                r = render_n(hs_.op(t["args"][0]))
                if r.startswith("arg1.") and r != "arg1":
                    delegates = True
            if callee_matches(t["callee"], "server::Next::<'a>::run"):
                delegates = True
        if not delegates:
            continue
        n_del += 1
        has = "execution" in im["methods"]
        if not has:
            # a wrapper that inherits Inline is right when nothing it is ever instantiated over runs off the reader: every concrete inner
            # type seen anywhere in the crate is a leaf handler that itself inherits Inline (the blocking marker then sits outside it)
            base_ = im["self_ty"].split("<")[0]
            inner_ = set()
            for ob_ in facts.bodies.values():
                for l_ in range(len(ob_.locals)):
                    ty_ = ob_.local_ty(l_)
                    k_ = ty_.find(base_ + "<")
                    while k_ >= 0:
                        d_, e_ = 0, k_ + len(base_)
                        for e_ in range(k_ + len(base_), len(ty_)):
                            d_ += ty_[e_] == "<"
                            d_ -= ty_[e_] == ">" and ty_[e_ - 1] != "-"
                            if d_ == 0:
                                break
                        inner_.add(ty_[k_ + len(base_) + 1:e_])
                        k_ = ty_.find(base_ + "<", e_)
            leafs_ = {x_["self_ty"].split("<")[0] for x_ in impls if "execution" not in x_["methods"] and x_ is not im}
            conc_ = {x_ for x_ in inner_ if "::" in x_}
            if conc_ and all(x_.split("<")[0] in leafs_ and x_.split("<")[0] != base_ for x_ in conc_) and not any(
                    x_["self_ty"].split("<")[0] in {c_.split("<")[0] for c_ in conc_} and any(
                        u_["callee"]["decl"].startswith("server::HandlerErased::handle") and render_n(Sym(facts.body(x_["methods"]["handle"])).op(u_["args"][0])).startswith("arg1.")
                        for _, u_ in facts.body(x_["methods"]["handle"]).calls()) for x_ in impls):
                R.ok("execution-forwarded", im["methods"]["handle"], "wrapper only ever wraps inline leaf handlers", hb.span, ", ".join(sorted(c_.split("<")[0] for c_ in conc_)))
                continue
        R.check(has, "execution-forwarded", im["methods"]["handle"], "wrapper overrides execution",
                "%s wraps another handler but inherits execution() = Inline: a wrapped blocking handler would run on the reader" % im["self_ty"], hb.span, "execution overridden")
        if has:
            eb = facts.body(im["methods"]["execution"])
            ev = render_n(Sym(eb).local(0))
            ok = ev.endswith("execution(arg1.handler)") or ev == "Execution::OffReader{}" or (ev.startswith("HandlerErased") and "execution(arg1." in ev) or "execution(arg1.0)" in ev
            R.check(ok, "execution-forwarded", eb.path, "forwards the inner mode (or is the blocking wrapper)", "execution() returns %s" % ev, eb.span, ev)
    R.floor("execution-forwarded", n_del, 2, "delegating HandlerErased impls")
    rt = facts.body(WS + "reader_task::{closure#0}")
    rs = Sym(rt)
    arms = set()
    for x in sorted(rt.live_blocks()):
        for f in facts_at(rt, rs, facts, x):
            if is_call(f["expr"], "execution") and isinstance(f["val"], str):
                arms.add(f["val"])
    R.check(arms == {"Inline", "OffReader"}, "execution-forwarded", rt.path, "reader dispatches by execution mode", "execution() arms in the reader: %s" % sorted(arms), rt.span, "Inline and OffReader arms")
