"""C02 - hostile bytes never crash a parser or reader; only consistent frames parse.

panic-site-discharge: every potential panic/abort site in the parsing/reading functions (and their in-crate
callees) is enumerated from MIR and must be discharged by one of the rules (i)-(vii) below, using the affine
forms and edge facts of analysis/affine.py.  accept-guards: every Ok exit is guarded by the consistency facts.
"""
from analysis.affine import Affine, Form, entails_le, entails_bounded, U64_MAX
from analysis.flow import trace_op, term_pt
from analysis.mir import callee_matches, op_place
from analysis.sym import Sym, render, walk, is_call
from rules.common import blocks_assigning_variant

ENTRIES = (
    "header::Header::decode",
    "message::Message::from_slice",
    "message::Message::from_slice_exact",
    "message::MessageView::<'a>::from_slice",
    "message::MessageView::<'a>::from_slice_exact",
    "io::read_message",
    "io::read_message_into",
    "async_io::read_message_async::{closure#0}",
    "async_io::read_message_into_async::{closure#0}",
)
DECODE = "header::Header::decode"
MSG_NEW = "message::Message::new"

EXPLANATION = (
    "panic-site-discharge: the nine parsing/reading entry points and every in-crate function they reach are scanned for "
    "every MIR site that can panic or abort - Assert terminators (overflow, bounds), slice Index/IndexMut calls, "
    "unwrap/expect, copy_from_slice, infallible allocations sized by a non-constant (from_elem, resize, with_capacity, "
    "reserve, to_vec), diverging calls - and each must be discharged by exactly one rule: (i) constant range inside a "
    "guarded length, (ii) width-matched try_into().unwrap() of an N-byte range into [u8;N], (iii) arithmetic whose "
    "affine form is bounded by a checked-sum fact / a slice length / an already stored machine integer, (iv) slice range "
    "whose end form is <= len(buf) on a dominating edge, (v) allocation bounded by the input length or dominated by the Ok "
    "edge of a fallible reservation of at least that size on the same vector, (vi) Read::read's contract n <= buf.len() "
    "(axiom), (vii) Message::new's error-path arithmetic is unreachable because every caller passes vectors whose lengths "
    "equal the header's.  Header::decode's Ok fact (48+q+b did not overflow and equals length) is derived from decode's own "
    "body and exported to its callers.  accept-guards: each Ok exit is guarded by magic ok, length == 48+q+b, frame present "
    "(exact variants: no trailing bytes); returned query/body are buf[48..48+q] and buf[48+q..48+q+b].  No raw-pointer or "
    "unchecked operation occurs in these functions.  stream-fills-frame: the four stream readers succeed only after the whole frame was read - the Message-returning readers reach Message::new only through a successful read_exact over the whole query/body vector (or its is_empty() edge) and a header buffer a successful read_exact filled; the frame-into-buffer readers reach Ok only when the regions filled by successful read_exact calls chain from 0 to len(buf) and len(buf) == 48+q+b; the local io::read_exact helper returns Ok only on the destination-exhausted edge, advances by exactly the count read and turns a 0-byte read into an error (tokio/std read_exact are trusted by contract).  Not decided: behaviour of the process under real memory pressure; "
    "panics inside std/tokio/serde callees other than the enumerated ones (assumed not to panic on any input)."
    ' The entry table is a floor: every function that calls Header::decode is analysed as a parser entry point; Vec::split_off is a panic site discharged by index <= length on a dominating edge.'
)
ASSUMPTIONS = [
    "64-bit target: usize == u64, so `as usize` on a wire length is lossless",
    "Read::read returns n <= buf.len()",
    "std/tokio functions other than the enumerated panic/alloc sites do not panic for any argument",
    "Vec::try_reserve(_exact) Ok guarantees capacity >= len + additional; resize within capacity does not allocate",
]

ALLOC_NAMES = ("from_elem", "resize", "with_capacity", "reserve", "reserve_exact", "to_vec", "to_owned", "extend_from_slice",
               "resize_with", "repeat", "into_boxed_slice", "split_off")
UNCHECKED = ("get_unchecked", "get_unchecked_mut", "from_raw_parts", "from_raw_parts_mut", "set_len", "unwrap_unchecked",
             "transmute", "read", "write", "offset", "add", "assume_init")


def reachable_bodies(facts, entries):
    seen = []
    stack = list(entries)
    while stack:
        p = stack.pop()
        if p in seen or p not in facts.bodies:
            continue
        seen.append(p)
        b = facts.bodies[p]
        for i, t in b.calls():
            cp = t["callee"]["path"]
            if cp in facts.bodies:
                stack.append(cp)
            # async fn: calling it creates the coroutine body
            if cp + "::{closure#0}" in facts.bodies and facts.bodies[cp + "::{closure#0}"].kind == "coroutine":
                stack.append(cp + "::{closure#0}")
        for i, j, s in b.assigns():
            rv = s["rv"]
            if rv.get("agg") in ("closure", "coroutine", "coroutine_closure"):
                stack.append(rv["def"])
    return seen


class Ctx:
    def __init__(self, facts, R):
        self.facts = facts
        self.R = R
        self.summaries = {}
        self.aff = {}
        self.obligations = 0
        self.discharged = 0
        self.decode_summary = None

    def affine(self, path):
        if path not in self.aff:
            self.aff[path] = Affine(self.facts.body(path), self.facts, self.summaries)
        return self.aff[path]


def derive_summaries(cx):
    """Helper summaries, each derived from the helper's own body."""
    facts = cx.facts
    for path, b in facts.bodies.items():
        if not (path.startswith("io::") or path.startswith("async_io::")):
            continue
        if b.kind not in ("fn", "method"):
            continue
        sym = Sym(b)
        v = sym.local(0)
        # reserve wrapper: returns [map_err](try_reserve[_exact](arg_a, arg_b))
        e = v
        while e[0] == "call" and e[1].endswith("map_err"):
            e = e[2][0]
        if e[0] == "call" and e[1].rsplit("::", 1)[-1] in ("try_reserve", "try_reserve_exact") and len(e[2]) == 2 \
                and e[2][0][0] == "arg" and e[2][1][0] == "arg":
            cx.summaries[path] = {"reserves": (e[2][0][1] - 1, e[2][1][1] - 1), "len_preserving": True}
    for path, b in facts.bodies.items():
        if not path.startswith("io::") or b.kind != "fn":
            continue
        if "Result<std::vec::Vec<u8>" not in b.local_ty(0):
            continue
        a = Affine(b, facts, cx.summaries)
        oks = blocks_assigning_variant(b, "std::result::Result", "Ok")
        arg_idx = None
        good = bool(oks)
        for i, j, s in oks:
            st = a.state_at((i, j))
            p = op_place(s["rv"]["ops"][0])
            f = st.get(("len", ("L", a.root_local(p)))) if p is not None else None
            if f is None or f.c != 0 or len(f.t) != 1:
                good = False
                continue
            (atom, co), = f.t.items()
            if atom[0] != "arg" or co != 1:
                good = False
                continue
            if arg_idx is None:
                arg_idx = atom[1] - 1
            elif arg_idx != atom[1] - 1:
                good = False
        if good and arg_idx is not None:
            cx.summaries.setdefault(path, {})["ok_len_arg"] = arg_idx


def derive_decode_summary(cx):
    """Facts that hold for the fields of Header::decode's Ok value, derived from decode's own body."""
    b = cx.facts.body(DECODE)
    a = cx.affine(DECODE)
    oks = blocks_assigning_variant(b, "std::result::Result", "Ok")
    if len(oks) != 1:
        cx.R.bad("accept-guards", DECODE, "single-Ok-exit", "Header::decode has %d Ok exits" % len(oks), b.span)
        return None
    i, j, s = oks[0]
    st = a.state_at((i, j))
    # the Header aggregate feeding Ok
    p = op_place(s["rv"]["ops"][0])
    hdr = None
    cur_l = p["l"]
    for _hop in range(6):
        nxt_l = None
        for d in b.defs_of(cur_l):
            if d[0] == "assign" and d[3].get("agg") == "adt" and d[3]["adt"] == "header::Header":
                hdr = d
            elif d[0] == "assign" and "use" in d[3] and op_place(d[3]["use"]) is not None and not op_place(d[3]["use"])["p"] and len(b.defs_of(cur_l)) == 1:
                nxt_l = op_place(d[3]["use"])["l"]      # built by an inlined reading half and moved here
        if hdr is not None or nxt_l is None:
            break
        cur_l = nxt_l
    if hdr is None:
        cx.R.bad("accept-guards", DECODE, "Ok-aggregate", "cannot find the Header aggregate returned by decode", b.span)
        return None
    sth = a.state_at((hdr[1], hdr[2]))
    field_of_atom = {}
    for nm, op in zip(hdr[3]["fields"], hdr[3]["ops"]):
        f = a.op_form(sth, op)
        if f is not None and f.c == 0 and len(f.t) == 1:
            (atom, co), = f.t.items()
            if co == 1:
                field_of_atom[atom] = nm
    fs = a.facts_at(i)
    out = []

    def lift(F):
        t = {}
        for atom, co in F.t.items():
            if atom not in field_of_atom:
                return None
            t[("field", field_of_atom[atom])] = co
        return Form(F.c, t)
    for f in fs:
        if f[0] == "nooverflow":
            L = lift(f[1])
            if L is not None:
                out.append(("nooverflow", L))
        elif f[0] in ("eq", "le"):
            L, Rr = lift(f[1]), lift(f[2])
            if L is not None and Rr is not None:
                out.append((f[0], L, Rr))
    cx.decode_summary = out
    return fs, out


def instantiate_decode(aff, fact, summary):
    """Turn a call_ok(Header::decode) fact into facts over this body's atoms for the unwrapped header."""
    out = []
    _, path, ct, aforms, cbb = fact[:5]
    variant_local, variant = fact[5], fact[6]
    payload = ("field", ("variant", aff.sym.local(variant_local), variant), "0")

    def inst(F):
        t = {}
        for atom, co in F.t.items():
            t[("sym", render(("field", payload, atom[1])))] = co
        return Form(F.c, t)
    for f in summary:
        if f[0] == "nooverflow":
            out.append(("nooverflow", inst(f[1])))
        else:
            out.append((f[0], inst(f[1]), inst(f[2])))
    return out


def site_facts(cx, aff, bb):
    """affine facts at bb, with summaries of in-crate callees instantiated."""
    fs = []
    b = aff.b
    from analysis.flow import edge_facts_at
    base = aff.facts_at(bb)
    # re-derive which local/variant each call_ok came from (needed for decode instantiation)
    extra = []
    for f in base:
        fs.append(f)
        if f[0] == "call_ok":
            # Ok of a fallible reservation on v: capacity >= len(v) + additional exists as a usize, so that sum cannot overflow
            cp, ct, aforms, cbb = f[1], f[2], f[3], f[4]
            summ = cx.summaries.get(cp, {})
            ri = summ.get("reserves") or ((0, 1) if cp.rsplit("::", 1)[-1] in ("try_reserve", "try_reserve_exact") else None)
            if ri is not None and len(aforms) > max(ri) and aforms[ri[1]] is not None:
                stc = aff.state_at(term_pt(b, cbb))
                vp = op_place(ct["args"][ri[0]])
                lc = stc.get(("len", aff.len_key(vp))) if vp is not None else None
                if lc is None:
                    lc = aff.len_form(stc, ct["args"][ri[0]])
                if lc is not None:
                    extra.append(("nooverflow", lc.add(aforms[ri[1]])))
    for s, vals, succ in edge_facts_at(b, bb):
        d = aff.switch_desc.get(s)
        if not d or d[0] != "discr" or "call" not in d[1]:
            continue
        info = d[1]
        cbb, ct, aforms = info["call"]
        if ct["callee"]["path"] != DECODE or cx.decode_summary is None:
            continue
        vm = info["variants"] or {}
        t = b.term(s)
        explicit = [v for v, _ in t["targets"]]
        names = [vm.get(v, str(v)) for v in vals if v is not None] + ([n for dd, n in vm.items() if dd not in explicit] if None in vals else [])
        if len(names) == 1 and names[0] in ("Continue", "Ok"):
            extra += instantiate_decode(aff, ("call_ok", DECODE, ct, aforms, cbb, info["local"], names[0]), cx.decode_summary)
    return fs + extra


def analyse_body(cx, path):
    facts, R = cx.facts, cx.R
    b = facts.body(path)
    aff = cx.affine(path)
    sym = aff.sym
    live = b.live_blocks()

    def ob(kind, ok, what, msg, span, detail=None, path_=None):
        cx.obligations += 1
        if ok:
            cx.discharged += 1
        R.check(ok, "panic-site-discharge", path, what, msg, span, detail)

    nth = {}

    def label(kind, bb):
        nth[kind] = nth.get(kind, 0) + 1
        return "%s#%d" % (kind, nth[kind])

    for bb in sorted(live):
        bl = b.blocks[bb]
        t = bl["term"]
        # ---- Assert terminators
        if t["k"] == "assert":
            msg = t["msg"]
            if msg in ("resumed_after_return", "resumed_after_panic"):
                continue
            p = op_place(t["cond"])
            fs = site_facts(cx, aff, bb)
            if msg.startswith("overflow("):
                # cond is _x.1 with _x = <Op>WithOverflow(a, b) assigned in this block
                x = p["l"]
                d = [dd for dd in b.defs_of(x) if dd[0] == "assign"]
                rv = d[0][3] if d else None
                st = aff.state_at((d[0][1], d[0][2])) if d else {}
                fa = aff.op_form(st, rv["a"]) if rv else None
                fb = aff.op_form(st, rv["b"]) if rv else None
                what = label(msg, bb)
                if fa is None or fb is None:
                    ob("overflow", False, what, "cannot form the operands of %s" % msg, t.get("span"))
                    continue
                if "Add" in msg:
                    F = fa.add(fb)
                    scope = [v for k, v in st.items() if k[0] == "L" and k[1] != x]
                    ok = entails_bounded(fs, F, scope)
                    if not ok and path == MSG_NEW and _only_on_mismatch(aff, bb):
                        cx.obligations += 1
                        cx.discharged += 1
                        R.ok("panic-site-discharge", path, what, t.get("span"),
                             "(vii) reachable only when header lengths != vector lengths; every caller in the reader closure passes agreeing lengths "
                             "(rule message-new-lengths-agree)")
                        continue
                    ob("overflow", ok, what, "`%s` (= %s + %s) is not bounded by a checked sum, an input length or an existing machine integer: "
                       "values taken from the wire can overflow it (panic in debug builds, silent wrap in release)" % (F, fa, fb), t.get("span"),
                       "(iii) %s bounded" % F)
                elif "Sub" in msg:
                    ok = entails_le(fs, fb, fa)
                    ob("overflow", ok, what, "`%s - %s` can underflow: %s <= %s is not established on this path" % (fa, fb, fb, fa), t.get("span"),
                       "(iii) %s <= %s" % (fb, fa))
                elif "Mul" in msg:
                    F = None
                    if fa.is_const() or fb.is_const():
                        F = fb.scale(fa.c) if fa.is_const() else fa.scale(fb.c)
                    ok = F is not None and entails_bounded(fs, F, [])
                    ob("overflow", ok, what, "multiplication %s * %s is not bounded" % (fa, fb), t.get("span"))
                else:
                    ob("overflow", False, what, "unhandled %s" % msg, t.get("span"))
            elif msg == "bounds":
                # cond = Lt(index, len)
                d = [dd for dd in b.defs_of(p["l"]) if dd[0] == "assign"]
                rv = d[0][3] if d else None
                what = label("bounds", bb)
                ok = False
                detail = None
                if rv and rv.get("bin") == "Lt":
                    st = aff.state_at((d[0][1], d[0][2]))
                    fi = aff.op_form(st, rv["a"])
                    fl = _len_operand_form(aff, st, rv["b"])
                    if fi is not None and fl is not None:
                        ok = entails_le(fs, fi.add(Form.const(1)), fl)
                        detail = "(i) %s < %s" % (fi, fl)
                ob("bounds", ok, what, "index is not proven below the slice length (%s)" % detail, t.get("span"), detail)
            else:
                ob("assert", False, label(msg, bb), "unhandled assert kind %s" % msg, t.get("span"))
            continue
        if t["k"] != "call":
            continue
        c = t["callee"]
        name = c["name"]
        args = t["args"]
        # ---- diverging calls = explicit panics
        if t["target"] is None:
            ob("panic", False, label("diverging:" + name, bb), "explicit panic `%s` is reachable" % c["path"], t.get("span"))
            continue
        if name in UNCHECKED and ("ptr" in c["path"] or "unchecked" in name or name in ("set_len", "transmute", "from_raw_parts", "from_raw_parts_mut", "assume_init")):
            ob("unsafe", False, label("unchecked:" + name, bb), "unchecked/raw operation `%s` in a parser" % c["path"], t.get("span"))
            continue
        # ---- slice indexing
        if name in ("index", "index_mut") and c.get("trait", "").startswith("std::ops::Index") and len(args) == 2:
            st = aff.state_at(term_pt(b, bb))
            fs = site_facts(cx, aff, bb)
            rb = aff.range_bounds(st, args[1])
            what = label("slice-index", bb)
            if rb is None:
                # usize index on a slice / other container
                ob("index", False, what, "unrecognised index expression", t.get("span"))
                continue
            kind, s, e, has_s, has_e = rb
            blen = aff._slice_len(st, args[0])
            ok = s is not None and blen is not None
            why = []
            if ok and has_e:
                ok = e is not None and entails_le(fs, e, blen)
                why.append("end %s <= %s: %s" % (e, blen, ok))
                if ok and has_s:
                    ok2 = entails_le(fs, s, e)
                    why.append("start %s <= end: %s" % (s, ok2))
                    ok = ok and ok2
            elif ok:
                ok = entails_le(fs, s, blen)
                why.append("start %s <= %s: %s" % (s, blen, ok))
                if not ok:
                    # (vi) Read::read contract
                    origs = trace_op(b, _range_start_op(b, args[1]))
                    if origs and all(o.kind == "call" and o.info["callee"]["name"] == "read" and (o.info["callee"].get("trait") or "").endswith("io::Read")
                                     and aff.root_local(op_place(o.info["args"][1])) == aff.root_local(op_place(args[0])) for o in origs):
                        ok = True
                        why.append("(vi) start is Read::read's return value for this very buffer (n <= buf.len())")
                        R.exception("panic-site-discharge", path + ":read-contract", "Read::read returns n <= buf.len() (std contract)")
            ob("index", ok, what, "slice range %s..%s of a buffer of length %s can be out of range for hostile length fields (%s)"
               % (s, e if has_e else "", blen, "; ".join(why)), t.get("span"), "(iv) " + "; ".join(why))
            continue
        # ---- slice.split_at(n) panics when n > len
        if name in ("split_at", "split_at_mut", "split_first_chunk", "split_last_chunk") and ("[T]" in c["path"] or "slice" in c["path"]) and len(args) == 2:
            st = aff.state_at(term_pt(b, bb))
            fs = site_facts(cx, aff, bb)
            blen = aff._slice_len(st, args[0])
            n = aff.op_form(st, args[1])
            ok = name.startswith("split_at") and blen is not None and n is not None and entails_le(fs, n, blen)
            ob("index", ok, label("split", bb), "`%s(%s)` of a slice of length %s can be out of range for hostile length fields" % (name, n, blen), t.get("span"),
               "(iv) mid %s <= %s" % (n, blen))
            continue
        # ---- unwrap / expect
        if name in ("unwrap", "expect") and ("Result" in c["path"] or "Option" in c["path"]):
            e = sym.op(args[0])
            what = label("unwrap", bb)
            ok = False
            detail = None
            if e[0] == "call" and e[1].endswith("try_into"):
                # (ii) width-matched: &input[a..b] -> [u8; N]
                N = _array_len(c["targs"][0] if c["targs"] else "")
                inner = op_place(args[0])
                # find the index call feeding try_into
                idx = _feeding_index(b, inner)
                if idx is not None and N is not None:
                    ibb, it = idx
                    st = aff.state_at(term_pt(b, ibb))
                    rb = aff.range_bounds(st, it["args"][1])
                    if rb and rb[1] is not None and rb[2] is not None:
                        w = rb[2].sub(rb[1])
                        ok = w.is_const() and w.c == N
                        detail = "(ii) %d-byte range into [u8; %d]" % (w.c if w.is_const() else -1, N)
            ob("unwrap", ok, what, "unwrap/expect on %s can panic (%s)" % (render(e)[:120], detail), t.get("span"), detail)
            continue
        if name == "copy_from_slice":
            st = aff.state_at(term_pt(b, bb))
            a0, a1 = aff._slice_len(st, args[0]), aff._slice_len(st, args[1])
            ok = a0 is not None and a1 is not None and a0 == a1
            ob("copy", ok, label("copy_from_slice", bb), "copy_from_slice with lengths %s vs %s" % (a0, a1), t.get("span"), "(i) equal lengths %s" % a0)
            continue
        # ---- allocations sized by a value
        if name in ALLOC_NAMES and ("Vec" in c["path"] or "vec::" in c["path"] or "slice" in c["path"]):
            st = aff.state_at(term_pt(b, bb))
            fs = site_facts(cx, aff, bb)
            what = label("alloc:" + name, bb)
            if name == "from_elem":
                n = aff.op_form(st, args[1])
                ok = n is not None and n.is_const() and n.c <= (1 << 24)
                ob("alloc", ok, what, "vec![_; %s] is sized by a value that is not a small constant: a hostile declared length aborts the process in the "
                   "allocator" % n, t.get("span"), "(v) constant size %s" % n)
            elif name in ("to_vec", "to_owned"):
                sl = aff._slice_len(st, args[0])
                # copy out of the input: the slice exists, so its length is that of a real in-memory buffer
                ok = sl is not None
                ob("alloc", ok, what, "to_vec of a slice of unknown extent", t.get("span"), "(v) copies %s bytes out of an existing in-memory slice" % sl)
            elif name == "extend_from_slice":
                ob("alloc", True, what, "", t.get("span"), "(v) appends an existing in-memory slice")
            elif name in ("resize", "with_capacity", "reserve", "reserve_exact", "resize_with"):
                n = aff.op_form(st, args[1] if name != "with_capacity" else args[0])
                ok = False
                detail = None
                if n is not None and n.is_const() and n.c <= (1 << 24):
                    ok, detail = True, "(v) constant size %s" % n
                elif n is not None and name in ("resize", "resize_with"):
                    root = aff.len_key(op_place(args[0]))
                    for f in fs:
                        if f[0] != "call_ok":
                            continue
                        cp, ct, aforms = f[1], f[2], f[3]
                        summ = cx.summaries.get(cp, {})
                        ri = None
                        if "reserves" in summ:
                            ri = summ["reserves"]
                        elif cp.rsplit("::", 1)[-1] in ("try_reserve", "try_reserve_exact"):
                            ri = (0, 1)
                        if ri is None:
                            continue
                        vp = op_place(ct["args"][ri[0]])
                        if vp is None or aff.len_key(vp) != root:
                            continue
                        add = aforms[ri[1]]
                        stc = aff.state_at(term_pt(b, f[4]))
                        lc = stc.get(("len", root))
                        if lc is None:
                            lc = aff.len_form(stc, ct["args"][ri[0]])   # a caller-owned vector: its length is the symbolic len(v)
                        if add is None or lc is None:
                            continue
                        if entails_le(fs, n, lc.add(add)):
                            ok, detail = True, "(v) dominated by Ok of %s: capacity >= %s + %s >= %s" % (cp.rsplit("::", 1)[-1], lc, add, n)
                ob("alloc", ok, what, "`%s(%s)` is sized by a wire-controlled value without a fallible reservation of at least that size on the "
                   "same vector: a frame declaring 2^62 bytes aborts the process in the allocator" % (name, n), t.get("span"), detail)
            elif name == "split_off" and len(args) == 2:
                # v.split_off(at) panics for at > len(v); the tail it allocates is part of a vector that already exists
                n = aff.op_form(st, args[1])
                ln = aff.len_form(st, args[0])
                ok = n is not None and ln is not None and entails_le(fs, n, ln)
                ob("alloc", ok, what, "`split_off(%s)` on a vector of length %s: the index is a wire-controlled value not known to be within the vector on this "
                   "path - a short read or a hostile declared length panics" % (n, ln), t.get("span"), "(iv) %s <= %s on a dominating edge" % (n, ln))
            else:
                ob("alloc", False, what, "unhandled allocation `%s`" % c["path"], t.get("span"))
            continue
        # ---- in-crate callees are analysed as part of F; Message::new has its own rule
    # raw pointers
    for i, j, s in b.assigns():
        if "rawptr" in s["rv"]:
            ob("unsafe", False, label("rawptr", i), "raw pointer taken in a parser", s.get("span"))
    return aff


def _only_on_mismatch(aff, bb):
    """Message::new: is block bb reachable only through a `header.*_length != vec.len()` edge?"""
    from analysis.flow import must_cross
    b = aff.b
    evs = []
    for s, d in aff.switch_desc.items():
        if d[0] != "cmp" or d[1] not in ("Ne", "Eq"):
            continue
        forms = (d[2], d[3])
        has_len = any(len(f.t) == 1 and list(f.t)[0][0] == "len" for f in forms)
        has_fld = any(len(f.t) == 1 and list(f.t)[0][0] == "sym" and list(f.t)[0][1].endswith(("query_length", "body_length")) for f in forms)
        if not (has_len and has_fld):
            continue
        t = b.term(s)
        zero_t = [x for v, x in t["targets"] if v == 0]
        true_t = t["otherwise"] if [v for v, _ in t["targets"]] == [0] else None
        mism = true_t if d[1] == "Ne" else (zero_t[0] if zero_t else None)
        if mism is not None:
            evs.append((mism, 0))
    if len(evs) < 2:
        return False
    return must_cross(b, [(0, 0)], [(bb, 0)], evs, after_start=False) is None


def _len_operand_form(aff, st, op):
    p = op_place(op)
    if p is None:
        return aff.op_form(st, op)
    d = aff.b.defs_of(p["l"])
    if len(d) == 1 and d[0][0] == "assign":
        rv = d[0][3]
        if rv.get("un") == "PtrMetadata":
            return aff._slice_len(st, rv["a"])
        if "len" in rv:
            return aff.len_form(st, {"copy": rv["len"]})
    return aff.op_form(st, op)


def _range_start_op(b, rng_op):
    p = op_place(rng_op)
    for d in b.defs_of(p["l"]):
        if d[0] == "assign" and d[3].get("agg") == "adt":
            dd = dict(zip(d[3]["fields"], d[3]["ops"]))
            return dd.get("start")
    return rng_op


def _array_len(ty):
    # "[u8; 8]"
    if ty.startswith("[u8; ") and ty.endswith("]"):
        try:
            return int(ty[5:-1])
        except ValueError:
            return None
    return None


def _feeding_index(b, place):
    l = place["l"]
    for _ in range(8):
        d = b.defs_of(l)
        if len(d) != 1:
            return None
        if d[0][0] == "call":
            t = d[0][2]
            if t["callee"]["name"] in ("index", "index_mut"):
                return (d[0][1], t)
            if t["callee"]["name"] in ("try_into", "try_from", "as_ref", "borrow", "deref"):
                p = op_place(t["args"][0])
                if p is None:
                    return None
                l = p["l"]
                continue
            return None
        if d[0][0] == "assign":
            rv = d[0][3]
            nxt = rv.get("ref") or op_place(rv.get("use", {})) or op_place(rv.get("cast", {}))
            if not nxt:
                return None
            l = nxt["l"]
            continue
        return None
    return None


def run(facts, R):
    cx = Ctx(facts, R)
    # the entry table is a floor, not the domain: every function that decodes a wire header is a parser / reader of hostile
    # bytes, whatever it is called and whenever it was added
    # (a decode call that reached a function only because a reference-tree parser was spliced into it for analysis - `from_slice`
    # inlined into a connection loop - does not make that function a parser: the parser is analysed in its own right)
    import json as _json
    import os as _os
    from analysis.canon import KNOWN as _KNOWN
    try:
        ref_fns = set(_json.load(open(_KNOWN)).get("fns", {}))
    except Exception:
        ref_fns = set()
    derived = sorted({b.path for b, i_, _ in facts.calls_to(DECODE) if b.path not in ENTRIES and not b.path.startswith("tests::") and "::tests::" not in b.path
                      and not (b.blocks[i_].get("inlined_from") in ref_fns)})
    if derived:
        R.note("derived entry points (callers of Header::decode outside the table): " + ", ".join(derived))
    F = reachable_bodies(facts, tuple(ENTRIES) + tuple(derived))
    for e in ENTRIES:
        if e not in facts.bodies:
            raise Exception("entry point %s not found" % e)
    R.note("functions analysed (entry points + in-crate callees): " + ", ".join(F))
    R.floor("panic-site-discharge", len(F), 12, "functions in the parser/reader closure")
    derive_summaries(cx)
    R.note("helper summaries: %s" % {k: v for k, v in cx.summaries.items()})
    dres = derive_decode_summary(cx)
    if dres:
        R.note("decode Ok summary: %s" % [(f[0],) + tuple(str(x) for x in f[1:]) for f in cx.decode_summary])
    for p in F:
        analyse_body(cx, p)

    # ---- (vii) Message::new: error-path arithmetic unreachable from the readers
    if MSG_NEW in F:
        nb = facts.body(MSG_NEW)
        naff = cx.affine(MSG_NEW)
        callers = [(b, i, t) for (b, i, t) in facts.calls_to(MSG_NEW) if b.path in F]
        R.floor("message-new-lengths-agree", len(callers), 3, "calls of Message::new from the parser/reader closure")
        for b, i, t in callers:
            aff = cx.affine(b.path)
            st = aff.state_at(term_pt(b, i))
            hp = op_place(t["args"][0])
            sym = aff.sym
            he = sym.op(t["args"][0])
            if hp is not None:
                # the header may come out of a helper's tuple result: follow it back to the decoded header itself
                he = sym.place(aff.resolve_place(hp))
            ok = True
            det = []
            for k, fld in ((1, "query_length"), (2, "body_length")):
                vp = op_place(t["args"][k])
                ln = st.get(("len", ("L", aff.root_local(vp)))) if vp is not None else None
                want = Form.atom(("sym", render(("field", he, fld))))
                same = ln is not None and ln == want
                det.append("len(arg%d)=%s vs header.%s=%s" % (k, ln, fld, want))
                ok = ok and same
            if not ok and he is not None and he[0] in ("field", "variant") and any(is_call(x, DECODE) for x in walk(he)) and "as Continue" in render(he) or \
                    (not ok and he is not None and any(is_call(x, DECODE) for x in walk(he)) and ("as Ok" in render(he) or "as Continue" in render(he))):
                # the header is the Ok value of Header::decode: 48 + q + b was checked not to overflow there, so Message::new's
                # mismatch path (which recomputes that sum) cannot overflow either; its `got` sum is over real vector lengths
                ok = True
                det.append("header is decode's Ok value: the mismatch path's arithmetic is bounded by decode's checked sum")
            R.check(ok, "message-new-lengths-agree", b.path, "Message::new(header, query, body) lengths",
                    "Message::new is called with vectors whose lengths are not the header's declared lengths (%s): its error path, whose arithmetic "
                    "is unchecked, becomes reachable from wire input" % "; ".join(det), t.get("span"), "; ".join(det))

    # ---- accept-guards
    accept_guards(cx, facts, R)
    stream_fills_frame(cx, facts, R)
    R.note("obligations=%d discharged=%d" % (cx.obligations, cx.discharged))
    run.cx = cx


def accept_guards(cx, facts, R):
    # Header::decode
    b = facts.body(DECODE)
    a = cx.affine(DECODE)
    oks = blocks_assigning_variant(b, "std::result::Result", "Ok")
    for i, j, s in oks:
        fs = a.facts_at(i)
        has_len = any(f[0] == "le" and f[1].is_const() and f[1].c == 48 and len(f[2].t) == 1 for f in fs)
        has_sum = any(f[0] == "nooverflow" and f[1].c == 48 and len(f[1].t) == 2 for f in fs) and any(f[0] == "eq" and f[1].c == 48 and len(f[1].t) == 2 for f in fs)
        has_magic = any(f[0] == "eq" and ((f[1].is_const() and f[1].c == facts.const_value("constants::REPE_SPEC")) or
                                          (f[2].is_const() and f[2].c == facts.const_value("constants::REPE_SPEC"))) for f in fs)
        R.check(has_len and has_sum and has_magic, "accept-guards", DECODE, "Ok-exit",
                "Header::decode accepts without {48 bytes present: %s, spec == REPE_SPEC: %s, length == 48+q+b without overflow: %s}" % (has_len, has_magic, has_sum),
                s.get("span"), "guarded by len>=48, spec==0x1507, length == checked(48+q+b)")
    # from_slice (owned and view)
    for path in ("message::Message::from_slice", "message::MessageView::<'a>::from_slice"):
        b = facts.body(path)
        a = cx.affine(path)
        oks = blocks_assigning_variant(b, "std::result::Result", "Ok")
        calls_new = [(i, t) for i, t in b.calls() if callee_matches(t["callee"], MSG_NEW)]
        exits = [(i, s.get("span")) for i, j, s in oks] + [(i, t.get("span")) for i, t in calls_new]
        R.floor("accept-guards", len(exits), 1, "accepting exits of " + path)
        for i, span in exits:
            fs = site_facts(cx, a, i)
            decoded = any(f[0] == "nooverflow" and f[1].c == 48 and len(f[1].t) == 2 for f in fs)
            present = any(f[0] == "le" and f[1].c == 48 and len(f[1].t) == 2 and all(k[0] == "sym" and k[1].endswith(("query_length", "body_length")) for k in f[1].t)
                          and len(f[2].t) == 1 and list(f[2].t)[0][0] == "len" for f in fs)
            R.check(decoded and present, "accept-guards", path, "accepting-exit",
                    "from_slice accepts without {header decoded Ok: %s, 48+q+b <= len(buf): %s}" % (decoded, present), span,
                    "guarded by decode Ok and 48+q+b <= len(buf)")
        # region rule: query = buf[48..48+q], body = buf[48+q..48+q+b]
        idx = [(i, t) for i, t in b.calls() if t["callee"]["name"] == "index" and len(t["args"]) == 2]
        rows = []
        where = {}     # ("idx", bb) / ("split", bb, "0"|"1") -> row: which expression denotes which byte range
        for i, t in idx:
            st = a.state_at(term_pt(b, i))
            rb = a.range_bounds(st, t["args"][1])
            base_arg = a.root_local(op_place(t["args"][0])) == 1
            if rb and base_arg:
                rows.append((str(rb[1]), str(rb[2])))
                where[("idx", i)] = rows[-1]
            elif rb and getattr(b, "changed", False):
                # a range of a sub-slice of buf that is itself known as buf[off ..] (`let Some(frame) = buf.get(..n)`, then frame[a..b])
                ar = a.abs_range(st, t["args"][0], t["args"][1])
                if ar is not None and ar[0] == 1:
                    rows.append((str(ar[1]), str(ar[2])))
                    where[("idx", i)] = rows[-1]
        # payload = &buf[48..E]; (query, body) = payload.split_at(n)  ==  buf[48..48+n], buf[48+n..E]
        for i, t in b.calls():
            if t["callee"]["name"] != "split_at" or len(t["args"]) != 2:
                continue
            st = a.state_at(term_pt(b, i))
            src = a.root_local(op_place(t["args"][0]))
            info = a.call_info.get(src)
            n = a.op_form(st, t["args"][1])
            if info is None or n is None or info[1]["callee"]["name"] != "index" or a.root_local(op_place(info[1]["args"][0])) != 1:
                continue
            rb = a.range_bounds(a.state_at(term_pt(b, info[0])), info[1]["args"][1])
            if rb and rb[1] is not None and rb[2] is not None and (str(rb[1]), str(rb[2])) in rows:
                rows.remove((str(rb[1]), str(rb[2])))
                rows.append((str(rb[1]), str(rb[1].add(n))))
                rows.append((str(rb[1].add(n)), str(rb[2])))
                where.pop(("idx", info[0]), None)
                where[("split", i, "0")] = rows[-2]
                where[("split", i, "1")] = rows[-1]

        def nm(s_):
            return s_
        q = [r for r in rows if r[0] == "48" and r[1].endswith("query_length + 48") and "body_length" not in r[1]]
        bd = [r for r in rows if "query_length" in r[0] and r[0].endswith("+ 48") and "body_length" in r[1] and "query_length" in r[1]]
        R.check(len(q) == 1 and len(bd) == 1, "accept-guards", path, "payload-regions",
                "query/body are not sliced as buf[48..48+q] and buf[48+q..48+q+b]: ranges found %s" % rows, b.span, "ranges %s" % rows)
        # ... and each range ends up in its own slot of what is returned: the query range as the query, the body range as the body
        if len(q) == 1 and len(bd) == 1:
            sym = Sym(b)

            def regions(e, out):
                if not isinstance(e, tuple):
                    return out
                if e and e[0] == "field" and isinstance(e[1], tuple) and e[1] and e[1][0] == "call" and len(e[1]) > 3 and ("split", e[1][3], e[2]) in where:
                    out.add(where[("split", e[1][3], e[2])])
                    return out
                if e and e[0] == "call" and len(e) > 3 and ("idx", e[3]) in where:
                    out.add(where[("idx", e[3])])
                    return out
                for x in e:
                    if isinstance(x, tuple):
                        regions(x, out)
                return out
            slots = []     # (what, value of the query slot, value of the body slot, span)
            from analysis.sym import split_eval, split_rows
            chg = getattr(b, "changed", False)
            for i, t in calls_new:
                alts = (split_eval(sym, i, len(b.blocks[i]["stmts"]), lambda v_: (v_.op(t["args"][1]), v_.op(t["args"][2]))) if chg else None) \
                    or [({}, (sym.op(t["args"][1]), sym.op(t["args"][2])))]
                for _, (qv_, bv_) in alts:
                    slots.append(("Message::new", qv_, bv_, t.get("span")))
            for i, j, s_ in oks:
                for _, v in ((split_rows(sym, i, j, s_["rv"]) if chg else None) or [({}, sym.rvalue(s_["rv"]))]):
                  if True:
                    inner = dict(v[3]).get("0") if v[0] == "agg" else None
                    if inner is not None and inner[0] == "agg" and inner[3] and {"query", "body"} <= set(dict(inner[3])):
                        d_ = dict(inner[3])
                        slots.append(("Ok value", d_["query"], d_["body"], s_.get("span")))
                    elif inner is not None and not calls_new:
                        slots.append(("Ok value", ("field", inner, "query"), ("field", inner, "body"), s_.get("span")))
            R.floor("accept-guards", len(slots), 1, "returned query/body slots of " + path)
            for what_, qv, bv, span in slots:
                rq, rb_ = regions(qv, set()), regions(bv, set())
                R.check(rq == {q[0]} and rb_ == {bd[0]}, "accept-guards", path, "payload-slots",
                        "%s of %s does not carry buf[48..48+q] as the query and buf[48+q..48+q+b] as the body: the query slot holds range(s) %s, the body slot %s" % (
                            what_, path.split("::")[-2] + "::from_slice", sorted(rq), sorted(rb_)), span, "query <- %s, body <- %s" % (q[0], bd[0]))
    # exact variants: trailing bytes rejected
    for path, inner in (("message::Message::from_slice_exact", "message::Message::from_slice"),
                        ("message::MessageView::<'a>::from_slice_exact", "message::MessageView::<'a>::from_slice")):
        b = facts.body(path)
        a = cx.affine(path)
        oks = blocks_assigning_variant(b, "std::result::Result", "Ok")
        R.floor("accept-guards", len(oks), 1, "Ok exits of " + path)
        for i, j, s in oks:
            fs = a.facts_at(i)
            okc = any(f[0] == "call_ok" and f[1] == inner for f in fs)
            eq = any(f[0] == "eq" and ((len(f[1].t) == 1 and list(f[1].t)[0][0] == "len" and f[2].c == 48 and len(f[2].t) == 2) or
                                       (len(f[2].t) == 1 and list(f[2].t)[0][0] == "len" and f[1].c == 48 and len(f[1].t) == 2)) for f in fs)
            R.check(okc and eq, "accept-guards", path, "Ok-exit",
                    "exact variant accepts without {inner parse Ok: %s, len(buf) == 48+len(query)+len(body): %s}" % (okc, eq), s.get("span"),
                    "guarded by from_slice Ok and len(buf) == 48 + q + b")


# ---------------------------------------------------------------------------------------------------------------
# stream-fills-frame: a stream reader succeeds only after the *whole* frame was read (a truncated stream is an error)

EXACT_FILL_AXIOM = ("tokio::io::AsyncReadExt::read_exact", "std::io::Read::read_exact")
LOCAL_FILL = "io::read_exact"
_ORD = __import__("re").compile(r"#\d+")


def _strip_ready(e):
    """Try::branch arg -> underlying call: peel `(poll(fut, cx) as Ready).0`, into_future, pin wrappers."""
    for _ in range(8):
        if e[0] == "field" and e[2] in ("0", 0):
            e = e[1]
        elif e[0] in ("downcast", "variant"):
            e = e[1]
        elif e[0] == "call" and e[1].rsplit("::", 1)[-1] in ("poll", "into_future", "new_unchecked", "new", "get_unchecked_mut") and e[2]:
            e = e[2][0]
        else:
            break
    return e


def _fill_calls_ok_at(b, sym, facts, bb):
    """read_exact call nodes whose `?` Continue edge dominates bb."""
    from analysis.guards import facts_at
    out = []
    for f in facts_at(b, sym, facts, bb):
        e = f["expr"]
        if not (e[0] == "call" and e[1].endswith("::branch") and str(f["val"]) == "Continue"):
            continue
        c = _strip_ready(e[2][0])
        if c[0] == "call" and (c[1] == LOCAL_FILL or c[1] in EXACT_FILL_AXIOM):
            out.append(c)
    return out


def _check_local_fill_helper(cx, facts, R):
    """io::read_exact returns Ok only once the destination slice is exhausted, consumes exactly n per read, and
    treats n == 0 as an error."""
    from analysis.guards import facts_at
    if LOCAL_FILL not in facts.bodies:
        return False
    b = facts.body(LOCAL_FILL)
    sym = Sym(b)
    oks = blocks_assigning_variant(b, "std::result::Result", "Ok")
    good = bool(oks)
    for i, j, s in oks:
        fs = facts_at(b, sym, facts, i)
        em = [f for f in fs if f["expr"][0] == "call" and f["expr"][1].endswith("is_empty") and f["val"] is True]
        good = good and bool(em)
    R.check(good, "stream-fills-frame", LOCAL_FILL, "Ok only when the destination is exhausted",
            "io::read_exact can return Ok while the destination slice still has unread space (short read accepted)", b.span,
            "every Ok exit is on the is_empty() edge")
    # n == 0 is an error exit
    errs = blocks_assigning_variant(b, "std::result::Result", "Err")
    zero_err = False
    for i, j, s in errs:
        for f in facts_at(b, sym, facts, i):
            t = render(f["expr"])
            if "read" in t and ("Eq 0" in t and f["val"] is True or "Ne 0" in t and f["val"] is False or f["val"] == 0):
                zero_err = True
    R.check(zero_err, "stream-fills-frame", LOCAL_FILL, "a 0-byte read (EOF) is an error",
            "io::read_exact has no error exit for read() == 0", b.span, "Err on n == 0")
    # the slice is advanced by exactly n
    adv = [(i, t) for i, t in b.calls() if t["callee"]["name"] == "index_mut"]
    ok_adv = False
    for i, t in adv:
        a = cx.affine(LOCAL_FILL)
        rb = a.range_bounds(a.state_at(term_pt(b, i)), t["args"][1])
        if rb and rb[0] == "RangeFrom":
            r = render(sym.op(_range_start_operand(b, t["args"][1])))
            ok_adv = "read" in r and "Continue" in r
    R.check(ok_adv, "stream-fills-frame", LOCAL_FILL, "advance by the number of bytes read",
            "io::read_exact does not re-slice its destination as [n..] with n the read() result", b.span, "buf = &mut buf[n..]")
    return True


def _range_start_operand(b, rng_op):
    p = op_place(rng_op)
    d = b.defs_of(p["l"])[0][3]
    return dict(zip(d["fields"], d["ops"]))["start"]


def _is_qb(form, c):
    ks = sorted(k[1].rsplit(".", 1)[-1] if k[0] == "sym" else str(k) for k in form.t)
    return form.c == c and ks == ["body_length", "query_length"] and all(v == 1 for v in form.t.values())


def stream_fills_frame(cx, facts, R):
    from analysis.flow import must_cross
    from analysis.guards import facts_at
    _check_local_fill_helper(cx, facts, R)
    n_into = n_msg = 0
    for path in ENTRIES:
        if not (path.startswith("io::read_message") or path.startswith("async_io::read_message")):
            continue
        b = facts.body(path)
        sym = Sym(b)
        a = cx.affine(path)
        fills = [(i, t) for i, t in b.calls() if t["callee"]["path"] == LOCAL_FILL or t["callee"]["path"] in EXACT_FILL_AXIOM]
        news = [(i, t) for i, t in b.calls() if callee_matches(t["callee"], MSG_NEW)]
        if news:
            # Message-returning reader: header array + two vectors, each filled completely or empty
            n_msg += 1
            for i, t in news:
                okc = _fill_calls_ok_at(b, sym, facts, i)
                # header: decode's input is a buffer some successful read_exact filled
                hdr = sym.op(t["args"][0])
                dec = [c for c in sym_calls(hdr) if c[1] == DECODE]
                hdr_ok = bool(dec) and any(_ORD.sub("", render(c[2][1])) == _ORD.sub("", render(dec[0][2][0])) for c in okc)
                R.check(hdr_ok, "stream-fills-frame", path, "header bytes come from a completed read_exact",
                        "the header handed to Header::decode is not the buffer a successful read_exact filled", t.get("span"))
                for k, nm in ((1, "query"), (2, "body")):
                    vexpr = render(sym.op(t["args"][k]))
                    # (guards are spelled with temporaries resolved by reaching definitions; spell the vector the same way too)
                    from analysis.sym import SymAt
                    vexprs = {vexpr, render(SymAt(sym, i, len(b.blocks[i]["stmts"]), named=False).op(t["args"][k]))}
                    if getattr(b, "changed", False):
                        # the vector may arrive through a value built on several paths (a local closure or helper returning
                        # Ok(segment), spliced in): one spelling per combination of reaching definitions
                        from analysis.sym import split_eval
                        for _, v_ in split_eval(sym, i, len(b.blocks[i]["stmts"]), lambda w_: w_.op(t["args"][k])) or []:
                            vexprs.add(render(v_))
                    vp = op_place(t["args"][k])
                    vl = a.root_local(vp) if vp is not None else None
                    defs = b.defs_of(vl) if vl is not None else []
                    if len(defs) != 1:
                        R.bad("stream-fills-frame", path, "%s buffer has one definition" % nm, "cannot identify the %s buffer" % nm, t.get("span"))
                        continue
                    ev = set()
                    for bb in b.live_blocks():
                        for f in facts_at(b, sym, facts, bb):
                            e = f["expr"]
                            if e[0] == "call" and e[1].endswith("::branch") and str(f["val"]) == "Continue":
                                c = _strip_ready(e[2][0])
                                if c[0] == "call" and (c[1] == LOCAL_FILL or c[1] in EXACT_FILL_AXIOM) and render(c[2][1]) in vexprs:
                                    ev.add((bb, 0))
                            if e[0] == "call" and e[1].endswith("is_empty") and f["val"] is True and render(e[2][0]) in vexprs:
                                ev.add((bb, 0))
                    # ... or an edge on which the vector's length is known to be 0 (`if query_len > 0 { read }`)
                    stn = a.state_at(term_pt(b, i))
                    lnv = stn.get(("len", ("L", vl)))
                    if lnv is not None:
                        for bb in b.live_blocks():
                            if (bb, 0) not in ev and entails_le(a.facts_at(bb), lnv, Form.const(0)):
                                ev.add((bb, 0))
                    w = must_cross(b, [(0, 0)], [term_pt(b, i)], ev, after_start=False)
                    R.check(w is None and bool(ev), "stream-fills-frame", path, "%s vector is read completely (or is empty) before the message is built" % nm,
                            "a path reaches Message::new without a successful read_exact over the whole %s vector (blocks %s): a stream truncated inside the %s would be accepted"
                            % (nm, w, nm), t.get("span"), "read_exact(.., &mut %s)? or %s.is_empty() on every path" % (nm, nm), path=w)
        else:
            # frame-into-buffer reader
            n_into += 1
            oks = blocks_assigning_variant(b, "std::result::Result", "Ok")
            R.floor("stream-fills-frame", len(oks), 1, "Ok exits of " + path)
            for i, j, s in oks:
                okc = _fill_calls_ok_at(b, sym, facts, i)
                regs = []
                base = None
                for c in okc:
                    ix = c[2][1]
                    while ix[0] == "call" and ix[1].rsplit("::", 1)[-1] in ("deref_mut", "as_mut_slice", "as_mut", "borrow_mut") and ix[2]:
                        ix = ix[2][0]
                    if ix[0] == "call" and ix[1].rsplit("::", 1)[-1] == "index_mut":
                        tb = ix[3]
                        tt = b.term(tb)
                        rb = a.range_bounds(a.state_at(term_pt(b, tb)), tt["args"][1])
                        if rb is None:
                            continue
                        kind, st_, en_, hs, he = rb
                        regs.append((st_, en_ if he else None))
                        base = tt["args"][0]
                    else:
                        regs.append((Form.const(0), None))
                st = a.state_at((i, j))
                # the destination vector: second parameter of the reader
                ln = None
                if base is not None:
                    ln = a.len_form(st, base)
                regs_s = sorted(regs, key=lambda r: (len(r[0].t), r[0].c))
                cover = Form.const(0)
                chained = bool(regs_s)
                for st_, en_ in regs_s:
                    if st_ != cover:
                        chained = False
                        break
                    cover = en_ if en_ is not None else ln
                    if cover is None:
                        chained = False
                        break
                whole = chained and ln is not None and cover == ln and _is_qb(ln, 48)
                R.check(whole, "stream-fills-frame", path, "Ok only after read_exact covered [0, 48+q+b) and len(buf) == 48+q+b",
                        "on the Ok exit the regions filled by successful read_exact calls are %s and len(buf) = %s: they do not chain from 0 to 48+query_length+body_length, "
                        "so a truncated stream can be reported as a complete frame" % ([(str(x), str(y)) for x, y in regs_s], ln), s.get("span"),
                        "regions %s, len(buf)=%s" % ([(str(x), str(y)) for x, y in regs_s], ln))
    R.exact("stream-fills-frame", n_msg, 2, "message-returning stream readers")
    R.exact("stream-fills-frame", n_into, 2, "frame-into-buffer stream readers")


def sym_calls(e):
    out = []
    def rec(x):
        if isinstance(x, tuple):
            if x and x[0] == "call":
                out.append(x)
            for y in x:
                rec(y)
    rec(e)
    return out


def extra_coverage(reports):
    cx = getattr(run, "cx", None)
    if cx is None:
        return {}
    return {"obligations": cx.obligations, "discharged": cx.discharged}
