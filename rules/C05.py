"""C05 - bytes put on a connection are always whole frames, never torn or interleaved."""
from analysis.flow import must_cross, return_points, term_pt, trace_op, definitely_init, init_at_point, yields
from analysis.guards import facts_at, _variants_for_discr
from analysis.mir import callee_matches, op_place
from analysis.sym import Sym, render, is_call, const_val, walk, switch_alternatives
from rules.common import texts, blocks_assigning_variant, ok_exits

EXPLANATION = (
    "Decided structurally. (one-lock-per-frame) in each TCP client's write_request every write primitive of a frame "
    "(write_message[_async], flush) executes while the one writer-lock guard is held, the writer mutex is locked only by "
    "the enumerated functions and only write_request writes through it; each TCP server's connection writer is a local of "
    "the one connection function and is never moved or shared; on WebSocket a frame is one Binary message whose payload is "
    "the whole frame (to_vec / into_wire_bytes / frame_outbound) and server sinks are written only by writer_task/proxy. "
    "(whole-writes-only) the connection functions and frame writers use only complete-write primitives (write_all / flush), never write / write_vectored / write_buf whose short counts would need remainder accounting. (no-write-after-failed-write) for every frame write in a connection function, every path to any further write on that "
    "connection crosses the success edge of a test of that write's own result (including an enclosing timeout's result): a "
    "discarded result (`.ok()`, `let _ =`) is a violation. (write-failure-must-poison) in the clients, where the connection "
    "object outlives a failed call, every failure path of a frame write reaches the return only with the connection "
    "poisoned: a socket shutdown is crossed, or the torn-write flag protocol holds (flag set before the first write, "
    "cleared only after the last write's success, tested before writing). (cancellable-write-section) every await point "
    "inside the async client's frame-write section is covered by the same flag (set at the yield), so dropping the call "
    "future mid-frame leaves the connection poisoned. WebSocket sends are message-atomic (tungstenite keeps the unsent "
    "remainder in the sink) and are exempt by rule. Not decided: stalls of arbitrary duration / kernel buffer sizes."
    ' The only data-carrying WebSocket message built anywhere in the crate is Binary (no Text / raw Frame fragments with awaits between them).'
    " The write section of an async writer ends where no write primitive and no test of a primitive's result is reachable any more; awaits that follow it in the same function (a burst sender waiting for its responses) are outside it."
)
ASSUMPTIONS = [
    "a tokio/std Mutex guard excludes other writers while it is live",
    "tungstenite writes one Binary message atomically with respect to other messages, keeping unsent bytes in the sink",
    "dropping a connection function's local BufWriter/stream closes the connection",
]

WRITE_FN_PATS = ("io::write_message", "io::write_message_streaming", "io::write_message_typed_slice", "io::write_message_complex_slice",
                 "async_io::write_message_async", "async_server::write_view_response")
WRITE_TRAIT_METHODS = ("write_all", "flush", "write", "write_fmt", "write_vectored", "write_all_buf", "write_buf")

# connection functions: (path, role, is_async)
CONN = (
    ("client::Client::write_request", "client", False),
    ("async_client::AsyncClient::write_request::{closure#0}", "client", True),
    ("server::handle_connection", "server", False),
    ("async_server::handle_connection::{closure#0}", "server", True),
)
# who may lock the clients' writer mutex (A4): function -> reason
WRITER_LOCKERS = {
    "client::Client::write_request": "writes one frame",
    "client::Client::set_write_timeout": "socket option only (get_ref)",
    "<client::ClientInner as std::ops::Drop>::drop": "shutdown on drop",
    "client::fail_all_pending": "shutdown on reader death",
    "async_client::AsyncClient::write_request::{closure#0}": "writes one frame",
    "async_client::fail_all_pending::{closure#0}": "shutdown on reader death",
    "websocket_client::WebSocketClient::write_request::{closure#0}": "sends one Binary message",
    "websocket_client::close_writer::{closure#0}": "sends Close",
}


WRITE_HELPERS = {}   # derived per fact file: in-crate function -> body path, see derive_write_helpers


def derive_write_helpers(facts):
    """In-crate functions (other than the frame writers of io/async_io and the connection functions themselves) whose
    body performs a write primitive, directly or through another such helper.  A connection function that was split
    into helpers keeps its obligations: a call of a helper is a frame write whose Result must be tested."""
    conn = {p[:-len("::{closure#0}")] if p.endswith("::{closure#0}") else p for p, _, _ in CONN}
    cand = {}
    for path, b in facts.bodies.items():
        base = path[:-len("::{closure#0}")] if (path.endswith("::{closure#0}") and b.kind == "coroutine") else path
        if "{closure" in base or base in conn or base.startswith(("io::", "async_io::")):
            continue
        if b.kind not in ("fn", "method", "coroutine"):
            continue
        cand[base] = b
    helpers = {}
    changed = True
    while changed:
        changed = False
        for base, b in cand.items():
            if base in helpers:
                continue
            for i, t in b.calls():
                if _is_base_write_prim(t) or t["callee"]["path"] in helpers:
                    helpers[base] = b.path
                    changed = True
                    break
    return helpers


COMPOSITE_WRITES = set()   # id() of call terminators `timeout(d, async { ..frame writes.. })`, derived per run (derive_composite_writes)


def derive_composite_writes(facts):
    """A timer around an async block that performs frame writes (`timeout(limit, async { write(..).await?; flush().await?; Ok(()) })`) is one
    composite write primitive of the enclosing function: its awaited result carries both the timer's verdict and the block's own."""
    COMPOSITE_WRITES.clear()
    for b in facts.bodies.values():
        if not b.path.split("::")[0].lstrip("<") in ("client", "async_client", "websocket_client", "server", "async_server"):
            continue
        s = None
        for i, t in b.calls():
            if t["callee"]["name"] in ("timeout", "timeout_at") and "tokio::time" in t["callee"]["path"] and len(t["args"]) == 2:
                s = s or Sym(b)
                fut = s.op(t["args"][1])
                for x in walk(fut):
                    if x[0] == "agg" and str(x[1]).startswith("coroutine:"):
                        cp = str(x[1]).split(":", 1)[1]
                        sub = [facts.bodies[p_] for p_ in facts.bodies if p_ == cp or p_.startswith(cp + "::{")]
                        if any(_is_base_write_prim(t2) for sb in sub for _, t2 in sb.calls()):
                            COMPOSITE_WRITES.add(id(t))


def is_write_prim(t):
    if _is_base_write_prim(t) or id(t) in COMPOSITE_WRITES:
        return True
    return t["callee"]["path"] in WRITE_HELPERS and not t.get("inlined_future")


def _is_base_write_prim(t):
    c = t["callee"]
    if callee_matches(c, *WRITE_FN_PATS):
        return True
    tr = c.get("trait") or ""
    if c["name"] in WRITE_TRAIT_METHODS and tr in ("std::io::Write", "tokio::io::AsyncWriteExt", "tokio::io::AsyncWrite"):
        return True
    return False


def mentions(e, bb):
    return any(x[0] == "call" and len(x) > 3 and x[3] == bb for x in walk(e))


def _whole_frame_origin(facts, b, o, depth=0):
    """the value is the output of a whole-frame producer (Message::to_vec / into_wire_bytes / frame_outbound), possibly handed
    down through a parameter: then every caller must pass such a value"""
    if o.kind == "call":
        return callee_matches(o.info["callee"], "message::Message::to_vec", "message::Message::into_wire_bytes", "websocket_server::frame_outbound")
    if o.kind != "arg" or depth > 2:
        return False
    owner, k = b.path, o.key
    if b.kind == "coroutine" and b.path.endswith("::{closure#0}") and o.key == 1 and o.path:
        owner = b.path[:-len("::{closure#0}")]
        ob = facts.bodies.get(owner)
        if ob is None:
            return False
        ks = [a for a in range(1, ob.argc + 1) if ob.debug_name(a) == o.path[0]]
        if len(ks) != 1 or len(o.path) != 1:
            return False
        k = ks[0]
    elif o.path:
        return False
    callers = facts.calls_to(owner)
    if not callers:
        return False
    for cb, ci, ct in callers:
        if k - 1 >= len(ct["args"]):
            return False
        os_ = trace_op(cb, ct["args"][k - 1])
        if not os_ or not all(_whole_frame_origin(facts, cb, x, depth + 1) for x in os_):
            return False
    return True


def result_switches(b, sym, facts, wbb):
    """switch blocks that test (the discriminant of) a value derived from the call in block wbb; returns
    list of (switch_bb, success_targets, failure_targets)."""
    out = []
    out_bool = []
    for i in sorted(b.live_blocks()):
        t = b.term(i)
        if t["k"] != "switch":
            continue
        e = sym.op(t["on"])
        if t.get("on_ty") == "bool":
            # `if result.is_err()` / `if result.is_ok()` on the call's result (possibly through map_err and a local)
            neg = False
            c = e
            while c[0] == "un" and c[1] == "Not":
                c = c[2]
                neg = not neg
            if c[0] == "call" and c[1].rsplit("::", 1)[-1] in ("is_err", "is_ok") and c[2]:
                x = c[2][0]
                hit = mentions(x, wbb)
                if not hit and x[0] == "local":
                    hit = any(d[0] == "call" and (d[1] == wbb or mentions(sym.op(d[2]["args"][0]) if d[2]["args"] else ("?",), wbb)) or
                              (d[0] == "assign" and mentions(sym.rvalue(d[3]), wbb)) for d in b.defs_of(x[1]))
                if hit:
                    ok_when_true = (c[1].rsplit("::", 1)[-1] == "is_ok") != neg
                    tt, ff = [], []
                    for v, tb in t["targets"]:
                        (tt if v == 1 else ff).append(tb)
                    (ff if 0 not in [v for v, _ in t["targets"]] and 1 in [v for v, _ in t["targets"]] else tt).append(t["otherwise"]) if t["otherwise"] not in tt + ff else None
                    succ_t, fail_t = (tt, ff) if ok_when_true else (ff, tt)
                    out_bool.append((i, sorted(set(succ_t)), sorted(set(fail_t))))
            continue
        if e[0] != "discr" or not (mentions(e, wbb) or any(mentions(a, wbb) for a in switch_alternatives(sym, i))):
            continue
        vm = _variants_for_discr(b, facts, t, i)
        if not vm:
            continue
        names = set(vm.values())
        if names == {"Ready", "Pending"}:
            continue
        succ_names = {"Ok", "Continue"}
        if not (names & succ_names):
            continue
        succ_t, fail_t = [], []
        explicit = {v: tb for v, tb in t["targets"]}
        for d, n in vm.items():
            tb = explicit.get(d, t["otherwise"])
            (succ_t if n in succ_names else fail_t).append(tb)
        out.append((i, sorted(set(succ_t)), sorted(set(fail_t))))
    # is_err()/is_ok() tests count only when the result is not matched directly
    return out or out_bool


def _count_result_layers(ty):
    ty = ty.strip()
    if ty.startswith("std::task::Poll<"):
        ty = ty[len("std::task::Poll<"):-1]
    n = 0
    while ty.startswith("std::result::Result<"):
        n += 1
        ty = ty[len("std::result::Result<"):]
    return n


def result_layers(b, sym, wbb, wterm):
    """How many nested Result layers the (awaited) value of write primitive `wterm` has."""
    dty = b.local_ty(wterm["dest"]["l"]) if not wterm["dest"]["p"] else ""
    n = _count_result_layers(dty)
    if n:
        return n
    # async: the call builds a future; look at the poll whose receiver mentions it
    best = 0
    for i, t in b.calls():
        if t["callee"]["name"] == "poll" or "{closure#0}" in t["callee"]["path"]:
            if t["args"] and mentions(sym.op(t["args"][0]), wbb) and not t["dest"]["p"]:
                best = max(best, _count_result_layers(b.local_ty(t["dest"]["l"])))
    return max(best, 1)


def analyse_conn(facts, R, path, role, is_async, floor=2):
    b = facts.body(path)
    fn = b.path
    sym = Sym(b)
    prims = [(i, t) for i, t in b.calls() if is_write_prim(t)]
    # floor counts the primitives of the function together with those of the write helpers it delegates to
    total, seen, work = 0, set(), [path]
    while work:
        cur = work.pop()
        if cur in seen:
            continue
        seen.add(cur)
        for i, t in facts.body(cur).calls():
            if _is_base_write_prim(t) or id(t) in COMPOSITE_WRITES:
                total += 1
            elif t["callee"]["path"] in WRITE_HELPERS:
                work.append(WRITE_HELPERS[t["callee"]["path"]])
    R.floor("no-write-after-failed-write", total, floor, "frame write primitives in " + fn + " (incl. its write helpers)")
    prim_pts = [term_pt(b, i) for i, _ in prims]
    for i, t in prims:
        nm = t["callee"]["path"].rsplit("::", 1)[-1]
        sw = result_switches(b, sym, facts, i)
        what = "%s@%s" % (nm, _ordinal(prims, i))
        if not sw:
            R.bad("no-write-after-failed-write", fn, what,
                  "the result of `%s` (and of any timeout around it) is never tested: after a failed or timed-out write, possibly "
                  "mid-frame, the connection loop carries on and writes further frames" % nm, t.get("span"))
            continue
        layers = result_layers(b, sym, i, t)
        distinct = {render(sym.op(b.term(s)["on"])) for s, _, _ in sw}
        R.check(len(distinct) >= layers, "no-write-after-failed-write", fn, what + "/all-result-layers-tested",
                "`%s` yields %d nested Result layer(s) (e.g. timeout(..) around the write) but only %d is/are tested: an inner write error "
                "is dropped and the loop carries on" % (nm, layers, len(distinct)), t.get("span"), "%d layer(s), %d tested" % (layers, len(distinct)))
        # one future awaited at alternative places (`match limit { Some(d) => timeout(d, fut).await.ok(), None => Some(fut.await) }`):
        # a test belongs to the poll whose value it examines, and binds the paths that run through that poll
        polls = [pi for pi, pt_ in b.calls() if (pt_["callee"]["name"] == "poll" or "{closure#0}" in pt_["callee"]["path"]) and pt_["args"]
                 and pi != i and mentions(sym.op(pt_["args"][0]), i)]
        if len(polls) > 1:
            for pi in polls:
                mine = [x for x in sw if any(mentions(a, pi) for a in [sym.op(b.term(x[0])["on"])] + switch_alternatives(sym, x[0]))]
                lay = _count_result_layers(b.local_ty(b.term(pi)["dest"]["l"])) if not b.term(pi)["dest"]["p"] else 0
                tested = {render(sym.op(b.term(x[0])["on"])) for x in mine}
                R.check(len(tested) >= max(lay, 1), "no-write-after-failed-write", fn, what + "/await@%s" % _ordinal([(p_, None) for p_ in polls], pi),
                        "`%s` is awaited at %s, where its value has %d Result layer(s), but %d is/are tested on that path: a failed write goes unnoticed and "
                        "the loop carries on" % (nm, b.term(pi).get("span"), lay, len(tested)), b.term(pi).get("span"), "%d layer(s), %d tested" % (lay, len(tested)))
        for (s, succ_t, fail_t) in sw:
            if b.term(s).get("threaded_switch"):
                # a test on a specialised path whose outcome is known by construction (an `Err(..)` literal or a `?` residual
                # travelling back to the caller): it decides nothing; the test that sent control down this path is judged
                continue
            # events: entering a success arm; the arm blocks have the switch as their only predecessor in built MIR
            evs = [(x, 0) for x in succ_t]
            start = term_pt(b, i)
            if len(polls) > 1:
                mine = [pi for pi in polls if any(mentions(a, pi) for a in [sym.op(b.term(s)["on"])] + switch_alternatives(sym, s))]
                if len(mine) == 1:
                    start = term_pt(b, mine[0])
            w = must_cross(b, [start], prim_pts, evs)
            R.check(w is None, "no-write-after-failed-write", fn, what + "/switch@" + _ordinal_sw(sw, s),
                    "after `%s` a further write on the same connection is reachable without passing the success edge of the test "
                    "of its result" % nm, t.get("span"), "next write only via the Ok/Continue edge", path=w)
    return b, sym, prims


def _ordinal(prims, i):
    return str([x for x, _ in prims].index(i))


def _ordinal_sw(sw, s):
    return str([x for x, _, _ in sw].index(s))


def flag_protocol(b, sym, facts, prims):
    """Detect the torn-write flag protocol in a write_request body. Returns dict or None."""
    stores = []
    for i, t in b.calls():
        if t["callee"]["name"] == "store" and "sync::atomic::Atomic" in t["callee"]["path"]:
            v = sym.op(t["args"][1])
            stores.append((i, const_val(v), render(sym.op(t["args"][0]))))
    sets = [(i, f) for i, v, f in stores if v == 1]
    clears = [(i, f) for i, v, f in stores if v == 0]
    if not sets:
        return _raii_flag_protocol(b, sym, facts)
    return {"sets": sets, "clears": clears}


def _raii_flag_protocol(b, sym, facts):
    """The same protocol kept by a guard value: a local of a type whose Drop stores `true` into the flag it was given unless its
    `done` field is set.  Building the guard arms the flag for every way out (error return, dropped future); setting the field
    (the inlined `complete(self)`) is the clear.  Returns the protocol dict (points are block indexes, as for the explicit form)
    or None."""
    for l in range(len(b.locals)):
        ty = b.local_ty(l).split("<")[0]
        dp = "<%s as std::ops::Drop>::drop" % ty
        cand = [p for p in facts.bodies if p.startswith("<" + ty) and p.endswith(" as std::ops::Drop>::drop")]
        if not cand:
            continue
        db = facts.body(cand[0])
        ds = Sym(db)
        st = [(i, t) for i, t in db.calls() if t["callee"]["name"] == "store" and "sync::atomic::Atomic" in t["callee"]["path"] and const_val(ds.op(t["args"][1])) == 1]
        if len(st) != 1:
            continue
        tgt = ds.op(st[0][1]["args"][0])
        if not (tgt[0] == "field" and tgt[1][0] == "arg" and tgt[1][1] == 1):
            continue
        flag_field = tgt[2]
        fs = facts_at(db, ds, facts, st[0][0])
        done_fields = [f["expr"][2] for f in fs if f["expr"][0] == "field" and f["expr"][1][0] == "arg" and f["expr"][1][1] == 1 and f["val"] is False]
        if len(done_fields) != 1:
            continue
        done = done_fields[0]
        # constructions of the guard in b (the constructor is a new function, inlined here): flag reference and done = false
        cons, flagname = [], None
        holders = set()
        for i, j, s_ in b.assigns():
            rv = s_["rv"]
            if rv.get("agg") == "adt" and rv["adt"].split("<")[0] == ty and not s_["place"]["p"]:
                v = sym.rvalue(rv)
                d = dict(v[3])
                if flag_field in d and done in d and const_val(d[done]) == 0:
                    cons.append((i, render(d[flag_field])))
                    flagname = render(d[flag_field])
                    holders.add(s_["place"]["l"])
        if not cons:
            continue
        # follow whole-value moves of the guard
        changed = True
        while changed:
            changed = False
            for i, j, s_ in b.assigns():
                if "use" in s_["rv"] and not s_["place"]["p"]:
                    q = op_place(s_["rv"]["use"])
                    if q is not None and not q["p"] and q["l"] in holders and s_["place"]["l"] not in holders:
                        holders.add(s_["place"]["l"])
                        changed = True
        clears = []
        for i, j, s_ in b.assigns():
            pl = s_["place"]
            if pl["l"] in holders and [e.get("f") for e in pl["p"] if isinstance(e, dict)] == [done] and const_val(sym.rvalue(s_["rv"])) == 1:
                clears.append((i, flagname))
        # the guard must not be leaked (mem::forget / ManuallyDrop) - then its Drop would not run
        leaked = [t for _, t in b.calls() if t["callee"]["name"] in ("forget", "leak") or "ManuallyDrop" in t["callee"]["path"]]
        if leaked:
            continue
        return {"sets": cons, "clears": clears, "raii": ty, "drop": db.path}
    return None


def _in_write_section(b, sym, facts, y, prims):
    """An await belongs to the frame write when a write of the frame is still ahead of it (another primitive can be reached) or still in
    progress (the test of a primitive's result can be reached).  Awaits that follow the section in the same function - a burst sender
    waiting for its responses - are outside it."""
    rs = b.reachable((y,))
    for i, _ in prims:
        if i in rs and i != y:
            return True
        for (sw, succ_t, fail_t) in result_switches(b, sym, facts, i):
            if sw in rs:
                return True
    return False


def run(facts, R):
    has_ws = "websocket" in facts.features
    # ------------------------------------------------------------------ TCP connection functions
    info = {}
    WRITE_HELPERS.clear()
    WRITE_HELPERS.update(derive_write_helpers(facts))
    derive_composite_writes(facts)
    used_helpers = set()
    # derived client frame writers: a function of the blocking / async client the table does not know that takes the writer lock
    # and writes through it is a second `write_request` (a borrowed / streaming / bounded sibling) and carries the same obligations
    derived_conn = []
    for b_ in facts.bodies.values():
        mod_ = b_.path.split("::")[0].lstrip("<")
        if mod_ not in ("client", "async_client") or b_.path in WRITER_LOCKERS or any(b_.path == p_ for p_, _, _ in CONN):
            continue
        s_ = None
        takes = False
        for i_, t_ in b_.calls():
            if t_["callee"]["name"] in ("lock", "try_lock", "blocking_lock") and "Mutex" in t_["callee"]["path"]:
                s_ = s_ or Sym(b_)
                if render(s_.op(t_["args"][0])).endswith(".writer"):
                    takes = True
        if takes and any(is_write_prim(t2) for _, t2 in b_.calls()):
            derived_conn.append((b_.path, "client", b_.kind == "coroutine"))
            R.note("derived client frame writer (judged like write_request): " + b_.path)
    # derived server connection loops (the same domain C03 derives): a function of the TCP server modules that reads frames in a cycle
    # and writes frames (directly or in a timed write block) owns its connection's writer like handle_connection does
    from analysis.flow import in_cycle as _in_cycle
    for p_, b_ in sorted(facts.bodies.items()):
        if p_.split("::")[0] not in ("server", "async_server") or any(p_ == x[0] for x in CONN) or "::tests::" in p_:
            continue
        rd_ = [i_ for i_, t_ in b_.calls() if callee_matches(t_["callee"], "io::read_message_into", "io::read_message", "async_io::read_message_into_async", "async_io::read_message_async")]
        if rd_ and any(_in_cycle(b_, i_) for i_ in rd_) and any(is_write_prim(t_) for _, t_ in b_.calls()):
            derived_conn.append((p_, "server", b_.kind == "coroutine"))
            R.note("derived server connection loop (judged like handle_connection): " + p_)
    conn_all = tuple(CONN) + tuple(derived_conn)
    for path, role, is_async in conn_all:
        info[path] = analyse_conn(facts, R, path, role, is_async, floor=2 if any(path == p_ for p_, _, _ in CONN) else 1)
        work = [path]
        while work:
            cur = work.pop()
            for i, t in facts.body(cur).calls():
                hp = WRITE_HELPERS.get(t["callee"]["path"])
                if hp and hp not in used_helpers:
                    used_helpers.add(hp)
                    work.append(hp)
    for hp in sorted(used_helpers):
        R.note("write helper of a connection function analysed with the same rule: " + hp)
        analyse_conn(facts, R, hp, "helper", facts.body(hp).kind == "coroutine", floor=1)

    # ---- whole-writes-only: a frame is put on a connection only through complete-write primitives (write_all, flush and
    # the frame writers built on them); write / write_vectored / write_buf may write a prefix and return Ok(n), so using
    # them for frame bytes needs exact remainder accounting, which the rules cannot follow: reported
    PARTIAL = ("write", "write_vectored", "write_buf", "poll_write", "poll_write_vectored", "try_write", "try_write_vectored")
    scope = set(p for p, _, _ in conn_all) | set(WRITE_HELPERS.values())
    for pth, bb_ in facts.bodies.items():
        if pth.startswith(("io::", "async_io::")) and ("write_message" in pth):
            scope.add(pth)
    n_scope = 0
    for pth in sorted(scope):
        if pth not in facts.bodies:
            continue
        n_scope += 1
        bb_ = facts.body(pth)
        for i, t in bb_.calls():
            c = t["callee"]
            tr = c.get("trait") or ""
            if c["name"] in PARTIAL and tr in ("std::io::Write", "tokio::io::AsyncWriteExt", "tokio::io::AsyncWrite"):
                R.bad("whole-writes-only", pth, c["name"] + "@" + str(i),
                      "frame bytes are written with `%s`, which may accept only a prefix: the rest of the frame depends on remainder arithmetic the checker cannot "
                      "follow (a short write inside the header/query region tears the frame while the function still returns Ok)" % c["name"], t.get("span"))
    R.floor("whole-writes-only", n_scope, 6, "frame-writing functions scanned for partial-write primitives")
    R.ok("whole-writes-only", "<crate>", "no partial-write primitive in the frame-writing functions", None, "%d functions" % n_scope)

    # ---- one-lock-per-frame: clients
    for path, role, is_async in conn_all:
        if role != "client":
            continue
        b, sym, prims = info[path]
        fn = b.path
        init = definitely_init(b, unwind=False)
        guards = [l for l in range(len(b.locals)) if "MutexGuard<" in b.local_ty(l) and not b.local_ty(l).startswith("std::result::Result")
                  and not b.local_ty(l).startswith("impl ") and "Poison" not in b.local_ty(l) and "LockResult" not in b.local_ty(l)]
        for i, t in prims:
            held = [g for g in guards if g in init_at_point(b, init, term_pt(b, i))]
            R.check(bool(held), "one-lock-per-frame", fn, "%s under writer lock" % t["callee"]["name"],
                    "a frame write runs at a point where no writer-lock guard is definitely held (another caller's bytes can interleave)",
                    t.get("span"), "guard local(s) %s live" % held)
        locks = [(i, t) for i, t in b.calls() if t["callee"]["name"] == "lock" and "Mutex" in t["callee"]["path"]
                 and render(sym.op(t["args"][0])).endswith(".writer")]
        R.check(len(locks) == 1, "one-lock-per-frame", fn, "single lock acquisition per frame",
                "write_request locks the writer %d times: the frame is not written under one continuous critical section" % len(locks), b.span)
        # async: every await inside the section happens with the guard held (guard live across the yields)
        if is_async:
            ys = yields(b)
            first = min(i for i, _ in prims)
            n = 0
            for y in ys:
                if y in b.reachable((first,)) and _in_write_section(b, sym, facts, y, prims):
                    n += 1
                    held = [g for g in guards if g in init_at_point(b, init, term_pt(b, y))]
                    R.check(bool(held), "one-lock-per-frame", fn, "guard live across write await",
                            "the writer lock is not held across an await inside the frame write", b.term(y).get("span"), "held")
            R.floor("one-lock-per-frame", n, 2, "await points inside the async client's write section")
    # who may lock the writer mutex / who may write through it
    n_lockers = 0
    for b in facts.bodies.values():
        mod = b.path.split("::")[0].lstrip("<")
        if mod not in ("client", "async_client", "websocket_client"):
            continue
        s = None
        for i, t in b.calls():
            if t["callee"]["name"] in ("lock", "try_lock", "blocking_lock", "get_mut", "into_inner") and "Mutex" in t["callee"]["path"]:
                s = s or Sym(b)
                if render(s.op(t["args"][0])).endswith(".writer"):
                    n_lockers += 1
                    if any(b.path == p_ for p_, _, _ in derived_conn):
                        continue        # judged as a frame writer above
                    if b.path not in WRITER_LOCKERS and getattr(b, "changed", False):
                        # a locker the table does not know (code moved): harmless to framing iff it writes nothing, itself or
                        # through a helper, and sends no WebSocket message
                        w = [t2["callee"]["name"] for _, t2 in b.calls() if is_write_prim(t2) or (t2["callee"]["name"] in ("send", "feed", "start_send") and "Sink" in (t2["callee"].get("trait") or ""))]
                        R.check(not w, "one-lock-per-frame", b.path, "writer-lock site",
                                "unlisted function takes the client's writer lock and writes through %s (outside the one-frame critical section of write_request)" % w,
                                t.get("span"), "takes the lock but writes nothing")
                        continue
                    R.check(b.path in WRITER_LOCKERS, "one-lock-per-frame", b.path, "writer-lock site",
                            "unlisted function takes the client's writer lock (may write outside the one-frame critical section)", t.get("span"),
                            WRITER_LOCKERS.get(b.path))
                    if b.path in WRITER_LOCKERS and "frame" not in WRITER_LOCKERS[b.path] and "Binary" not in WRITER_LOCKERS[b.path] and "Close" not in WRITER_LOCKERS[b.path]:
                        w = [t2 for _, t2 in b.calls() if is_write_prim(t2)]
                        R.check(not w, "one-lock-per-frame", b.path, "non-writer does not write", "%s writes to the connection" % b.path, t.get("span"))
    R.floor("one-lock-per-frame", n_lockers, 6 if has_ws else 5, "writer-lock sites in the clients")

    # ---- frames-are-well-formed: what goes out under one critical section is a frame only if the lengths its header declares
    # are the lengths of the query and body bytes written after it, in that order; otherwise the peer mis-frames this message
    # and everything behind it although no write was torn.  C01's emission and length rules decide that (shared)
    if R.prop == "C05":
        from analysis import report as _report1
        from rules import C01 as _c01
        sub1 = _report1.Report(R.prop, R.tier, R.config)
        try:
            _c01.emission(facts, sub1)
            _c01.length_formula(facts, sub1)
        except Exception as e:
            sub1.bad("anchor-resolution", "<crate>", "shared-C01-rules", "the shared frame-shape rules could not run: %s" % e)
        for inst in sub1.instances:
            if inst["rule"] in ("emission-normal-form", "length-formula") and inst["verdict"] == "holds":
                R.instances.append(inst)
        for v in sub1.violations:
            R.bad("frames-are-well-formed", v["fn"], v["what"], v["msg"], v.get("site"), v.get("path"))

    # ---- one writer per server connection: the BufWriter local is never moved / shared
    for path, role, is_async in conn_all:
        if role != "server":
            continue
        b, sym, prims = info[path]
        wl = [l for l in range(len(b.locals)) if b.local_ty(l).startswith(("std::io::BufWriter<", "tokio::io::BufWriter<"))]
        R.check(len(wl) >= 1, "one-lock-per-frame", b.path, "writer local", "no BufWriter local found", b.span)
        moved = []
        for i, bl in enumerate(b.blocks):
            ops = []
            for s in bl["stmts"]:
                if s["k"] == "assign":
                    from analysis.mir import rv_operands
                    ops += [(o, s.get("span")) for o in rv_operands(s["rv"])]
            t = bl["term"]
            if t["k"] == "call":
                ops += [(o, t.get("span")) for o in t["args"]]
            for o, sp in ops:
                if "move" in o and not o["move"]["p"] and o["move"]["l"] in wl:
                    # initialisation `writer = move tmp` is a def, not a use of wl; a move *out* of wl is what matters
                    moved.append(sp)
        spawns = [t for _, t in b.calls() if t["callee"]["name"] in ("spawn", "spawn_blocking", "spawn_local")]
        R.check(not moved and not spawns, "one-lock-per-frame", b.path, "single writer by construction",
                "the connection's writer is moved/shared (%s) or work is spawned from the connection loop (%d spawns)" % (moved, len(spawns)), b.span,
                "writer is a local of the connection function, never moved; no spawn in the loop")

    # ------------------------------------------------------------------ write-failure-must-poison (clients)
    for path, role, is_async in conn_all:
        if role != "client":
            continue
        b, sym, prims = info[path]
        fn = b.path
        fp = flag_protocol(b, sym, facts, prims)
        shutdowns = [term_pt(b, i) for i, t in b.calls() if t["callee"]["name"] in ("shutdown",) and "TcpStream" in (t["callee"]["path"] + str(t["callee"].get("self_ty")))
                     or callee_matches(t["callee"], "std::net::TcpStream::shutdown", "tokio::io::AsyncWriteExt::shutdown")]
        first = min(i for i, _ in prims)
        flag_ok = False
        if fp:
            # set before the first write, on all paths entry -> first write
            set_pts = [term_pt(b, i) for i, _ in fp["sets"]]
            w1 = must_cross(b, [(0, 0)], [term_pt(b, first)], set_pts, after_start=False)
            # cleared only after the success of every write: each clear is dominated by the success arm of each prim's switch
            clears_ok = True
            for ci, _ in fp["clears"]:
                for i, t in prims:
                    for (s, succ_t, fail_t) in result_switches(b, sym, facts, i):
                        if not any(b.dominates(x, ci) for x in succ_t):
                            # (with two alternative write routes - bounded / unbounded - no single success edge dominates the clear: what
                            # matters is that the clear is unreachable from every failure edge)
                            set_blocks = [si for si, _ in fp["sets"]]
                            if not fail_t or ci in b.reachable(list(fail_t), avoid=set_blocks) or ci in fail_t or i in b.reachable(b.succs(ci), avoid=set_blocks):
                                clears_ok = False        # (... and no write of the frame can still follow the clear)
            # tested before writing: the first write is guarded by load(flag) == false
            fs = facts_at(b, sym, facts, first)
            flag_names = {f2 for _, f2 in fp["sets"]}
            tested = any(f["expr"][0] == "call" and "sync::atomic::Atomic" in f["expr"][1] and f["expr"][1].rsplit("::", 1)[-1] in ("load", "swap")
                         and render(f["expr"][2][0]) in flag_names and f["val"] is False for f in fs)
            # ... and the test is made with the writer lock held: a caller that tested the flag first and then waited for the lock
            # would write after a frame torn by the previous holder
            loads = [i for i, t in b.calls() if t["callee"]["name"] in ("load", "swap") and "sync::atomic::Atomic" in t["callee"]["path"]
                     and render(sym.op(t["args"][0])) in flag_names]
            init_ = definitely_init(b, unwind=False)
            guards_ = [l for l in range(len(b.locals)) if "MutexGuard<" in b.local_ty(l) and not b.local_ty(l).startswith("std::result::Result")
                       and not b.local_ty(l).startswith("impl ") and "Poison" not in b.local_ty(l) and "LockResult" not in b.local_ty(l)]
            under_lock = bool(loads) and all(any(g in init_at_point(b, init_, term_pt(b, i)) for g in guards_) for i in loads)
            R.check(under_lock, "write-failure-must-poison", fn, "torn-write flag tested under the writer lock",
                    "the torn-write flag is tested before the writer lock is held: a caller parked on the lock has already passed the test when the holder "
                    "tears a frame, and appends its own frame after the partial one", b.span, "load(flag) with the writer guard live")
            flag_ok = w1 is None and clears_ok and tested and bool(fp["clears"]) and under_lock
            R.check(flag_ok, "write-failure-must-poison", fn, "torn-write flag protocol",
                    "flag protocol incomplete: set-before-first-write=%s cleared-only-after-success=%s tested-before-writing=%s"
                    % (w1 is None, clears_ok, tested), b.span, "flag set before the first write, cleared after the last success, tested on entry")
        for i, t in prims:
            nm = t["callee"]["path"].rsplit("::", 1)[-1]
            for (s, succ_t, fail_t) in result_switches(b, sym, facts, i):
                for ft in fail_t:
                    w = must_cross(b, [(ft, 0)], return_points(b), shutdowns, after_start=False)
                    if w is not None and shutdowns and must_cross(b, [term_pt(b, i)], [(ft, 0)], shutdowns) is None:
                        # a later test of the same failure (the caller's `if let Err(..)` on the result of an inlined writer that
                        # already shut the socket on its own failure edge): the shutdown lies between the write and this test
                        w = None
                    poisoned = (w is None and bool(shutdowns)) or flag_ok
                    R.check(poisoned, "write-failure-must-poison", fn, "%s@%s failure path" % (nm, _ordinal(prims, i)),
                            "a failed or timed-out `%s` (possibly mid-frame: partial bytes on the socket or in the BufWriter) returns the error "
                            "but leaves the connection usable: the next call writes a new frame after the torn one" % nm, t.get("span"),
                            "failure path shuts the socket" if w is None and shutdowns else "torn-write flag stays set", path=w)
        # cancellable-write-section (async only)
        if is_async:
            n = 0
            for y in yields(b):
                inside = [i for i, _ in prims if y in b.reachable((i,)) and i in b.reachable((y,))]
                # yields of the poll loops of the write futures: reachable from a write prim before the next prim
                in_section = any(y in b.reachable((i,)) for i, _ in prims) and any(j in b.reachable((y,)) or True for j, _ in prims)
                after_first = y in b.reachable((first,))
                if not after_first or not _in_write_section(b, sym, facts, y, prims):
                    continue
                n += 1
                covered = False
                if fp:
                    set_pts = [term_pt(b, i) for i, _ in fp["sets"]]
                    clr_pts = [term_pt(b, i) for i, _ in fp["clears"]]
                    # flag is set at the yield: every path entry->yield crosses a set, and no clear lies between a set and the yield
                    w1 = must_cross(b, [(0, 0)], [term_pt(b, y)], set_pts, after_start=False)
                    stale = any(must_cross(b, [c], [term_pt(b, y)], set_pts) is not None for c in clr_pts)
                    covered = w1 is None and not stale and flag_ok
                R.check(covered, "cancellable-write-section", fn, "await #%d inside the frame write" % n,
                        "the call future can be dropped at this await with part of a frame written; nothing marks the connection as torn, so "
                        "the next caller takes the lock and appends a new frame after the partial one", b.term(y).get("span"),
                        "torn-write flag is set at this await")
            R.floor("cancellable-write-section", n, 2, "await points in the async client's write section")

    # ------------------------------------------------------------------ WebSocket: whole frame per message, single writer
    if has_ws:
        WSMSG = "tokio_tungstenite::tungstenite::Message"
        n = 0
        for b in facts.bodies.values():
            for i, j, s in b.assigns():
                rv = s["rv"]
                if rv.get("agg") == "adt" and rv["adt"] == WSMSG and rv["variant"] == "Binary":
                    n += 1
                    origs = trace_op(b, rv["ops"][0])
                    ok = bool(origs) and all(_whole_frame_origin(facts, b, o) for o in origs)
                    R.check(ok, "one-message-per-frame", b.path, "Binary payload is a whole frame",
                            "a Binary message is built from %s, not from a whole-frame producer" % origs, s.get("span"), str(origs))
                elif rv.get("agg") == "adt" and rv["adt"] == WSMSG and rv["variant"] not in ("Close", "Ping", "Pong"):
                    # Text / raw Frame messages carry data too: a REPE frame handed out in pieces (fin = 0 + Continue frames)
                    # is several sends with an await between them, each a point where the call can be dropped mid-frame
                    R.bad("one-message-per-frame", b.path, "data message that is not Binary",
                          "a WebSocket %s message is built: a REPE frame is sent as exactly one Binary message, so that no await lies "
                          "between two parts of a frame" % rv["variant"], s.get("span"))
        R.floor("one-message-per-frame", n, 4, "Binary constructions")
        sends = []
        for b in facts.bodies.values():
            for i, t in b.calls():
                c = t["callee"]
                if c.get("trait") == "futures_util::SinkExt" and WSMSG in (c.get("self_ty") or ""):
                    sends.append((b, t))
        allowed = {"websocket_server::writer_task::{closure#0}", "websocket_server::proxy_connection_with_limits::{closure#0}",
                   "websocket_client::WebSocketClient::write_request::{closure#0}", "websocket_client::close_writer::{closure#0}"}
        for b, t in sends:
            if b.path not in allowed and getattr(b, "changed", True):
                # a function that splits a stream it was given by value and writes to that sink half itself is the one writer of that
                # connection (a sibling of proxy_connection_with_limits): the sink never leaves the function
                sv = Sym(b).op(t["args"][0])
                while sv[0] == "call" and len(sv[2]) == 1 and sv[1].rsplit("::", 1)[-1] in ("deref", "deref_mut", "as_mut", "borrow_mut"):
                    sv = sv[2][0]
                own = sv[0] == "field" and sv[2] == "0" and is_call(sv[1], "split") and len(sv[1]) > 3
                if own:
                    sink_l = [st_["place"]["l"] for _, _, st_ in b.assigns() if False]
                    escapes = [t2["callee"]["path"] for _, t2 in b.calls() if t2["callee"]["name"] in ("spawn", "spawn_blocking", "spawn_local", "clone", "reunite")
                               and any("SplitSink" in ty_ for ty_ in (t2.get("arg_tys") or []))]
                    if not escapes:
                        R.ok("one-message-per-frame", b.path, "sink writer", t.get("span"), "writes the sink half of a stream it split itself (sole writer of that connection)")
                        continue
            R.check(b.path in allowed, "one-message-per-frame", b.path, "sink writer",
                    "a WebSocket sink is written outside the single writer task / proxy / client write_request", t.get("span"), "single writer")
        R.floor("one-message-per-frame", len(sends), 6, "sink send sites")
