"""C13 - an accepted resume replays a gapless tail; the replay buffer stays bounded (src/stream.rs)."""
from analysis.flow import path_counts, must_cross, return_points, term_pt
from analysis.guards import facts_at, field_writes
from analysis.mir import callee_matches, op_place
from analysis.sym import Sym, render, is_call, const_val, walk
from rules.common import has_cmp, option_fact, texts, blocks_assigning_variant, disjunct_facts

RING = "stream::ReplayRing"
CHUNK = "stream::RingChunk"
INNER = "stream::TransferControlInner"
TC = "stream::TransferControl"

EXPLANATION = (
    "Decided structurally: (resume-gate) request_resume installs peer/pending_resume and returns Ok only under "
    "!cancelled, file_index == current_file_index and replay.covers(offset), and stages exactly that offset; "
    "(covers-table) ReplayRing::covers returns true only on its three documented rows; (replay-filter) replay_from "
    "is iter(chunks).filter(c.offset >= offset).cloned().collect() with no reordering/skipping adapter and RingChunk "
    "bodies are never mutated after construction (Arc<Vec<u8>>, no get_mut/make_mut, no field stores); "
    "(evict-discipline) chunks leave the ring only by pop_front under bytes_held > capacity && len > 1 or by clear, "
    "and every push_back/pop_front is paired with the bytes_held add/subtract of that chunk's wire length; "
    "(advance-clears) advance_to_file always clears the ring and drops the pending resume. Not decided: contiguity of "
    "offsets across pushes (producer arithmetic, only a debug_assert) and the numeric capacity bound itself."
    ' advance-clears is applied to every TransferControl function that stores current_file_index (ring emptied and pending_resume cleared on every path), not to advance_to_file alone.'
    ' Every function that stages a resume takes the control mutex at most once per path: the gate and the staging are one critical section.'
    ' The byte-bound eviction in push sits in a loop and the bound is re-tested after every eviction (it evicts until the ring is within its bound or one chunk is left).'
)
ASSUMPTIONS = ["VecDeque push_back/pop_front/iter are FIFO", "Arc<Vec<u8>> clone shares the same bytes"]

ALLOWED_CHAIN = ("iter", "filter", "cloned", "collect", "into_iter", "copied")


def _is_f(e, f):
    return e[0] == "field" and e[2] == f


def Affine_root(body, place):
    """owning local of a place reached through reference temporaries"""
    from analysis.affine import Affine
    cache = body.__dict__.setdefault("_aff_root", {})
    if "a" not in cache:
        class _A(Affine):
            def _run(self):
                pass
        cache["a"] = _A(body, None)
    return cache["a"].root_local(place)


def _true_row_by_facts(facts, cv, sym, bb, seen_rows):
    """a literal `true` result reached through a classification (an enum answer mapped to bool): every way into it must carry the
    facts of one documented row - empty ring and offset == 0; some chunk.offset == offset; highest_end_offset() == Some(offset)"""
    from analysis.guards import path_facts, infeasible
    alts = [a for a in path_facts(cv, sym, facts, bb) if not infeasible(a, facts.adts)]
    if not alts:
        return False
    kinds = set()
    for fs in alts:
        empty = any(f["val"] is True and is_call(f["expr"], "is_empty") and _is_f(f["expr"][2][0], "chunks") for f in fs)
        zero = has_cmp(fs, "Eq", lambda a: a[0] == "arg", lambda x: const_val(x) == 0) or has_cmp(fs, "Eq", lambda a: const_val(a) == 0, lambda x: x[0] == "arg")
        boundary = has_cmp(fs, "Eq", lambda a: _is_f(a, "offset") and a[1][0] != "arg", lambda x: x[0] == "arg" and x[1] == 2)
        edge = False
        for f in fs:
            e = f["expr"]
            if f["val"] is True and is_call(e, "eq") and len(e[2]) == 2:
                a, b2 = e[2]
                he = a if is_call(a, RING + "::highest_end_offset") else b2 if is_call(b2, RING + "::highest_end_offset") else None
                other = b2 if he is a else a
                if he is not None and other[0] == "agg" and other[2] == "Some" and other[3][0][1][0] == "arg":
                    edge = True
            if f["val"] is True and e[0] == "bin" and e[1] == "Eq" and _edge_sum(e[2], e[3]):
                edge = True
        if empty and zero:
            kinds.add("empty")
        elif boundary:
            kinds.add("boundary")
        elif edge:
            kinds.add("edge")
        else:
            return False
    seen_rows |= kinds
    return True


def _ring_resets(facts, b):
    """points where a whole ReplayRing is overwritten with a fresh one, `*ring = ReplayRing::new(cap)` (empty chunk list,
    bytes_held 0 - see the constructor check): [(bb, idx, capacity expression)]"""
    out = []
    s = Sym(b)
    for i, j, st in b.assigns():
        pl = st["place"]
        if [e for e in pl["p"] if e != "deref"] and not (isinstance(pl["p"][-1], dict) and pl["p"][-1].get("f") == "replay"):
            continue
        if not pl["p"]:
            continue
        v = s.rvalue(st["rv"])
        if is_call(v, RING + "::new") and len(v[2]) == 1:
            out.append((i, j, v[2][0]))
    for i, t in b.calls():
        if callee_matches(t["callee"], RING + "::new") and t["dest"]["p"] and t["args"]:
            out.append((i, len(b.blocks[i]["stmts"]), s.op(t["args"][0])))
    return out


def run(facts, R):
    for f in ("chunks", "bytes_held", "capacity_bytes"):
        facts.require_field(RING, f)
    # the constructor builds an empty ring of the given capacity (what a reset through it relies on)
    nb_ = facts.body(RING + "::new")
    nv_ = Sym(nb_).local(0)
    okn = nv_[0] == "agg" and str(nv_[1]).endswith("ReplayRing")
    if okn:
        d_ = dict(nv_[3])
        okn = const_val(d_.get("bytes_held")) == 0 and d_.get("capacity_bytes", ("?",))[0] == "arg" and is_call(d_.get("chunks"), "new", "with_capacity")
    R.check(okn, "evict-discipline", nb_.path, "a new ring is empty and has the given capacity", "ReplayRing::new builds %s" % render(nv_)[:140], nb_.span)

    # ---------- capacity-is-fixed: "never holds more than its byte capacity" is about the capacity the ring was built with.
    # Inside a live control (a function working under the state lock) a ring may be rebuilt (`advance_to_file` starting over), but
    # only with the capacity the old ring had; the capacity field itself is never stored to outside ReplayRing::new
    n_cap = 0
    for b_ in facts.bodies.values():
        if not b_.path.startswith("stream::"):
            continue
        locks_ = [1 for _, t_ in b_.calls() if t_["callee"]["name"] == "lock" and "Mutex" in t_["callee"]["path"]]
        if not locks_:
            continue
        s_ = Sym(b_)
        for i_, t_ in b_.calls():
            if callee_matches(t_["callee"], RING + "::new") and t_["args"]:
                n_cap += 1
                from analysis.sym import split_eval as _se
                alts_ = (_se(s_, i_, len(b_.blocks[i_]["stmts"]), lambda v_: v_.op(t_["args"][0])) if getattr(b_, "changed", False) else None) or [({}, s_.op(t_["args"][0]))]
                for _, v_ in alts_:
                    R.check(_is_f(v_, "capacity_bytes") and "lock(" in render(v_), "evict-discipline", b_.path, "a rebuilt ring keeps the configured capacity",
                            "the replay ring of a live control is rebuilt with capacity %s" % render(v_)[:120], t_.get("span"), "ReplayRing::new(old.capacity_bytes)")
    for w in field_writes(facts, RING, "capacity_bytes"):
        if w["body"].path != RING + "::new":
            n_cap += 1
            rs_ = [r_ for r_ in _ring_resets(facts, w["body"]) if (r_[0], r_[1]) == (w["bb"], w["idx"])] if w["kind"] == "whole" else []
            if rs_ and _is_f(rs_[0][2], "capacity_bytes"):
                R.ok("evict-discipline", w["body"].path, "a ring reset through the constructor keeps its capacity", w.get("span"), "*ring = ReplayRing::new(ring.capacity_bytes)")
                continue
            R.bad("evict-discipline", w["body"].path, "capacity is fixed", "ReplayRing.capacity_bytes is written outside ReplayRing::new", w.get("span"))

    # ---------- resume-gate ----------------------------------------------------------------------
    # (closed over every function that stages a resume - stores Some(..) into pending_resume - whenever it was added: a sibling such as
    # `request_resume_with_tail` owes the same gate)
    facts.body(TC + "::request_resume")
    stagers = [TC + "::request_resume"]
    for w_ in field_writes(facts, INNER, "pending_resume"):
        if w_["kind"] == "store" and w_["body"].path not in stagers:
            v_ = Sym(w_["body"]).rvalue(w_["rv"])
            if v_[0] == "agg" and v_[2] == "Some":
                stagers.append(w_["body"].path)
                R.note("derived resume function (judged like request_resume): " + w_["body"].path)
    for rr_path in stagers:
      rr = facts.body(rr_path)
      sym = Sym(rr)
      targets = []
      for w in field_writes(facts, INNER, "peer") + field_writes(facts, INNER, "pending_resume"):
          if w["body"] is rr:
              targets.append((w["bb"], w["idx"], "store:" + ("peer" if "peer" in str(w) and False else ""), w))
      gate_sites = [(w["bb"], w["span"], w) for w in field_writes(facts, INNER, "peer") if w["body"] is rr]
      gate_sites += [(w["bb"], w["span"], w) for w in field_writes(facts, INNER, "pending_resume") if w["body"] is rr]
      oks = blocks_assigning_variant(rr, "std::result::Result", "Ok")
      # the gate and the staging are one critical section: facts tested under one hold of the control mutex say nothing about the state
      # found after it was released and taken again (an advance_to_file or a cancel can run in between)
      lk_ = [i_ for i_, t_ in rr.calls() if t_["callee"]["name"] in ("lock", "try_lock") and "Mutex" in t_["callee"]["path"] and render(sym.op(t_["args"][0])).endswith(".inner")]
      pc_ = path_counts(rr, lk_) if lk_ else None
      R.check(bool(lk_) and pc_ is not None and pc_[1] <= 1, "resume-gate", rr.path, "validated and staged under one hold of the lock",
              "%s takes the control mutex %s times on some path: what it validated (not cancelled, current file, offset covered) can be stale when it stages the resume"
              % (rr.path.rsplit("::", 1)[-1], pc_[1] if pc_ else "?"), rr.span, "one lock acquisition per path")
      if rr_path == TC + "::request_resume":
          R.floor("resume-gate", len(gate_sites), 2, "peer/pending_resume stores in request_resume")
          R.floor("resume-gate", len(oks), 1, "Ok exits of request_resume")
      offset_arg = None
      for bb, span, w in gate_sites + [(i, s.get("span"), None) for i, j, s in oks]:
          fs = facts_at(rr, sym, facts, bb)
          what = "Ok-return" if w is None else "store"
          not_cancelled = option_fact(fs, lambda e: _is_f(e, "cancelled"), "None")
          cur = has_cmp(fs, "Eq", lambda a: _is_f(a, "current_file_index"), lambda x: x[0] == "arg")
          cov = None
          for f in fs:
              e = f["expr"]
              if f["val"] is True and is_call(e, RING + "::covers") and _is_f(e[2][0], "replay"):
                  cov = e[2][1]
          R.check(not_cancelled and cur and cov is not None, "resume-gate", rr.path, what + "-guards",
                  "resume accepted without {not cancelled: %s, file_index == current: %s, replay.covers(offset): %s}; guards: %s"
                  % (not_cancelled, cur, cov is not None, texts(fs)), span, "guarded by !cancelled, current file, covers(offset)")
          if cov is not None:
              offset_arg = cov
      if offset_arg is not None:
          for w in field_writes(facts, INNER, "pending_resume"):
              if w["body"] is rr and w["kind"] == "store":
                  v = sym.rvalue(w["rv"])
                  txt = render(v)
                  ok = v[0] == "agg" and v[2] == "Some" and any(
                      x[0] == "agg" and x[1].endswith("PendingResume") and dict(x[3]).get("resume_at_offset") == offset_arg for x in walk(v))
                  if not ok and getattr(rr, "changed", False):
                      # the validated offset may come back from the validating half through `Ok(offset)?`: by reaching definitions
                      from analysis.sym import split_rows as _sr
                      alts_ = _sr(sym, w["bb"], w["idx"], w["rv"]) or []
                      ok = bool(alts_) and all(v_[0] == "agg" and v_[2] == "Some" and any(
                          x[0] == "agg" and x[1].endswith("PendingResume") and dict(x[3]).get("resume_at_offset") == offset_arg for x in walk(v_)) for _, v_ in alts_)
                      if ok:
                          v = alts_[0][1]
                          txt = render(v)
                  R.check(ok, "resume-gate", rr.path, "staged-offset",
                          "pending_resume is staged as %s, not the offset validated by covers(%s)" % (txt, render(offset_arg)), w["span"], txt)

    # ---------- covers-table ---------------------------------------------------------------------
    cv = facts.body(RING + "::covers")
    sym = Sym(cv)
    rows = []
    for i, bl in enumerate(cv.blocks):
        if i not in cv.live_blocks():
            continue
        for j, s in enumerate(bl["stmts"]):
            if s["k"] == "assign" and s["place"]["l"] == 0 and not s["place"]["p"]:
                rows.append((i, sym.rvalue(s["rv"]), s.get("span")))
        t = bl["term"]
        if t["k"] == "call" and t["dest"]["l"] == 0 and not t["dest"]["p"]:
            rows.append((i, ("call", t["callee"]["path"], tuple(sym.op(a) for a in t["args"]), i), t.get("span")))
    seen_rows = set()
    for bb, val, span in rows:
        fs = facts_at(cv, sym, facts, bb)
        txt = render(val)
        if val[0] == "bin" and val[1] == "Eq" and {val[2][0], val[3][0]} == {"arg", "const"} and 0 in (const_val(val[2]), const_val(val[3])):
            ok = any(f["val"] is True and is_call(f["expr"], "is_empty") and _is_f(f["expr"][2][0], "chunks") for f in fs) or \
                any(f["val"] == "None" and is_call(f["expr"], "back", "front") and _is_f(f["expr"][2][0], "chunks") for f in fs)     # no newest chunk == empty
            R.check(ok, "covers-table", cv.path, "row:empty-ring",
                    "`offset == 0` is returned outside the chunks.is_empty() branch; guards: %s" % texts(fs), span, "empty ring -> offset == 0")
            seen_rows.add("empty")
        elif const_val(val) == 1 and getattr(cv, "changed", False) and _true_row_by_facts(facts, cv, sym, bb, seen_rows):
            R.ok("covers-table", cv.path, "row:true", span, "every way into this `true` is one of the three documented rows")
        elif const_val(val) == 1:
            ok = has_cmp(fs, "Eq", lambda a: _is_f(a, "offset") and a[1][0] != "arg", lambda x: x[0] == "arg" and x[1] == 2)
            if not ok:
                # chunks.iter().any(|c| c.offset == offset)
                for f in fs:
                    e = f["expr"]
                    if f["val"] is True and is_call(e, "any") and len(e[2]) == 2 and "chunks" in render(e[2][0]) and e[2][1][0] == "agg" and e[2][1][1].startswith("closure:"):
                        cb_ = facts.bodies.get(e[2][1][1].split(":", 1)[1])
                        if cb_ is not None:
                            cvv = Sym(cb_).local(0)
                            from rules.common import norm_cmp
                            nc = norm_cmp(cvv, True)
                            ok = nc is not None and nc[0] == "Eq" and any(_is_f(x, "offset") for x in nc[1:]) and any("offset" in render(x) and not _is_f(x, "offset") or (x[0] == "field" and x[1][0] == "arg" and x[1][1] == 1) for x in nc[1:])
            R.check(ok, "covers-table", cv.path, "row:chunk-boundary",
                    "covers returns true on a path not guarded by `chunk.offset == offset`; guards: %s" % texts(fs), span,
                    "true only under chunk.offset == offset")
            seen_rows.add("boundary")
        elif const_val(val) == 0:
            R.ok("covers-table", cv.path, "row:false", span, "false row")
        elif is_call(val, "eq") and len(val[2]) == 2:
            a, b2 = val[2]
            he = a if is_call(a, RING + "::highest_end_offset") else b2 if is_call(b2, RING + "::highest_end_offset") else None
            other = b2 if he is a else a
            ok = he is not None and other[0] == "agg" and other[2] == "Some" and other[3][0][1][0] == "arg"
            R.check(ok, "covers-table", cv.path, "row:trailing-edge",
                    "final row is %s, expected highest_end_offset() == Some(offset)" % txt, span, txt)
            seen_rows.add("edge")
        elif val[0] == "bin" and val[1] == "Eq" and _edge_sum(val[2], val[3]):
            # the trailing edge spelled out: newest.offset + newest.data_len == offset, newest = chunks.back()
            seen_rows.add("edge")
            R.ok("covers-table", cv.path, "row:trailing-edge", span, txt)
        else:
            R.bad("covers-table", cv.path, "row:unrecognised", "covers has an unrecognised result row `%s` under %s" % (txt, texts(fs)), span)
    for need in ("empty", "boundary", "edge"):
        R.check(need in seen_rows, "covers-table", cv.path, "row-present:" + need, "covers lost its `%s` row" % need)
    if RING + "::highest_end_offset" not in facts.bodies:
        he = None
    else:
        he = facts.body(RING + "::highest_end_offset")
    if he is not None:
        _highest_end_rules(facts, R, he)

    _replay_rules(facts, R)
    _shared_cancel_sticky(facts, R)


def _shared_cancel_sticky(facts, R):
    """`a resume is accepted only before cancellation` needs cancellation to be permanent: C11's cancel-sticky rules (the flag is
    only ever set, to Some, while None; request_resume refuses once it is set) are run here as well"""
    from analysis import report as _report
    from rules import C11 as _c11
    sub = _report.Report(R.prop, R.tier, R.config)
    try:
        _c11.run(facts, sub)
    except Exception as e:
        sub.bad("anchor-resolution", "<crate>", "shared-C11-rules", "the shared cancel-sticky rules could not run: %s" % e)
    for inst in sub.instances:
        if inst["rule"] == "cancel-sticky" and inst["verdict"] == "holds":
            R.instances.append(inst)
    for v in sub.violations:
        if v["rule"] in ("cancel-sticky", "anchor-resolution"):
            R.bad(v["rule"], v["fn"], v["what"], v["msg"], v.get("site"), v.get("path"))


def _edge_sum(a, b2):
    """one side is (chunks.back() as Some).0.offset + (same).data_len, the other the `offset` argument"""
    for s_, o_ in ((a, b2), (b2, a)):
        x = s_
        if x[0] == "field" and x[2] == "0" and x[1][0] == "bin" and x[1][1] == "AddWithOverflow":
            x = ("bin", "Add", x[1][2], x[1][3])
        if x[0] == "bin" and x[1] == "Add" and x[2][0] == "field" and x[3][0] == "field" and {x[2][2], x[3][2]} == {"offset", "data_len"} and x[2][1] == x[3][1]:
            base = x[2][1]
            if base[0] == "field" and base[2] == "0" and base[1][0] == "variant" and base[1][2] == "Some" and is_call(base[1][1], "back") and _is_f(base[1][1][2][0], "chunks") \
                    and o_[0] == "arg" and o_[1] == 2:
                return True
    return False


def _highest_end_rules(facts, R, he):
    hsym = Sym(he)
    hv = hsym.local(0)
    okh = is_call(hv, "map") and is_call(hv[2][0], "back") and _is_f(hv[2][0][2][0], "chunks")
    R.check(okh, "covers-table", he.path, "trailing-edge-source", "highest_end_offset is %s, expected chunks.back().map(end)" % render(hv), he.span, render(hv))
    # the mapped function: the closure of highest_end_offset, or a function item passed to map (e.g. RingChunk::end_offset)
    hc = facts.bodies.get(RING + "::highest_end_offset::{closure#0}")
    if hc is None and okh and len(hv[2]) > 1 and hv[2][1][0] == "fn":
        hc = facts.bodies.get(hv[2][1][1])
    if hc is None:
        raise Exception("the function mapped over chunks.back() in highest_end_offset was not found")
    cs = Sym(hc)
    v = cs.local(0)
    txt = render(v)
    ok = False
    for x in walk(v):
        if x[0] == "bin" and x[1] in ("Add", "AddWithOverflow"):
            fl = {x[2][2] if x[2][0] == "field" else None, x[3][2] if x[3][0] == "field" else None}
            ok = fl == {"offset", "data_len"}
    R.check(ok, "covers-table", hc.path, "end = offset + data_len", "trailing edge computed as %s" % txt, hc.span, txt)


def _replay_rules(facts, R):
    # ---------- replay-filter ----------------------------------------------------------------------
    rf = facts.body(RING + "::replay_from")
    rs = Sym(rf)
    v = rs.local(0)
    chain = []
    cur = v
    ok_chain = True
    src = None
    while cur[0] == "call":
        nm = cur[1].rsplit("::", 1)[-1]
        chain.append(nm)
        if nm not in ALLOWED_CHAIN:
            ok_chain = False
        if not cur[2]:
            break
        if nm in ("iter", "into_iter"):
            src = cur[2][0]
            break
        cur = cur[2][0]
    ok_chain = ok_chain and "filter" in chain and src is not None and _is_f(src, "chunks") and chain.count("filter") == 1
    loop_form = False
    out_local = None
    if not ok_chain and v[0] == "call" and v[1].rsplit("::", 1)[-1] in ("new", "with_capacity") and "Vec" in v[1]:
        for d in rf.defs_of(0):
            if d[0] == "assign" and "use" in d[3] and op_place(d[3]["use"]) is not None and not op_place(d[3]["use"])["p"]:
                out_local = op_place(d[3]["use"])["l"]
    if out_local is not None:
        v = ("local", out_local, None)
    if not ok_chain and v[0] == "local":
        # the same selection as an explicit loop: for c in &self.chunks { if c.offset >= offset { out.push(c.clone()) } }
        pushes = [(i, t) for i, t in rf.calls() if t["callee"]["name"] in ("push", "push_back") and op_place(t["args"][0]) is not None and
                  Affine_root(rf, op_place(t["args"][0])) == v[1]]
        other = [t["callee"]["name"] for i, t in rf.calls() if t["args"] and op_place(t["args"][0]) is not None and Affine_root(rf, op_place(t["args"][0])) == v[1]
                 and t["callee"]["name"] not in ("push", "push_back", "with_capacity", "new", "reserve")]
        iters = [(i, t) for i, t in rf.calls() if t["callee"]["name"] in ("iter", "into_iter") and _is_f(rs.op(t["args"][0]), "chunks")]
        adapters = [t["callee"]["name"] for i, t in rf.calls() if t["callee"].get("trait") == "std::iter::Iterator" and t["callee"]["name"] != "next"]
        if len(pushes) == 1 and not other and len(iters) == 1 and not adapters:
            pi, pt = pushes[0]
            item = rs.op(pt["args"][1])
            from_iter = any(is_call(x, "next") for x in walk(item))
            fsp = facts_at(rf, rs, facts, pi)
            ge = has_cmp(fsp, "Le", lambda a: a[0] == "arg" and a[1] == 2, lambda x: _is_f(x, "offset") and any(is_call(y, "next") for y in walk(x)))
            loop_form = from_iter and ge
            R.check(loop_form, "replay-filter", rf.path, "chain", "replay loop pushes %s under %s: expected every chunk with chunk.offset >= offset, in ring order" % (render(item)[:80], texts(fsp)[-2:]),
                    pt.get("span"), "for c in chunks { if c.offset >= offset { push(c.clone()) } }")
    if not loop_form:
        R.check(ok_chain, "replay-filter", rf.path, "chain",
                "replay_from is %s: expected chunks.iter().filter(pred).cloned().collect() with no skipping/reordering adapter" % render(v),
                rf.span, "chain=" + "<-".join(chain))
    fc = facts.bodies.get(RING + "::replay_from::{closure#0}")
    if loop_form:
        pass
    elif fc is None:
        R.bad("replay-filter", rf.path, "predicate", "filter predicate closure not found")
    else:
        fv = Sym(fc).local(0)
        # c.offset >= offset : lhs is field offset of arg2 (the chunk), rhs the captured offset (field of arg1)
        ok = fv[0] == "bin" and ((fv[1] == "Ge" and _chunk_off(fv[2]) and _cap_off(fv[3])) or (fv[1] == "Le" and _cap_off(fv[2]) and _chunk_off(fv[3])))
        R.check(ok, "replay-filter", fc.path, "predicate",
                "replay predicate is %s, expected chunk.offset >= offset (would drop the boundary chunk or replay acknowledged ones)" % render(fv),
                fc.span, render(fv))
    rc = facts.body(TC + "::replay_chunks_from")
    v = Sym(rc).local(0)
    ok = is_call(v, RING + "::replay_from") and _is_f(v[2][0], "replay") and v[2][1][0] == "arg" and v[2][1][1] == 2
    R.check(ok, "replay-filter", rc.path, "forwards-offset", "replay_chunks_from returns %s" % render(v), rc.span, render(v))

    # bodies immutable
    n_mut = 0
    for b in facts.bodies.values():
        if not b.path.startswith("stream::"):
            continue
        for i, t in b.calls():
            if callee_matches(t["callee"], "std::sync::Arc::<T, A>::get_mut", "std::sync::Arc::<T, A>::make_mut",
                              "std::sync::Arc::<T, A>::get_mut_unchecked", "std::sync::Arc::<T>::get_mut", "std::sync::Arc::<T>::make_mut"):
                n_mut += 1
                R.bad("bodies-immutable", b.path, "Arc-mutation", "replayed bodies may be mutated through %s" % t["callee"]["path"], t.get("span"))
    for f in ("body_bytes", "offset", "data_len", "last"):
        for w in field_writes(facts, CHUNK, f):
            n_mut += 1
            R.bad("bodies-immutable", w["body"].path, "RingChunk." + f, "RingChunk.%s is modified after construction (%s)" % (f, w["kind"]), w["span"])
    R.ok("bodies-immutable", "<crate>", "no mutation of RingChunk / Arc bodies", None, "0 sites (zero-count rule; positive control in selftest corpus)")

    # push stores what it was given
    ps = facts.body(RING + "::push")
    psym = Sym(ps)
    aggs = [(i, j, s) for i, j, s in ps.assigns() if s["rv"].get("agg") == "adt" and s["rv"]["adt"] == CHUNK]
    R.exact("push-stores-args", len(aggs), 1, "RingChunk constructions in push")
    from analysis.guards import struct_constructions
    allc = struct_constructions(facts, CHUNK)
    others = []
    for b, i, j, s in allc:
        if b is ps:
            continue
        if b.path == "<%s as std::clone::Clone>::clone" % CHUNK:
            v = Sym(b).rvalue(s["rv"])
            faithful = all(x[0] == "field" and x[2] == n and x[1][0] == "arg" for n, x in v[3])
            R.check(faithful, "push-stores-args", b.path, "clone-is-fieldwise", "RingChunk::clone is %s" % render(v), s.get("span"), "field-wise clone")
            continue
        others.append(b.path)
    R.check(not others, "push-stores-args", "<crate>", "RingChunk built only in ReplayRing::push",
            "RingChunk is also constructed in %s" % sorted(set(others)))
    for i, j, s in aggs:
        v = psym.rvalue(s["rv"])
        d = dict(v[3])
        ok = d["offset"][0] == "arg" and d["offset"][1] == 2 and d["data_len"][0] == "arg" and d["data_len"][1] == 3 and \
            is_call(d["body_bytes"], "Arc::<T>::new") and d["body_bytes"][2][0][0] == "arg" and d["body_bytes"][2][0][1] == 5
        R.check(ok, "push-stores-args", ps.path, "chunk-fields", "ring chunk is built as %s" % render(v), s.get("span"), render(v))
    pr = facts.body(TC + "::push_replay")
    for i, t in pr.calls():
        if callee_matches(t["callee"], RING + "::push"):
            a = [Sym(pr).op(x) for x in t["args"]]
            ok = _is_f(a[0], "replay") and [x[1] for x in a[1:] if x[0] == "arg"] == [2, 3, 4, 5]
            R.check(ok, "push-stores-args", pr.path, "forwards-args", "push_replay calls push(%s)" % ", ".join(render(x) for x in a), t.get("span"))

    # ---------- evict-discipline ---------------------------------------------------------------------
    removers = ("pop_front", "pop_back", "remove", "drain", "truncate", "clear", "retain", "retain_mut", "split_off", "swap_remove_back",
                "swap_remove_front", "insert", "push_front", "rotate_left", "rotate_right", "swap", "make_contiguous", "iter_mut", "append",
                "front_mut", "back_mut", "get_mut", "range_mut", "extend", "resize", "as_mut_slices")
    n_pop = 0
    n_bounded = 0
    n_push = 0
    for w in field_writes(facts, RING, "chunks"):
        b = w["body"]
        if w["kind"] != "mut-borrow":
            if w["kind"] == "whole" and b.path == RING + "::clear" and any((r_[0], r_[1]) == (w["bb"], w["idx"]) for r_ in _ring_resets(facts, b)):
                continue    # clear() spelled as a reset through the constructor: judged under advance-clears
            R.check(b.path == RING + "::new", "evict-discipline", b.path, "chunks-store", "ReplayRing.chunks is overwritten", w["span"])
            continue
        # which call consumes the borrow?
        dest = w["dest"]["l"]
        user = None
        for i, t in b.calls():
            for a in t["args"]:
                p = op_place(a)
                if p is not None and p["l"] == dest:
                    user = (i, t)
        if user is None:
            R.bad("evict-discipline", b.path, "chunks-mut-borrow", "&mut chunks escapes", w["span"])
            continue
        i, t = user
        nm = t["callee"]["path"].rsplit("::", 1)[-1]
        sym = Sym(b)
        if nm == "push_back":
            n_push += 1
            R.check(b.path == RING + "::push", "evict-discipline", b.path, "push_back-site", "push_back outside ReplayRing::push", t.get("span"))
            # paired with bytes_held += wire_len on all paths
            adds = []
            for w2 in field_writes(facts, RING, "bytes_held"):
                if w2["body"] is b and w2["kind"] == "store":
                    v = sym.rvalue(w2["rv"])
                    if is_call(v, "saturating_add", "checked_add", "wrapping_add") or (v[0] == "bin" and v[1].startswith("Add")) or \
                            (v[0] == "field" and v[1][0] == "bin" and v[1][1].startswith("Add")):
                        args = v[2] if v[0] == "call" else (v[2], v[3]) if v[0] == "bin" else (v[1][2], v[1][3])
                        def _unboxed(e):
                            # Arc::new(v) / Box::new(v) / a clone: the same bytes, the same length
                            while e[0] == "call" and len(e[2]) == 1 and (e[1].rsplit("::", 1)[-1] in ("clone", "as_ref", "deref", "as_slice") or
                                                                            (e[1].rsplit("::", 1)[-1] == "new" and any(k_ in e[1] for k_ in ("Arc", "Rc", "Box")))):
                                e = e[2][0]
                            return e
                        if any(_is_f(a, "bytes_held") for a in args) and any(is_call(a, "len") and _unboxed(a[2][0])[0] == "arg" and _unboxed(a[2][0])[1] == 5 for a in args):
                            adds.append((w2["bb"], w2["idx"]))
            wp = must_cross(b, [term_pt(b, i)], return_points(b), adds)
            R.check(adds and wp is None, "evict-discipline", b.path, "push_back paired with bytes_held += len(body)",
                    "push_back is not followed on all paths by bytes_held += body_bytes.len()", t.get("span"), "paired", path=wp)
        elif nm == "pop_front":
            n_pop += 1
            fs = facts_at(b, sym, facts, i)
            over = has_cmp(fs, "Lt", lambda a: _is_f(a, "capacity_bytes"), lambda x: _is_f(x, "bytes_held"))
            def _ge1(a):
                # a bound that is at least 1: the literal, or max(_, k) with k >= 1
                if const_val(a) is not None:
                    return const_val(a) >= 1
                return is_call(a, "max") and len(a[2]) == 2 and any(const_val(z) is not None and const_val(z) >= 1 for z in a[2])
            keep1 = has_cmp(fs, "Lt", _ge1, lambda x: is_call(x, "len") and _is_f(x[2][0], "chunks")) or \
                has_cmp(fs, "Le", lambda a: const_val(a) is not None and const_val(a) >= 2, lambda x: is_call(x, "len") and _is_f(x[2][0], "chunks"))
            if b.path == RING + "::push" and over and keep1:
                n_bounded += 1
                # ... and it evicts *until* the ring is within its bound again (or down to the one chunk it must keep): the site sits in a loop, and
                # push returns only past the negated guard - one eviction per push does not restore the bound after a large chunk
                from analysis.flow import in_cycle as _icy
                gpts_ = []
                for x_, bl_ in enumerate(b.blocks):
                    for j_, st_ in enumerate(bl_["stmts"]):
                        if st_["k"] == "assign" and "bin" in st_["rv"] and st_["rv"]["bin"] in ("Gt", "Lt", "Ge", "Le"):
                            tx_ = render(sym.rvalue(st_["rv"]))
                            if "bytes_held" in tx_ and "capacity_bytes" in tx_:
                                gpts_.append((x_, j_))
                rets_ok = bool(gpts_) and must_cross(b, [term_pt(b, i)], return_points(b), gpts_) is None
                R.check(_icy(b, i) and rets_ok, "evict-discipline", b.path, "evicts until within the bound",
                        "ReplayRing::push evicts at most once per call (in a loop: %s, the byte bound is re-tested after every eviction: %s): after a chunk larger than the ones "
                        "it displaces the ring stays above its byte bound" % (_icy(b, i), rets_ok), t.get("span"), "eviction loop exits on the negated guard")
            # every eviction site, whatever policy decides it (the byte bound in push, a chunk-count cap, releasing acknowledged chunks), leaves the
            # most recent chunk in the ring; the byte bound itself must still be enforced in push (floor below)
            R.check(keep1, "evict-discipline", b.path, "pop_front-guards",
                    "pop_front is not guarded by chunks.len() > 1 (over capacity: %s): an eviction can empty the ring, and an empty ring is read as a fresh file by "
                    "covers(); guards: %s" % (over, texts(fs)), t.get("span"), "evicts only while more than one chunk is held")
            # paired with subtract of the popped chunk's wire length on the Some edge
            subs = []
            for w2 in field_writes(facts, RING, "bytes_held"):
                if w2["body"] is b and w2["kind"] == "store":
                    v = sym.rvalue(w2["rv"])
                    if is_call(v, "saturating_sub", "checked_sub", "wrapping_sub") or (v[0] == "bin" and v[1].startswith("Sub")):
                        args = v[2] if v[0] == "call" else (v[2], v[3])
                        popped = any(is_call(a, "len") and "pop_front" in render(a) and "body_bytes" in render(a) for a in args)
                        if _is_f(args[0], "bytes_held") and popped:
                            subs.append((w2["bb"], w2["idx"]))
            some_blocks = [x for x in b.live_blocks() if any(f["val"] == "Some" and is_call(f["expr"], "pop_front") for f in facts_at(b, sym, facts, x))]
            entry = [x for x in some_blocks if not any(p in some_blocks for p in b.preds()[x])]
            wp = None
            for e in entry:
                # until the next loop iteration / return
                wp = wp or must_cross(b, [(e, 0)], return_points(b) + [term_pt(b, i)], subs, after_start=False)
            R.check(subs and entry and wp is None, "evict-discipline", b.path, "pop_front paired with bytes_held -= len(front.body)",
                    "an evicted chunk's wire bytes are not subtracted from bytes_held on every path", t.get("span"), "paired", path=wp)
        elif nm == "clear":
            # in ReplayRing::clear, or (that helper folded into its only caller) in advance_to_file together with bytes_held = 0
            inl = b.path == TC + "::advance_to_file" and any(w["body"] is b and w["kind"] == "store" and const_val(Sym(b).rvalue(w["rv"])) == 0 for w in field_writes(facts, RING, "bytes_held"))
            R.check(b.path == RING + "::clear" or inl, "evict-discipline", b.path, "clear-site", "chunks.clear() outside ReplayRing::clear", t.get("span"))
        elif nm in removers:
            R.bad("evict-discipline", b.path, "chunks." + nm, "ring chunks are modified through `%s`: not oldest-first eviction" % nm, t.get("span"))
        else:
            R.bad("evict-discipline", b.path, "chunks." + nm, "unrecognised mutable use of ring chunks: %s" % nm, t.get("span"))
    R.exact("evict-discipline", n_push, 1, "push_back sites")
    R.floor("evict-discipline", n_pop, 1, "pop_front sites")
    R.floor("evict-discipline", n_bounded, 1, "eviction sites in ReplayRing::push under bytes_held > capacity_bytes && chunks.len() > 1")
    # ring mutated only via TransferControl::{push_replay, advance_to_file}
    for b, i, t in facts.calls_to(RING + "::push"):
        R.check(b.path == TC + "::push_replay", "evict-discipline", b.path, "ring.push caller", "ReplayRing::push called from " + b.path, t.get("span"))
    for b, i, t in facts.calls_to(RING + "::clear"):
        switches = any(w["kind"] == "store" and w["body"] is b for w in field_writes(facts, INNER, "current_file_index"))
        R.check(b.path == TC + "::advance_to_file" or (b.path.startswith(TC + "::") and switches), "evict-discipline", b.path, "ring.clear caller",
                "ReplayRing::clear called from %s, which does not move the transfer to another file" % b.path, t.get("span"))

    # ---------- advance-clears ------------------------------------------------------------------------
    # the functions that move the transfer to another file: advance_to_file and every sibling that stores current_file_index (a variant
    # that also retunes the window, a skip-ahead); each owes the whole reset - ring emptied, staged resume dropped - on every path
    adv = [facts.body(TC + "::advance_to_file")]
    for w in field_writes(facts, INNER, "current_file_index"):
        if w["kind"] == "store" and w["body"] not in adv and w["body"].path.startswith(TC + "::") and not w["body"].path.endswith("::new") and "::tests::" not in w["body"].path:
            adv.append(w["body"])
    R.floor("advance-clears", len(adv), 1, "functions that switch the current file")
    for af in adv:
        asym = Sym(af)
        clears = [term_pt(af, i) for i, t in af.calls() if callee_matches(t["callee"], RING + "::clear") and _is_f(asym.op(t["args"][0]), "replay")]
        if not clears:
            # the ring replaced by a fresh one (`replay = ReplayRing::new(cap)`, alone or as part of a whole-state literal) is empty
            fresh = [(w["bb"], w["idx"]) for w in field_writes(facts, INNER, "replay") if w["body"] is af and w["kind"] == "store" and is_call(asym.rvalue(w["rv"]), RING + "::new")]
            if fresh:
                clears = fresh
        if not clears:
            # ReplayRing::clear folded in: replay.chunks.clear() and replay.bytes_held = 0, both on every path (the pair is one event)
            cc = [term_pt(af, i) for i, t in af.calls() if t["callee"]["name"] == "clear" and "VecDeque" in t["callee"]["path"] and "replay.chunks" in render(asym.op(t["args"][0]))]
            zz = [(w["bb"], w["idx"]) for w in field_writes(facts, RING, "bytes_held") if w["body"] is af and w["kind"] == "store" and const_val(asym.rvalue(w["rv"])) == 0]
            if cc and zz and must_cross(af, [(0, 0)], return_points(af), zz, after_start=False) is None:
                clears = cc
        wp = must_cross(af, [(0, 0)], return_points(af), clears, after_start=False)
        R.check(clears and wp is None, "advance-clears", af.path, "replay.clear on all paths", "%s can return without clearing the replay ring" % af.path.rsplit("::", 1)[-1], af.span, path=wp)
        nones = []
        for w in field_writes(facts, INNER, "pending_resume"):
            if w["body"] is af and w["kind"] == "store":
                v = asym.rvalue(w["rv"])
                if v[0] == "agg" and v[2] == "None":
                    nones.append((w["bb"], w["idx"]))
        # `pending_resume.take()` empties the slot just the same (whatever is done with what was in it)
        for i, t in af.calls():
            if t["callee"]["name"] == "take" and "Option" in t["callee"]["path"] and t["args"] and _is_f(asym.op(t["args"][0]), "pending_resume"):
                nones.append(term_pt(af, i))
        wp = must_cross(af, [(0, 0)], return_points(af), nones, after_start=False)
        R.check(nones and wp is None, "advance-clears", af.path, "pending_resume = None on all paths",
                "%s can return with a stale pending resume" % af.path.rsplit("::", 1)[-1], af.span, path=wp)
    if RING + "::clear" not in facts.bodies:
        return      # folded into advance_to_file: judged there (above)
    cl = facts.body(RING + "::clear")
    csym = Sym(cl)
    c1 = [term_pt(cl, i) for i, t in cl.calls() if t["callee"]["path"].endswith("VecDeque::<T, A>::clear") and _is_f(csym.op(t["args"][0]), "chunks")]
    c2 = [(w["bb"], w["idx"]) for w in field_writes(facts, RING, "bytes_held") if w["body"] is cl and w["kind"] == "store" and const_val(csym.rvalue(w["rv"])) == 0]
    # `*self = Self::new(self.capacity_bytes)` empties the list and zeroes the count in one step
    for r_ in _ring_resets(facts, cl):
        c1.append((r_[0], r_[1]))
        c2.append((r_[0], r_[1]))
    R.check(c1 and must_cross(cl, [(0, 0)], return_points(cl), c1, after_start=False) is None, "advance-clears", cl.path, "chunks.clear()",
            "ReplayRing::clear does not empty the chunk list on all paths", cl.span)
    R.check(c2 and must_cross(cl, [(0, 0)], return_points(cl), c2, after_start=False) is None, "advance-clears", cl.path, "bytes_held = 0",
            "ReplayRing::clear does not reset bytes_held", cl.span)


def _chunk_off(e):
    return e[0] == "field" and e[2] == "offset" and e[1][0] == "arg" and e[1][1] == 2


def _cap_off(e):
    return e[0] == "field" and e[2] == "offset" and e[1][0] == "arg" and e[1][1] == 1
