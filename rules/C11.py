"""C11 - flow-control accounting never over-grants credit (src/stream.rs).

Field-write discipline (A9) on stream::TransferControlInner plus guard (A6) and symbolic value
(A5/A7) checks at each store.
"""
from analysis.guards import facts_at, field_writes
from analysis.sym import Sym, render, const_val, is_call, walk
from analysis.mir import op_place, callee_matches, rv_operands
from rules.common import (site, has_cmp, cmp_facts, option_fact, disjunct_facts, blocks_assigning_variant, texts)

INNER = "stream::TransferControlInner"
TC = "stream::TransferControl"

EXPLANATION = (
    "Decides the per-operation clauses of C11 structurally: every MIR store to acked_offset / sent_offset / "
    "cancelled of TransferControlInner is enumerated crate-wide and must carry the value form and the dominating "
    "guards that make acked<=sent, stale/wrong-file acks inert and cancellation sticky; wait_for_credit's Ok exit "
    "must be guarded by the documented credit predicate. Not decided: the trace-level clause ('a producer "
    "following the documented loop never has more than one window unacknowledged') which quantifies over histories."
    ' credit-predicate and cancel-first apply to every function returning Result<_, CreditError>; a store to sent_offset is monotone (guarded, max, or sent_offset + x) or a rewind followed on every path by acked_offset = min(acked_offset, sent_offset).'
    " Every crate function that calls record_ack hands it one acknowledgement frame's (file, offset) pair: loop-carried operands must re-seed the offset wherever the file operand is re-assigned."
)
ASSUMPTIONS = [
    "std::sync::Mutex gives mutual exclusion; u64::min / saturating_sub have their std semantics",
    "chunk lengths are bounded by 2^48 (property quantifier), so in_flight + chunk_len does not overflow",
]


def _is_f(e, field):
    return e[0] == "field" and e[2] == field


def _store_value(b, sym, w):
    """the stored value; in a function that differs from the reference tree, temporaries and variables assigned on several paths
    are resolved by the definitions reaching the store"""
    if getattr(b, "changed", False):
        from analysis.sym import split_rows
        alts = split_rows(sym, w["bb"], w["idx"], w["rv"])
        if alts and len(alts) == 1:
            return alts[0][1]
    return sym.rvalue(w["rv"])


def _max_with(val, field):
    """max(self.<field>, x) in either order -> x"""
    if is_call(val, "std::cmp::Ord::max", "core::cmp::Ord::max", "max") and len(val[2]) == 2:
        a, b2 = val[2]
        if _is_f(a, field):
            return b2
        if _is_f(b2, field):
            return a
    return None


def sent_store_is_monotone(facts, b, w):
    """is this store to sent_offset provably not below the old value (guarded by sent_offset < value, a max, or sent_offset + x)?"""
    sym = Sym(b)
    val = _store_value(b, sym, w)
    fs = facts_at(b, sym, facts, w["bb"])
    if has_cmp(fs, "Lt", lambda a: _is_f(a, "sent_offset"), lambda x: x == val) or _max_with(val, "sent_offset") is not None:
        return True
    v_ = val
    while v_[0] == "field" and v_[2] == "0" and v_[1][0] == "bin" and v_[1][1] == "AddWithOverflow":
        v_ = ("bin", "Add", v_[1][2], v_[1][3])
    if is_call(v_, "saturating_add") and len(v_[2]) == 2:
        return _is_f(v_[2][0], "sent_offset") or _is_f(v_[2][1], "sent_offset")
    if v_[0] == "bin" and v_[1] == "Add":
        return _is_f(v_[2], "sent_offset") or _is_f(v_[3], "sent_offset")
    return False


def run(facts, R):
    for f in ("acked_offset", "sent_offset", "cancelled", "window_bytes", "current_file_index", "pending_resume"):
        facts.require_field(INNER, f)

    # ---------------- acked_offset ------------------------------------------------------------
    stores = [w for w in field_writes(facts, INNER, "acked_offset")]
    n_nonzero = 0
    for w in stores:
        b = w["body"]
        sym = Sym(b)
        fn = b.path
        if w["kind"] != "store":
            R.bad("acked-le-sent", fn, "acked_offset:" + w["kind"],
                  "acked_offset is written through %s; only guarded plain stores are recognised" % w["kind"], w["span"])
            continue
        val = _store_value(b, sym, w)
        fs = facts_at(b, sym, facts, w["bb"])
        if const_val(val) == 0:
            R.ok("acked-le-sent", fn, "acked_offset=0", w["span"], "reset to constant 0")
            continue
        raised = _max_with(val, "acked_offset")     # acked = acked.max(x): monotone by construction, bounded if x is
        n_nonzero += 1
        vtxt = render(val)
        # (a) value bounded by sent_offset
        bounded = False
        why = None
        if is_call(val, "std::cmp::Ord::min", "core::cmp::Ord::min", "min") and any(_is_f(a, "sent_offset") for a in val[2]):
            bounded, why = True, "value is min(_, sent_offset)"
        elif has_cmp(fs, "Le", lambda a: a == val, lambda x: _is_f(x, "sent_offset")) or has_cmp(fs, "Lt", lambda a: a == val, lambda x: _is_f(x, "sent_offset")):
            bounded, why = True, "store dominated by `value <= sent_offset`"
        elif raised is not None and (has_cmp(fs, "Le", lambda a: a == raised, lambda x: _is_f(x, "sent_offset")) or has_cmp(fs, "Lt", lambda a: a == raised, lambda x: _is_f(x, "sent_offset"))
                                     or (is_call(raised, "min") and any(_is_f(a, "sent_offset") for a in raised[2]))):
            bounded, why = True, "value is max(acked_offset, x) with x <= sent_offset (acked_offset <= sent_offset is the invariant being kept)"
        elif val[0] == "local" and len(b.defs_of(val[1])) > 1:
            # a value chosen between alternatives (`if x < sent { x } else { sent }`): each alternative is bounded
            okd = True
            for d in b.defs_of(val[1]):
                if d[0] != "assign":
                    okd = False
                    break
                dv = sym.rvalue(d[3])
                dfs = facts_at(b, sym, facts, d[1])
                okd = okd and (_is_f(dv, "sent_offset") or has_cmp(dfs, "Le", lambda a: a == dv, lambda x: _is_f(x, "sent_offset"))
                               or has_cmp(dfs, "Lt", lambda a: a == dv, lambda x: _is_f(x, "sent_offset"))
                               or _is_f(dv, "acked_offset")        # (the running best starts at the current value: acked <= sent is the invariant kept)
                               or (is_call(dv, "std::cmp::Ord::min", "core::cmp::Ord::min", "min") and any(_is_f(a, "sent_offset") for a in dv[2])))
            if okd:
                bounded, why = True, "every alternative of the stored value is sent_offset or <= sent_offset"
        R.check(bounded, "acked-le-sent", fn, "acked_offset<=sent_offset",
                "store acked_offset = %s is neither min(_, sent_offset) nor guarded by value <= sent_offset; guards: %s"
                % (vtxt, texts(fs)), w["span"], why)
        if bounded and is_call(val, "std::cmp::Ord::min", "core::cmp::Ord::min", "min") and len(val[2]) == 2 and any(_is_f(a, "acked_offset") for a in val[2]) \
                and any(_is_f(a, "sent_offset") for a in val[2]):
            # acked_offset = min(acked_offset, sent_offset): a clamp that restores acked <= sent after sent_offset was rewound; it is
            # no acknowledgement (it releases nothing: in-flight = sent - acked cannot grow by it), so the ack guards do not apply
            R.ok("ack-guards", fn, "acked_offset clamped to sent_offset", w["span"], vtxt[:120])
            continue
        # (b) monotone: guarded by value > acked_offset
        mono = has_cmp(fs, "Lt", lambda a: _is_f(a, "acked_offset"), lambda x: x == val) or raised is not None
        R.check(mono, "ack-guards", fn, "acked_offset-monotone",
                "store acked_offset = %s is not guarded by value > acked_offset (a stale ack could move it); guards: %s"
                % (vtxt, texts(fs)), w["span"], "guarded by acked_offset < value")
        # (b) current file only
        cur = has_cmp(fs, "Eq", lambda a: _is_f(a, "current_file_index"), lambda x: x[0] in ("arg", "local")) or \
            has_cmp(fs, "Eq", lambda a: _is_f(a, "current_file_index"), lambda x: x[0] == "field" and not any(y[0] == "field" and y[2] in ("current_file_index", "acked_offset", "sent_offset") for y in walk(x))
                    and any(y[0] == "arg" for y in walk(x)))       # (an element of a caller-supplied batch: `(file_index, offset)` taken from the slice argument)
        if not cur and val[0] == "local" and len(b.defs_of(val[1])) > 1:
            # a running best over a batch: every candidate other than the current value itself was taken from an entry of the current file
            cur = True
            for d in b.defs_of(val[1]):
                if d[0] != "assign":
                    cur = False
                    break
                dv = sym.rvalue(d[3])
                if _is_f(dv, "acked_offset"):
                    continue
                dfs = facts_at(b, sym, facts, d[1])
                cur = cur and (has_cmp(dfs, "Eq", lambda a: _is_f(a, "current_file_index"), lambda x: x[0] in ("arg", "local")) or
                               has_cmp(dfs, "Eq", lambda a: _is_f(a, "current_file_index"), lambda x: x[0] == "field" and any(y[0] == "arg" for y in walk(x))))
        R.check(cur, "ack-guards", fn, "acked_offset-current-file",
                "store acked_offset = %s is not guarded by file_index == current_file_index; guards: %s"
                % (vtxt, texts(fs)), w["span"], "guarded by file_index == current_file_index")
    # an acknowledgement is a (file, offset) pair read from ONE frame: a crate function that hands record_ack a pair assembled across
    # several frames may pair the newest file with an offset acknowledged for an older one
    for cb, ci, ct in facts.calls_to("stream::TransferControl::record_ack"):
        if len(ct["args"]) < 3:
            continue
        def _root(pl):
            for _h in range(6):
                if pl is None or pl["p"]:
                    return pl
                ds_ = cb.defs_of(pl["l"])
                if len(ds_) == 1 and ds_[0][0] == "assign" and "use" in ds_[0][3] and op_place(ds_[0][3]["use"]) is not None and not op_place(ds_[0][3]["use"])["p"]:
                    pl = op_place(ds_[0][3]["use"])
                else:
                    return pl
            return pl
        def _deps(ops, depth=0, seen=None):
            seen = set() if seen is None else seen
            for o_ in ops:
                q_ = op_place(o_)
                if q_ is None or q_["l"] in seen:
                    continue
                seen.add(q_["l"])
                ds_ = cb.defs_of(q_["l"])
                if len(ds_) == 1 and depth < 6:
                    if ds_[0][0] == "assign":
                        _deps(rv_operands(ds_[0][3]), depth + 1, seen)
                    elif ds_[0][0] == "call":
                        _deps(ds_[0][2]["args"], depth + 1, seen)
            return seen
        pf, po = _root(op_place(ct["args"][1])), _root(op_place(ct["args"][2]))
        csym = Sym(cb)
        def _multi(pl):
            if pl is None or pl["p"]:
                return None
            ds_ = [d_ for d_ in cb.defs_of(pl["l"]) if d_[0] != "arg"]
            return ds_ if len(ds_) > 1 else None
        df, do = _multi(pf), _multi(po)
        if df is None or do is None:
            # single-definition operands: both name the caller's own parameters or parts of one value
            R.ok("ack-guards", cb.path, "record_ack is handed one frame's pair", ct.get("span"), "%s, %s" % (render(csym.op(ct["args"][1]))[:50], render(csym.op(ct["args"][2]))[:50]))
            if df is None and do is None:
                continue
        bad_ = None
        for d_ in (df or []):
            if d_[0] != "assign":
                continue
            # the block (and its straight-line continuation) that switches the file must re-seed the offset from a value that does
            # not depend on the offset accumulated so far
            bbs_ = [d_[1]]
            while cb.blocks[bbs_[-1]]["term"]["k"] == "goto" and len(bbs_) < 4:
                bbs_.append(cb.blocks[bbs_[-1]]["term"]["target"])
            reseed = False
            for x_ in (do or []):
                if x_[0] == "assign" and x_[1] in bbs_ and po["l"] not in _deps(rv_operands(x_[3])):
                    reseed = True
            if not reseed:
                bad_ = d_
        R.check(bad_ is None and do is not None and df is not None, "ack-guards", cb.path, "record_ack is handed one frame's pair",
                "%s assembles the (file_index, offset) it hands to record_ack from different frames: the file operand is re-assigned at bb%s without re-seeding "
                "the offset operand there (an offset acknowledged for an earlier file is credited to the newest one)" % (cb.path.rsplit("::", 1)[-1], bad_[1] if bad_ else "?"),
                ct.get("span"), "every switch of the file operand re-seeds the offset operand")
    R.floor("acked-le-sent", len(stores), 3, "stores to acked_offset")
    R.floor("ack-guards", n_nonzero, 2, "non-zero stores to acked_offset")

    # ---------------- sent_offset --------------------------------------------------------------
    s_stores = field_writes(facts, INNER, "sent_offset")
    for w in s_stores:
        b = w["body"]
        sym = Sym(b)
        fn = b.path
        if w["kind"] != "store":
            R.bad("sent-monotone", fn, "sent_offset:" + w["kind"], "sent_offset written through " + w["kind"], w["span"])
            continue
        val = _store_value(b, sym, w)
        fs = facts_at(b, sym, facts, w["bb"])
        if const_val(val) == 0:
            # must be paired with acked_offset := 0 in the same function, on all paths to return
            from analysis.flow import must_cross, return_points
            evs = [(x["bb"], x["idx"]) for x in stores if x["body"] is b and x["kind"] == "store"
                   and const_val(Sym(b).rvalue(x["rv"])) == 0]
            w_path = must_cross(b, [(w["bb"], w["idx"])], return_points(b), evs)
            before = any(b.dominates(x[0], w["bb"]) and (x[0] != w["bb"] or x[1] <= w["idx"]) for x in evs)     # (<=: one whole-value store sets both)
            R.check(w_path is None or before, "sent-monotone", fn, "sent_offset=0 paired with acked_offset=0",
                    "sent_offset is reset to 0 on a path that leaves acked_offset non-zero (acked > sent)", w["span"],
                    "reset paired with acked_offset reset", path=w_path)
            continue
        mono = has_cmp(fs, "Lt", lambda a: _is_f(a, "sent_offset"), lambda x: x == val) or _max_with(val, "sent_offset") is not None
        if not mono:
            # sent_offset + x in unsigned arithmetic (saturating / checked / plain) never lies below sent_offset
            v_ = val
            while v_[0] == "field" and v_[2] == "0" and v_[1][0] == "bin" and v_[1][1] == "AddWithOverflow":
                v_ = ("bin", "Add", v_[1][2], v_[1][3])
            if is_call(v_, "saturating_add", "wrapping_add") and len(v_[2]) == 2 and is_call(v_, "saturating_add"):
                mono = _is_f(v_[2][0], "sent_offset") or _is_f(v_[2][1], "sent_offset")
            elif v_[0] == "bin" and v_[1] == "Add":
                mono = _is_f(v_[2], "sent_offset") or _is_f(v_[3], "sent_offset")
        if not mono:
            # a rewind (handing back an unsent reservation) is sound only together with acked_offset being clamped to the new value:
            # on every path from the store to the return, acked_offset = min(acked_offset, <the new sent_offset>) follows
            from analysis.flow import must_cross, return_points
            clamps = []
            for x in stores:
                if x["body"] is b and x["kind"] == "store":
                    xv = Sym(b).rvalue(x["rv"])
                    if is_call(xv, "std::cmp::Ord::min", "core::cmp::Ord::min", "min") and len(xv[2]) == 2 and \
                            any(_is_f(a_, "acked_offset") for a_ in xv[2]) and any(a_ == val or _is_f(a_, "sent_offset") for a_ in xv[2]):
                        clamps.append((x["bb"], x["idx"]))
            mono = bool(clamps) and must_cross(b, [(w["bb"], w["idx"])], return_points(b), clamps) is None
        R.check(mono, "sent-monotone", fn, "sent_offset-monotone",
                "store sent_offset = %s is not guarded by value > sent_offset (could drop below acked_offset); guards: %s"
                % (render(val), texts(fs)), w["span"], "guarded by sent_offset < value")
    R.floor("sent-monotone", len(s_stores), 2, "stores to sent_offset")

    # ---------------- cancelled ----------------------------------------------------------------
    c_writes = field_writes(facts, INNER, "cancelled")
    n_c = 0
    # carried over unchanged: `let c = g.cancelled.take(); *g = Inner { cancelled: c, .. }` (or a clone / copy of the field stored
    # back into the same object) leaves the flag as it was - neither a new store nor an escaping borrow
    carried = set()
    for w in c_writes:
        if w["kind"] != "store":
            continue
        b = w["body"]
        sym = Sym(b)
        v = _store_value(b, sym, w)
        src = None
        if v[0] == "call" and v[1].rsplit("::", 1)[-1] in ("take", "clone") and v[2] and _is_f(v[2][0], "cancelled"):
            src = v
        elif _is_f(v, "cancelled"):
            src = v
        if src is None:
            continue
        # same object: the store's base and the source's base are the same guard value
        carried.add((b.path, w["bb"], w["idx"]))
        if v[0] == "call" and len(v) > 3:
            carried.add((b.path, "borrow-for-call", v[3]))
    for w in c_writes:
        b = w["body"]
        sym = Sym(b)
        fn = b.path
        if (b.path, w["bb"], w["idx"]) in carried:
            R.ok("cancel-sticky", fn, "cancelled carried over unchanged", w["span"], "value is the field's own previous content")
            continue
        if w["kind"] == "mut-borrow" and not w["dest"]["p"]:
            # the `&mut g.cancelled` handed to the take() whose result is stored back
            uses = [i for i, t in b.calls() if any(op_place(a) is not None and op_place(a)["l"] == w["dest"]["l"] for a in t["args"])]
            if uses and all((b.path, "borrow-for-call", i) in carried for i in uses):
                continue
        if w["kind"] == "mut-borrow":
            R.bad("cancel-sticky", fn, "cancelled:mut-borrow",
                  "`cancelled` is mutably borrowed (take/replace/insert would break stickiness)", w["span"])
            continue
        n_c += 1
        fs = facts_at(b, sym, facts, w["bb"])
        guarded = option_fact(fs, lambda e: _is_f(e, "cancelled"), "None")
        val = sym.rvalue(w["rv"]) if w["kind"] == "store" else None
        is_some = val is not None and val[0] == "agg" and val[2] == "Some"
        R.check(guarded and is_some, "cancel-sticky", fn, "cancelled-store",
                "store to `cancelled` must be Some(..) under `cancelled.is_none()`; value=%s guards=%s"
                % (render(val) if val else w["kind"], texts(fs)), w["span"], "Some(reason) stored only while None: first reason wins")
    R.exact("cancel-sticky", n_c, 1, "non-constructor stores to cancelled")

    # request_resume: refused once cancelled, before any store
    rr = facts.body(TC + "::request_resume")
    sym = Sym(rr)
    n = 0
    for i, j, s in rr.assigns():
        pl = s["place"]
        if any(isinstance(e, dict) and e.get("a") == INNER for e in pl["p"]):
            fs = facts_at(rr, sym, facts, i)
            ok = option_fact(fs, lambda e: _is_f(e, "cancelled"), "None")
            n += 1
            R.check(ok, "cancel-sticky", rr.path, "store-after-cancel-test:" + [e["f"] for e in pl["p"] if isinstance(e, dict) and "f" in e][-1],
                    "request_resume stores state without having seen `cancelled` empty; guards: %s" % texts(fs),
                    s.get("span"), "dominated by cancelled.is_some() == false")
    R.floor("cancel-sticky", n, 4, "state stores in request_resume")
    for i, j, s in blocks_assigning_variant(rr, "std::result::Result", "Ok"):
        fs = facts_at(rr, sym, facts, i)
        R.check(option_fact(fs, lambda e: _is_f(e, "cancelled"), "None"), "cancel-sticky", rr.path, "Ok-return",
                "request_resume can return Ok after cancellation; guards: %s" % texts(fs), s.get("span"))

    # ---------------- wait loops: cancel first, credit predicate ---------------------------------
    facts.body(TC + "::wait_for_credit")
    # every function that can hand out credit (returns Result<_, CreditError>) is a grant site, whenever it was added: a sibling
    # of wait_for_credit (`try_`, `reserve_`, a batched variant) has to apply the same predicate
    grant_fns = sorted(p_ for p_, b__ in facts.bodies.items() if p_.startswith("stream::") and "{closure" not in p_ and "CreditError" in b__.local_ty(0)
                       and b__.local_ty(0).startswith("std::result::Result<"))
    R.floor("credit-predicate", len(grant_fns), 1, "functions returning Result<_, CreditError>")
    for gpath in grant_fns:
      wc = facts.body(gpath)
      sym = Sym(wc)
      oks = blocks_assigning_variant(wc, "std::result::Result", "Ok")
      if gpath == TC + "::wait_for_credit":
          R.floor("credit-predicate", len(oks), 1, "Ok exits of " + gpath.rsplit("::", 1)[-1])      # (a derived sibling may only delegate)
      for i, j, s in oks:
          okv = sym.rvalue(s["rv"])
          if okv[0] == "agg" and okv[3] and const_val(okv[3][0][1]) == 0 and "bool" in wc.local_ty(0):
              continue        # Ok(false) of a try_ variant: `no credit now`, nothing is granted on this row
          if okv[0] == "agg" and okv[3] and "bool" in wc.local_ty(0) and const_val(okv[3][0][1]) is None and getattr(wc, "changed", False):
              # `Ok(in_flight == 0 || fits)`: the verdict is a value.  Every definition that can reach it is `false`, `true` made where the
              # predicate is known to hold, or the predicate's own comparison
              from analysis.sym import split_eval as _se
              pop = s["rv"]["ops"][0]
              alts_ = _se(sym, i, j, lambda v_: v_.op(pop)) or []

              def _infl(e):
                  return is_call(e, "saturating_sub") and _is_f(e[2][0], "sent_offset") and _is_f(e[2][1], "acked_offset")

              def _sum(e):
                  while e[0] == "field" and e[2] == "0" and e[1][0] == "variant" and e[1][2] in ("Some", "Ok"):
                      e = e[1][1]
                  if e[0] == "field" and e[2] == "0" and e[1][0] == "bin" and e[1][1] == "AddWithOverflow":
                      e = ("bin", "Add", e[1][2], e[1][3])
                  if e[0] == "bin" and e[1] in ("Add", "AddWithOverflow"):
                      a_, b_ = e[2], e[3]
                  elif is_call(e, "saturating_add", "checked_add") and len(e[2]) == 2:
                      a_, b_ = e[2]
                  else:
                      return False
                  return (_infl(a_) and b_[0] == "arg") or (_infl(b_) and a_[0] == "arg")
              okall = bool(alts_)
              for ch_, v_ in alts_:
                  if const_val(v_) == 0:
                      continue
                  if v_[0] == "bin" and v_[1] == "Le" and _sum(v_[2]) and _is_f(v_[3], "window_bytes"):
                      continue
                  if v_[0] == "bin" and v_[1] == "Ge" and _sum(v_[3]) and _is_f(v_[2], "window_bytes"):
                      continue
                  if v_[0] == "bin" and v_[1] == "Eq" and _infl(v_[2]) and const_val(v_[3]) == 0:
                      continue
                  if const_val(v_) == 1:
                      pts_ = [pt_ for pt_ in ch_.values()]
                      fsx = [f_ for pt_ in pts_ for f_ in facts_at(wc, sym, facts, pt_[0])]
                      if has_cmp(fsx, "Eq", _infl, lambda x: const_val(x) == 0) or has_cmp(fsx, "Le", _sum, lambda x: _is_f(x, "window_bytes")):
                          continue
                  okall = False
              fs0_ = facts_at(wc, sym, facts, i)
              R.check(option_fact(fs0_, lambda e: _is_f(e, "cancelled"), "None"), "cancel-sticky", wc.path, "Ok-after-cancel-test",
                      "%s can report credit without testing `cancelled` first; guards: %s" % (wc.path.rsplit("::", 1)[-1], texts(fs0_)), s.get("span"), "cancelled == None")
              R.check(okall, "credit-predicate", wc.path, "Ok-guard",
                      "%s returns Ok(verdict) where the verdict is not, on every definition reaching it, false / true under the credit predicate / the predicate's own "
                      "comparison: %s" % (wc.path.rsplit("::", 1)[-1], [render(v_)[:80] for _, v_ in alts_]), s.get("span"), "verdict is the credit predicate")
              continue
          from analysis.guards import refine
          for fs in [alt for fs0 in disjunct_facts(wc, sym, facts, i) for alt in refine(wc, sym, facts, fs0)]:
              not_cancelled = option_fact(fs, lambda e: _is_f(e, "cancelled"), "None")
              R.check(not_cancelled, "cancel-sticky", wc.path, "Ok-after-cancel-test",
                      "%s can grant credit without testing `cancelled` first; guards: %s" % (wc.path.rsplit("::", 1)[-1], texts(fs)), s.get("span"),
                      "credit granted only with cancelled == None")

              def is_inflight(e):
                  return is_call(e, "saturating_sub") and _is_f(e[2][0], "sent_offset") and _is_f(e[2][1], "acked_offset")

              idle = has_cmp(fs, "Eq", is_inflight, lambda x: const_val(x) == 0)

              def is_sum(e):
                  if e[0] == "bin" and e[1] in ("Add", "AddWithOverflow"):
                      a, b2 = e[2], e[3]
                  elif e[0] == "field" and e[2] == "0" and e[1][0] == "bin" and e[1][1] == "AddWithOverflow":
                      a, b2 = e[1][2], e[1][3]
                  elif is_call(e, "saturating_add", "checked_add") and len(e[2]) == 2:
                      a, b2 = e[2]
                  else:
                      return False
                  return (is_inflight(a) and b2[0] == "arg") or (is_inflight(b2) and a[0] == "arg")

              fits = has_cmp(fs, "Le", is_sum, lambda x: _is_f(x, "window_bytes"))
              R.check(idle or fits, "credit-predicate", wc.path, "Ok-guard",
                      "%s returns Ok on a path guarded by neither `in_flight == 0` nor "
                      "`in_flight + chunk_len <= window_bytes`; guards: %s" % (wc.path.rsplit("::", 1)[-1], texts(fs)), s.get("span"),
                      "in_flight==0" if idle else "in_flight+chunk_len<=window_bytes")

    # ... against *the configured* window: `window_bytes` is set when the control is built and nothing changes it afterwards.
    # A store into an existing control (field store, or a whole-state overwrite such as `*guard = Inner { ..fresh }`) must put
    # the field's own previous value back
    n_wb = 0
    for w in field_writes(facts, INNER, "window_bytes"):
        b_ = w["body"]
        def _caller_chosen(v_):
            # an explicit retune by the embedder (`set_window_bytes(new)`): the new window is a parameter of the function, nothing
            # derived from protocol state.  The window then is what the caller last said; protocol events still never change it
            return v_[0] == "arg" and b_.local_ty(v_[1]) in ("u64", "usize")
        if w["kind"] == "mut-borrow" and w.get("dest") and not w["dest"]["p"]:
            s0_ = Sym(b_)
            al_ = {w["dest"]["l"]}
            grew = True
            while grew:
                grew = False
                for _, _, st_ in b_.assigns():
                    if st_["place"]["p"] or st_["place"]["l"] in al_:
                        continue
                    rv_ = st_["rv"]
                    src_ = rv_.get("ref") if "ref" in rv_ else op_place(rv_["use"]) if "use" in rv_ else None
                    if src_ is not None and src_["l"] in al_ and [e_ for e_ in src_["p"] if e_ != "deref"] == []:
                        al_.add(st_["place"]["l"])
                        grew = True
            reps = [t_ for _, t_ in b_.calls() if callee_matches(t_["callee"], "std::mem::replace", "core::mem::replace") and len(t_["args"]) == 2
                    and (op_place(t_["args"][0]) or {}).get("l") in al_]
            others = [t_ for _, t_ in b_.calls() if any((op_place(a_) or {}).get("l") in al_ for a_ in t_["args"]) and t_ not in reps]
            if len(reps) == 1 and not others and _caller_chosen(s0_.op(reps[0]["args"][1])):
                R.ok("credit-predicate", b_.path, "window is fixed", w.get("span"), "retuned only to a caller-supplied value (mem::replace)")
                continue
        if w["kind"] != "store":
            R.bad("credit-predicate", b_.path, "window is fixed", "window_bytes is borrowed mutably / written through %s" % w["kind"], w.get("span"))
            continue
        locks_ = [1 for _, t_ in b_.calls() if t_["callee"]["name"] == "lock" and "Mutex" in t_["callee"]["path"]]
        if not locks_:
            continue      # a constructor: there is no earlier value
        n_wb += 1
        from analysis.sym import split_rows as _sr
        s_ = Sym(b_)
        alts_ = (_sr(s_, w["bb"], w["idx"], w["rv"]) if getattr(b_, "changed", False) else None) or [({}, s_.rvalue(w["rv"]))]
        for _, v_ in alts_:
            r_ = render(v_)
            R.check((_is_f(v_, "window_bytes") and "lock(" in r_) or _caller_chosen(v_), "credit-predicate", b_.path, "window is fixed",
                    "window_bytes of a live control is overwritten with %s: credit is then granted against another quantity than the configured window" % r_[:120],
                    w.get("span"), "window_bytes := its own previous value")

    wr = facts.body(TC + "::wait_for_reconnect")
    sym = Sym(wr)
    rdy = blocks_assigning_variant(wr, "stream::ReconnectOutcome", "ResumeReady")
    R.floor("cancel-sticky", len(rdy), 1, "ResumeReady exits of wait_for_reconnect")
    for i, j, s in rdy:
        fs = facts_at(wr, sym, facts, i)
        R.check(option_fact(fs, lambda e: _is_f(e, "cancelled"), "None"), "cancel-sticky", wr.path, "ResumeReady-after-cancel-test",
                "wait_for_reconnect can hand out a resume without testing `cancelled` first; guards: %s" % texts(fs), s.get("span"))
    # each wait_timeout is preceded (in the same iteration) by the cancelled test
    waiters_ = [facts.body(TC + "::wait_for_credit"), wr] + [b_ for p_, b_ in sorted(facts.bodies.items()) if p_.startswith("stream::") and p_ not in (TC + "::wait_for_credit", wr.path)
                                                        and b_.call_sites(lambda c: c["path"].endswith("Condvar::wait_timeout") or c["path"].endswith("Condvar::wait"))]
    for b in waiters_:
        sym = Sym(b)
        ws = b.call_sites(lambda c: c["path"].endswith("Condvar::wait_timeout") or c["path"].endswith("Condvar::wait"))
        R.floor("cancel-sticky", len(ws), 1, "condvar waits in " + b.name)
        for i, t in ws:
            fs = facts_at(b, sym, facts, i)
            R.check(option_fact(fs, lambda e: _is_f(e, "cancelled"), "None"), "cancel-sticky", b.path, "wait-after-cancel-test",
                    "parks on the condvar without having tested `cancelled`; guards: %s" % texts(fs), t.get("span"))
