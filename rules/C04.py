"""C04 - multiplexed calls each receive their own response, whatever the order."""
from analysis.flow import must_cross, return_points, term_pt, path_counts, trace_op
from analysis.guards import facts_at, field_writes
from analysis.mir import callee_matches, op_place
from analysis.sym import Sym, render, is_call, const_val, walk
from rules.common import texts

EXPLANATION = (
    "The correlation discipline whose conjunction makes mis-correlation impossible, checked on all three clients: "
    "(id-source) the id put in the request header and the key under which the waiter is registered are the same value - "
    "the result of next_request_id(), a single atomic fetch_add(1) on the per-connection counter that nothing else writes - "
    "or, when forwarding, the id of the very message that is written, with duplicate keys refused; "
    "(register-before-write) registration dominates the write of every non-notify request; "
    "(deliver-by-key) each response loop removes the waiter under the id of the message it just read and hands exactly that "
    "message to exactly that waiter, once, and touches no other entry; "
    "(notify-before-pending) the WebSocket loop consults the pending map only on the notify == 0 edge and routes notifies "
    "only to the subscriber slot; (index-travels) in every batch implementation the index that selects the output slot "
    "travels with the request it was enumerated with. Not decided: enumeration of response orders/interleavings as such "
    "(the rules are order-independent); ids are distinct until the 64-bit counter wraps."
    ' (deliver-by-key, completeness) from the point where a response loop has a decoded response every path to the next read consults the pending table (notifies excepted); (index-travels, completeness) what a batch function returns on every path is the vector stored by request index, or an order-preserving buffered/join_all pipeline over the requests.'
    ' A burst writer (a function that queues frames and writes them itself under the writer lock) is judged in its own right: every MessageBuilder::id in it is the key registered in the same pass, a frame is queued only behind the Ok edge of its registration, and no registration is reachable from a write of the burst.'
    " PendingRequestGuard::register builds the guard only after the entry was inserted: every guard literal there is dominated by the insert, so the duplicate refusal drops nothing that would remove the in-flight owner's entry."
)
ASSUMPTIONS = ["HashMap insert/remove, mpsc and oneshot channels have their documented semantics", "AtomicU64::fetch_add is atomic"]

CLIENTS = (
    # module, call fn, forward fn(s), loop body, inner type
    ("client", "client::Client::call_with_body_and_timeout", (), "client::spawn_response_loop::{closure#0}", "client::ClientInner"),
    ("async_client", "async_client::AsyncClient::call_with_body_and_timeout::{closure#0}",
     ("async_client::AsyncClient::forward_message_with_optional_timeout::{closure#0}",),
     "async_client::spawn_response_loop::{closure#0}", "async_client::AsyncClientInner"),
    ("websocket_client", "websocket_client::WebSocketClient::call_with_body_and_timeout::{closure#0}", (),
     "websocket_client::spawn_response_loop::{closure#0}", "websocket_client::WebSocketClientInner"),
)


def _registrations(b, sym, module):
    """(bb, term, key_expr) of pending registrations in body b."""
    out = []
    for i, t in b.calls():
        c = t["callee"]
        if callee_matches(c, module + "::PendingRequestGuard::register"):
            # the request id is the u64 argument, wherever it sits in the list
            tys = t.get("arg_tys") or []
            ks = [k_ for k_, ty_ in enumerate(tys) if ty_ == "u64"]
            out.append((i, t, sym.op(t["args"][ks[0] if len(ks) == 1 else 1])))
        elif c["name"] == "insert" and "HashMap" in c["path"] and "pending" in render(sym.op(t["args"][0])):
            out.append((i, t, sym.op(t["args"][1])))
    return out


def run(facts, R):
    has_ws = "websocket" in facts.features
    for module, callfn, fwds, loopfn, inner in CLIENTS:
        if module == "websocket_client" and not has_ws:
            continue
        # ---------------- id-source -------------------------------------------------------------------
        nid = facts.body(module + "::" + callfn.split("::")[1] + "::next_request_id")
        ns = Sym(nid)
        v = ns.local(0)
        ok = is_call(v, "fetch_add") and render(v[2][0]).endswith("inner.next_id") and const_val(v[2][1]) == 1
        R.check(ok, "id-source", nid.path, "atomic fetch_add(1)", "next_request_id is %s, not a single fetch_add(1) on inner.next_id" % render(v), nid.span, render(v))
        # who touches next_id
        n_touch = 0
        for b in facts.bodies.values():
            if not b.path.startswith(module + "::") and not b.path.startswith("<" + module + "::"):
                continue
            s = None
            for i, t in b.calls():
                for a in t["args"][:1]:
                    s = s or Sym(b)
                    if render(s.op(a)).endswith(".next_id"):
                        n_touch += 1
                        R.check(t["callee"]["name"] == "fetch_add", "id-source", b.path, "next_id." + t["callee"]["name"],
                                "the id counter is modified through `%s`: ids may repeat" % t["callee"]["name"], t.get("span"), "fetch_add only")
        R.floor("id-source", n_touch, 1, "uses of %s next_id" % module)
        for w in field_writes(facts, inner, "next_id"):
            R.bad("id-source", w["body"].path, "next_id:" + w["kind"], "next_id is written outside its constructor", w["span"])

        # derived call functions: any other function of the module that registers a waiter and writes a request (a `forward_message`
        # added to a client that had none, a pipelined batch sender) carries the same obligations; one that keeps the id of the message
        # it is handed is a forwarder, one that builds its message is a caller
        derived_calls = []
        wr_name = module + "::" + callfn.split("::")[1] + "::write_request"
        for p_, b_ in sorted(facts.bodies.items()):
            if p_.split("::")[0].lstrip("<") != module or p_ in (callfn,) + tuple(fwds) or "::tests::" in p_:
                continue
            s_ = Sym(b_)
            own_write = any(t_["callee"]["name"] in ("lock", "try_lock", "blocking_lock") and "Mutex" in t_["callee"]["path"] and render(s_.op(t_["args"][0])).endswith(".writer")
                            for _, t_ in b_.calls()) and any(t_["callee"]["name"].startswith("write_message") for _, t_ in b_.calls())
            if not (own_write or any(callee_matches(t_["callee"], wr_name) for _, t_ in b_.calls())):
                continue
            if _registrations(b_, s_, module):
                derived_calls.append(p_)
                R.note("derived call function of %s (judged like %s): %s" % (module, callfn.rsplit("::", 2)[-2 if "{closure" in callfn else -1], p_))
        # ... and a function that registers a waiter without writing the request itself (a helper future `response_for(id)` polled after a
        # burst was written) leaves the order of registration and write to whoever polls it first: not establishable, reported
        for p_, b_ in sorted(facts.bodies.items()):
            if p_.split("::")[0].lstrip("<") != module or p_ in (callfn,) + tuple(fwds) + tuple(derived_calls) or "::tests::" in p_ or "PendingRequestGuard" in p_:
                continue
            s_ = Sym(b_)
            rg_ = _registrations(b_, s_, module)
            if rg_:
                R.bad("register-before-write", p_, "a registration sits in the function that writes the request",
                      "%s registers a waiter but does not write the request itself: whether the waiter exists before the request is on the wire depends on when "
                      "this code runs relative to the writer (a lazily polled future registers only at its first poll), so a fast response can be dropped as "
                      "unrecognised" % p_.rsplit("::", 2)[-2 if "{closure" in p_ else -1], rg_[0][1].get("span"))
        fwd_like = set(fwds)
        for p_ in derived_calls:
            b_ = facts.body(p_)
            s_ = Sym(b_)
            rg_ = _registrations(b_, s_, module)
            if rg_ and not is_call(rg_[0][2], "next_request_id"):
                fwd_like.add(p_)
        for fn in (callfn,) + tuple(fwds) + tuple(derived_calls):
            b = facts.body(fn)
            sym = Sym(b)
            regs = _registrations(b, sym, module)
            writes = [(i, t) for i, t in b.calls() if callee_matches(t["callee"], module + "::" + callfn.split("::")[1] + "::write_request")]
            R.check(len(regs) == 1, "id-source", b.path, "one registration", "expected exactly one pending registration, found %d" % len(regs), b.span)
            if not writes and fn in derived_calls and len(regs) == 1:
                # a burst writer: the function queues its frames and writes them itself under the writer lock.  The per-call obligations
                # read: every id given to a MessageBuilder here is the key registered in the same pass; a frame is queued for the burst
                # only behind the Ok edge of its registration; the registration site dominates every write of the burst
                ri, rt, key = regs[0]
                own = [(i, t) for i, t in b.calls() if t["callee"]["name"].startswith("write_message")]
                R.floor("register-before-write", len(own), 1, "frame writes in " + b.path)
                ids_ = [sym.op(t["args"][1]) for i, t in b.calls() if callee_matches(t["callee"], "message::MessageBuilder::id") and len(t["args"]) > 1]
                R.check(bool(ids_) and all(x_ == key for x_ in ids_) and is_call(key, "next_request_id"), "id-source", b.path, "header id == registered key",
                        "a message built in %s does not carry the id its waiter is registered under (ids %s, key %s)" % (b.path, [render(x_)[:40] for x_ in ids_], render(key)[:40]), rt.get("span"),
                        "every MessageBuilder::id(..) is the registered key")
                for i, t in b.calls():
                    pl_ = op_place(t["args"][1]) if len(t["args"]) == 2 else None
                    if t["callee"]["name"] == "push" and "Vec" in t["callee"]["path"] and pl_ is not None and not pl_["p"] and "message::Message" == b.local_ty(pl_["l"]):
                        fs_ = facts_at(b, sym, facts, i)
                        okq = any(str(f["val"]) == "Ok" and any(y[0] == "call" and len(y) > 3 and y[3] == ri for y in walk(f["expr"])) for f in fs_)
                        R.check(okq, "register-before-write", b.path, "a frame is queued only behind its registration",
                                "a request frame is queued for the burst on a path where its waiter was not registered (guards: %s)" % texts(fs_)[:5], t.get("span"), "push behind register(..) == Ok")
                for wi, wt in own:
                    # (the registration loop may run zero times - an empty batch - so it does not dominate the burst; what matters is that it is
                    # over when the burst starts: together with the push rule every written frame has its waiter)
                    late = ri in b.reachable(starts=tuple(b.succs(wi)))
                    R.check(not late, "register-before-write", b.path, "registration precedes the burst",
                            "a waiter can be registered after frames of the burst were written: a fast response would be dropped as unrecognised", wt.get("span"), "no registration reachable from write@bb%d" % wi)
                continue
            R.floor("register-before-write", len(writes), 1, "write_request calls in " + b.path)
            if len(regs) != 1:
                continue
            ri, rt, key = regs[0]
            is_fwd = fn in fwd_like
            for wi, wt in writes:
                msg = sym.op(wt["args"][1])
                fs = facts_at(b, sym, facts, wi)
                notify_path = any(f["val"] is True and f["expr"][0] == "bin" and f["expr"][1] == "Eq" and "notify" in render(f["expr"]) for f in fs) or \
                    any(f["expr"][0] == "bin" and "notify" in render(f["expr"][2]) and const_val(f["expr"][3]) == 0 and
                        ((f["expr"][1] == "Ne" and f["val"] is True) or (f["expr"][1] == "Eq" and f["val"] is False)) for f in fs)       # `notify != 0`
                if notify_path:
                    R.ok("register-before-write", b.path, "notify write exempt", wt.get("span"), "guarded by header.notify == 1: no response expected", trivial=True)
                    continue
                # header id of the written message == registered key
                if is_fwd:
                    same = key[0] == "field" and key[2] == "id" and key[1][0] == "field" and key[1][2] == "header" and key[1][1] == msg
                    det = "key=%s msg=%s" % (render(key), render(msg))
                else:
                    msgs = [msg]
                    if getattr(b, "changed", False):
                        # the message may be built by a spliced helper and arrive through `?`: one value per reaching definition
                        from analysis.sym import split_eval
                        alts_ = split_eval(sym, wi, len(b.blocks[wi]["stmts"]), lambda v_: v_.op(wt["args"][1]))
                        if alts_:
                            msgs = [v_ for _, v_ in alts_]
                    same, det = True, ""
                    for m_ in msgs:
                        ids = [x for x in walk(m_) if is_call(x, "MessageBuilder::id")]
                        same = same and len(ids) == 1 and ids[0][2][1] == key and is_call(key, "next_request_id")
                        det = "key=%s header.id=%s" % (render(key), render(ids[0][2][1]) if ids else None)
                R.check(same, "id-source", b.path, "header id == registered key",
                        "the id written in the request header and the key the waiter is registered under differ (%s)" % det, wt.get("span"), det)
                R.check(b.dominates(ri, wi) and ri != wi, "register-before-write", b.path, "registration dominates write",
                        "the request can be written before its waiter is registered: a fast response would be dropped as unrecognised",
                        wt.get("span"), "register@bb%d dominates write@bb%d" % (ri, wi))
        # notify senders never register and set the notify flag
        nb_path = module + "::" + callfn.split("::")[1] + "::notify_with_builder" + ("::{closure#0}" if module != "client" else "")
        nb = facts.body(nb_path)
        nsym = Sym(nb)
        for wi, wt in [(i, t) for i, t in nb.calls() if t["callee"]["name"] == "write_request"]:
            msg = nsym.op(wt["args"][1])
            flagged = any(is_call(x, "MessageBuilder::notify") and const_val(x[2][1]) == 1 for x in walk(msg))
            R.check(flagged and not _registrations(nb, nsym, module), "register-before-write", nb.path, "notify sender sets the flag, registers nothing",
                    "notify_with_builder writes %s" % render(msg)[:160], wt.get("span"), "builder.notify(true), no registration")
        # PendingRequestGuard::register refuses duplicates (async, ws)
        if module != "client":
            rg = facts.body(module + "::PendingRequestGuard::register")
            rs = Sym(rg)
            ins = [(i, t) for i, t in rg.calls() if t["callee"]["name"] == "insert" and "HashMap" in t["callee"]["path"]]
            vac = [(i, t) for i, t in rg.calls() if t["callee"]["name"] == "insert" and "VacantEntry" in t["callee"]["path"]]
            R.check(len(ins) + len(vac) == 1, "id-source", rg.path, "one insert", "register has %d inserts" % (len(ins) + len(vac)), rg.span)
            for i, t in ins:
                fs = facts_at(rg, rs, facts, i)
                dup = any(is_call(f["expr"], "contains_key") and f["val"] is False and f["expr"][2][1] == rs.op(t["args"][1]) for f in fs)
                keyarg = rs.op(t["args"][1])
                R.check(dup and keyarg[0] == "arg" and rg.local_ty(keyarg[1]) == "u64", "id-source", rg.path, "duplicate key refused",
                        "register inserts %s without first refusing an id that is already in flight; guards: %s" % (render(keyarg), texts(fs)), t.get("span"),
                        "insert(request_id) only if !contains_key(request_id)")
            for i, t in vac:
                # entry API: the insert goes through the Vacant variant of pending.entry(request_id); Occupied is the refusal
                slot = rs.op(t["args"][0])
                ent = [x for x in walk(slot) if is_call(x, "entry")]
                keyarg = ent[0][2][1] if ent and len(ent[0][2]) > 1 else None
                fs = facts_at(rg, rs, facts, i)
                vacant = any(is_call(f["expr"], "entry") and str(f["val"]) == "Vacant" for f in fs)
                R.check(vacant and keyarg is not None and keyarg[0] == "arg" and rg.local_ty(keyarg[1]) == "u64", "id-source", rg.path, "duplicate key refused",
                        "register inserts through %s without being on the Vacant edge of entry(request_id); guards: %s" % (render(slot)[:80], texts(fs)), t.get("span"),
                        "entry(request_id): Vacant -> insert, Occupied -> refuse")

            # ... and the refusal touches nothing: an armed guard that exists while the duplicate is refused is dropped by the early return and
            # its Drop removes the key - the entry of the call that owns the id.  A guard is built only where the insert has happened
            gty = module + "::PendingRequestGuard"
            from analysis.guards import struct_constructions as _sc
            ins_pts = [i for i, _ in ins + vac]
            for gb, gi, gj, gs in _sc(facts, gty):
                if gb is not rg:
                    continue
                R.check(any(rg.dominates(x, gi) and x != gi for x in ins_pts), "own-entry-only", rg.path, "the guard is built after its entry was inserted",
                        "register builds the armed guard before the duplicate test: the refusal path drops it and its Drop removes the in-flight call's entry under that id",
                        gs.get("span"), "guard literal dominated by the insert")
        # ---------------- deliver-by-key --------------------------------------------------------------
        lb = facts.body(loopfn)
        ls = Sym(lb)
        removes = [(i, t) for i, t in lb.calls() if t["callee"]["name"] == "remove" and "HashMap" in t["callee"]["path"]]
        R.check(len(removes) == 1, "deliver-by-key", lb.path, "one pending.remove", "response loop has %d pending.remove calls" % len(removes), lb.span)
        other = [(i, t) for i, t in lb.calls() if "HashMap" in t["callee"]["path"] and t["callee"]["name"] in ("get", "get_mut", "insert", "drain", "clear", "retain", "iter", "values", "iter_mut", "values_mut", "entry")]
        if other and getattr(lb, "changed", False) and not any(p_.startswith(module + "::fail_all_pending") for p_ in facts.bodies):
            # fail_all_pending written out in the loop: a drain whose entries only ever receive an Err is no delivery
            def _fail_all_drain(di):
                reach = lb.reachable((di,))
                snds = [(si, st) for si, st in lb.calls() if si in reach and si != di and st["callee"]["name"] == "send" and len(st["args"]) == 2]
                return bool(snds) and all(ls.op(st["args"][1])[0] == "agg" and ls.op(st["args"][1])[2] == "Err" for _, st in snds)
            tolerated = [(i, t) for i, t in other if t["callee"]["name"] == "drain" and _fail_all_drain(i)]
            if tolerated:
                R.note("%s: the response loop drains the pending map itself (no fail_all_pending helper); every drained sender is given Err" % module)
            other = [x for x in other if x not in tolerated]
        R.check(not other, "deliver-by-key", lb.path, "no other map access", "the response loop also touches the pending map through %s" % [t["callee"]["name"] for _, t in other], lb.span)
        aggs = [(i, j, s) for i, j, s in lb.assigns() if s["rv"].get("agg") == "adt" and s["rv"]["adt"].endswith("PendingDispatch") and s["rv"]["variant"] == "Matched"]
        direct = []
        if not aggs and len(removes) == 1:
            # no intermediate PendingDispatch value: the removed sender is used directly
            ri0 = removes[0][0]
            for si, st in lb.calls():
                if st["callee"]["name"] == "send" and len(st["args"]) == 2 and any(x[0] == "call" and len(x) > 3 and x[3] == ri0 for x in walk(ls.op(st["args"][0]))):
                    direct.append((si, st))
        R.check(len(aggs) == 1 or len(direct) == 1, "deliver-by-key", lb.path, "one Matched row", "found %d Matched constructions / %d direct sends" % (len(aggs), len(direct)), lb.span)
        if len(removes) == 1 and len(direct) == 1 and not aggs:
            ri, rt = removes[0]
            key = ls.op(rt["args"][1])
            ok_key = key[0] == "field" and key[2] == "id" and key[1][0] == "field" and key[1][2] == "header"
            resp = key[1][1] if ok_key else None
            R.check(ok_key, "deliver-by-key", lb.path, "remove(response.header.id)", "pending.remove is keyed by %s" % render(key), rt.get("span"), render(key))
            si, st = direct[0]
            a0, a1 = ls.op(st["args"][0]), ls.op(st["args"][1])
            ok = "as Some).0" in render(a0) and a1[0] == "agg" and a1[2] == "Ok" and resp is not None and dict(a1[3])["0"] == resp
            R.check(ok, "deliver-by-key", lb.path, "send(Ok(response)) to the matched sender", "send(%s, %s)" % (render(a0)[:120], render(a1)[:120]), st.get("span"),
                    "sender = pending.remove(id) value, response = the message whose id was the key")
            reads = [x for x, y in lb.calls() if callee_matches(y["callee"], "io::read_message", "async_io::read_message_async")
                     or (y["callee"]["name"] == "next" and "Stream" in (y["callee"].get("trait") or ""))]
            R.check(len(reads) == 1 and not _in_inner_cycle(lb, si, reads[0]), "deliver-by-key", lb.path, "delivered once per response",
                    "the matched send can repeat without reading another response", st.get("span"), "send lies only on the read loop")
        if len(removes) == 1 and len(aggs) == 1:
            ri, rt = removes[0]
            key = ls.op(rt["args"][1])
            ok_key = key[0] == "field" and key[2] == "id" and key[1][0] == "field" and key[1][2] == "header"
            resp = key[1][1] if ok_key else None
            R.check(ok_key, "deliver-by-key", lb.path, "remove(response.header.id)", "pending.remove is keyed by %s" % render(key), rt.get("span"), render(key))
            i, j, s = aggs[0]
            v = ls.rvalue(s["rv"])
            d = dict(v[3])
            snd_from_remove = any(x[0] == "call" and x[3] == ri for x in walk(d["sender"])) and "Some" in render(d["sender"])
            same_resp = resp is not None and d["response"] == resp
            R.check(snd_from_remove and same_resp, "deliver-by-key", lb.path, "Matched{sender: removed, response: the message read}",
                    "the sender/response pairing is %s" % render(v)[:240], s.get("span"), "sender = pending.remove(id) value, response = the message whose id was the key")
            # the send: exactly the pair from the Matched row
            sends = [(si, st) for si, st in lb.calls() if st["callee"]["name"] == "send" and "Matched" in render(ls.op(st["args"][0]))]
            R.check(len(sends) == 1, "deliver-by-key", lb.path, "one send on the Matched arm", "found %d" % len(sends), lb.span)
            for si, st in sends:
                a0, a1 = ls.op(st["args"][0]), ls.op(st["args"][1])
                ok = render(a0).endswith("as Matched).sender") and a1[0] == "agg" and a1[2] == "Ok" and render(dict(a1[3])["0"]).endswith("as Matched).response")
                R.check(ok, "deliver-by-key", lb.path, "send(Ok(response)) to the matched sender", "send(%s, %s)" % (render(a0), render(a1)), st.get("span"))
                cnt = path_counts(lb, [si], start=si, exits=[x for x in lb.succs(si)])
                reads = [x for x, y in lb.calls() if callee_matches(y["callee"], "io::read_message", "async_io::read_message_async")
                         or (y["callee"]["name"] == "next" and "Stream" in (y["callee"].get("trait") or ""))]
                R.check(len(reads) == 1 and not _in_inner_cycle(lb, si, reads[0]), "deliver-by-key", lb.path, "delivered once per response",
                        "the matched send can repeat without reading another response", st.get("span"), "send lies only on the read loop")
        # ---------------- unmatched-keeps-reading: a response whose id matches no waiter (late answer to a timed-out call, a
        # duplicate) is dropped and the loop goes on reading; it must not end the reader, or every other call on the
        # connection loses its response
        if len(removes) == 1:
            from analysis.guards import _variants_for_discr
            from analysis.sym import switch_alternatives
            ri, rt = removes[0]
            reads_ = [term_pt(lb, x) for x, y in lb.calls() if callee_matches(y["callee"], "io::read_message", "async_io::read_message_async")
                      or (y["callee"]["name"] == "next" and "Stream" in (y["callee"].get("trait") or ""))]
            miss = []
            for x in sorted(lb.live_blocks()):
                t_ = lb.term(x)
                if t_["k"] != "switch" or t_.get("on_ty") == "bool":
                    continue
                vm = _variants_for_discr(lb, facts, t_, x) or {}
                if "None" not in vm.values():
                    continue
                for e in switch_alternatives(ls, x):
                    if e[0] == "discr" and e[1][0] == "call" and len(e[1]) > 3 and e[1][3] == ri:
                        listed = {vm.get(v, str(v)): tb for v, tb in t_["targets"]}
                        tb = listed.get("None", t_.get("otherwise"))
                        if tb is not None and not (lb.term(tb)["k"] == "unreachable" and not lb.blocks[tb]["stmts"]):
                            miss.append((tb, 0))
            R.floor("unmatched-keeps-reading", len(set(miss)), 1, "tests of the pending.remove result in " + lb.path)
            w = must_cross(lb, miss, return_points(lb), reads_, after_start=False)
            R.check(bool(reads_) and w is None, "unmatched-keeps-reading", lb.path, "an unmatched response does not end the reader",
                    "after a response whose id is not pending the response loop can end without reading another frame: the waiters of all other calls on this "
                    "connection never get their responses", rt.get("span"), "from the lookup-miss edge every way out of the loop passes another read", path=w)
        # ---------------- notify-before-pending (WS) --------------------------------------------------
        if module == "websocket_client" and len(removes) == 1:
            ri, rt = removes[0]
            fs = facts_at(lb, ls, facts, ri)
            guarded = any(f["expr"][0] == "bin" and f["expr"][1] in ("Ne", "Eq") and render(f["expr"][2]).endswith("header.notify") and const_val(f["expr"][3]) == 0
                          and ((f["expr"][1] == "Ne" and f["val"] is False) or (f["expr"][1] == "Eq" and f["val"] is True)) for f in fs)
            R.check(guarded, "notify-before-pending", lb.path, "pending consulted only for notify == 0",
                    "a server-pushed notify that reuses an in-flight id could consume that call's waiter; guards: %s" % texts(fs), rt.get("span"),
                    "pending.remove guarded by header.notify == 0")
            nagg = [(i, j, s) for i, j, s in lb.assigns() if s["rv"].get("agg") == "adt" and s["rv"]["adt"].endswith("PendingDispatch") and s["rv"]["variant"] == "Notify"]
            R.check(len(nagg) == 1, "notify-before-pending", lb.path, "one Notify row", "found %d" % len(nagg), lb.span)
            for i, j, s in nagg:
                v = ls.rvalue(s["rv"])
                d = dict(v[3])
                ok = "notify_tx" in render(d["sender"])
                fs2 = facts_at(lb, ls, facts, i)
                on_notify = any(f["expr"][0] == "bin" and render(f["expr"][2]).endswith("header.notify") and
                                ((f["expr"][1] == "Ne" and f["val"] is True) or (f["expr"][1] == "Eq" and f["val"] is False)) for f in fs2)
                R.check(ok and on_notify, "notify-before-pending", lb.path, "notify goes to the subscriber slot",
                        "Notify row is %s under %s" % (render(v)[:200], texts(fs2)), s.get("span"), "sender = notify_tx clone, on the notify != 0 edge")

    # ---------------- own-entry-only: besides the reader (deliver-by-key) the only thing that removes a pending entry is the
    # call that registered it, and only while the entry can still be its own - the guard's Drop removes the key unless the call
    # was already served (after delivery the key is free again: a forwarded request may reuse it, and a late unconditional
    # remove would delete that other call's entry).  C06's abandon rules decide the guard protocol (shared)
    from analysis import report as _report6
    from rules import C06 as _c06
    sub6 = _report6.Report(R.prop, R.tier, R.config)
    try:
        _c06.run(facts, sub6)
    except Exception as e:
        sub6.bad("anchor-resolution", "<crate>", "shared-C06-rules", "the shared pending-guard rules could not run: %s" % e)
    keep6 = ("remove(self.request_id) unless disarmed", "one disarm", "disarm only after a response arrived")
    for inst in sub6.instances:
        if inst["rule"] == "pending-removed-on-abandon" and inst.get("what") in keep6 and inst["verdict"] == "holds":
            R.instances.append(inst)
    for v in sub6.violations:
        if (v["rule"] == "pending-removed-on-abandon" and v.get("what") in keep6) or v["rule"] == "anchor-resolution":
            R.bad("own-entry-only", v["fn"], v["what"], v["msg"] + " (a served call's late Drop would remove whatever entry now sits under its id)", v.get("site"), v.get("path"))

    every_response_is_looked_up(facts, R, "deliver-by-key")

    # derived batch functions: any other function of a client module that returns one Result per request (Vec<Result<Value, RepeError>>) is
    # a batch of its own design (pipelined, windowed, ..).  Its slot discipline cannot be read off a fixed shape, but positional alignment
    # has a structural necessary condition: nothing between the requests and the returned vector reorders, filters or races items
    listed_batches = ("client::Client::batch_json_inner", "async_client::AsyncClient::batch_json_inner", "websocket_client::WebSocketClient::batch_json_inner")
    for p_, b_ in sorted(facts.bodies.items()):
        if p_.split("::")[0] not in ("client", "async_client", "websocket_client") or "::tests::" in p_ or "{closure" in p_ and not p_.endswith("::{closure#0}"):
            continue
        base_ = p_[:-len("::{closure#0}")] if p_.endswith("::{closure#0}") else p_
        if base_ in listed_batches or p_ in listed_batches:
            continue
        rty = b_.local_ty(0)
        if not (rty.startswith("std::vec::Vec<std::result::Result<") and "RepeError" in rty) or (b_.kind != "coroutine" and p_.endswith("::{closure#0}")):
            continue
        if not any(t_["callee"]["name"].startswith(("call_", "wait_for_response", "write_request", "send_registered")) or "batch" in t_["callee"]["name"] for sb_ in [b_] + list(facts.children(p_)) for _, t_ in sb_.calls()):
            continue
        bad_ = sorted({t_["callee"]["name"] for sb_ in [b_] + list(facts.children(p_)) for _, t_ in sb_.calls()
                       if t_["callee"]["name"] in _ORDER_BREAKING or "Unordered" in t_["callee"]["path"]})
        R.check(not bad_, "index-travels", p_, "a batch of another design keeps request order",
                "%s returns one result per request but passes them through %s: slot i need not hold the answer to request i" % (p_.rsplit("::", 2)[-2 if "{closure" in p_ else -1], bad_),
                b_.span, "no reordering / filtering / racing adaptor between requests and results")

    # ---------------- index-travels (batch) ---------------------------------------------------------------
    batch_blocking(facts, R)
    for path in ("async_client::AsyncClient::batch_json_inner::{closure#0}",) + (("websocket_client::WebSocketClient::batch_json_inner::{closure#0}",) if has_ws else ()):
        batch_async(facts, R, path)


def every_response_is_looked_up(facts, R, rule):
    """Between reading a response and reading the next frame, every path consults the pending table under that response's id
    (frames known to be notifies go to the subscriber instead).  A filter in front of the lookup - a set of 'abandoned' ids, a
    cache of recently answered ids, a rate limit - silently discards the answer of whatever live call carries that id."""
    has_ws = "websocket" in facts.features
    n = 0
    for module, callfn, fwds, loopfn, inner in CLIENTS:
        if (module == "websocket_client" and not has_ws) or not facts.has_body(loopfn):
            continue
        lb = facts.body(loopfn)
        ls = Sym(lb)
        removes = [(i, t) for i, t in lb.calls() if t["callee"]["name"] == "remove" and "HashMap" in t["callee"]["path"]]
        if len(removes) != 1:
            continue        # deliver-by-key reports that
        ri, rt = removes[0]
        key = ls.op(rt["args"][1])
        if not (key[0] == "field" and key[2] == "id" and key[1][0] == "field" and key[1][2] == "header"):
            continue
        resp = key[1][1]
        need = [(x[1], str(x[2])) for x in walk(resp) if x[0] == "variant"]
        reads_ = [term_pt(lb, x) for x, y in lb.calls() if callee_matches(y["callee"], "io::read_message", "async_io::read_message_async")
                  or (y["callee"]["name"] == "next" and "Stream" in (y["callee"].get("trait") or ""))]
        region, notif = set(), []
        for x in sorted(lb.live_blocks()):
            fs = facts_at(lb, ls, facts, x)
            if all(any(f["expr"] == a and str(f["val"]) == v for f in fs) for a, v in need):
                region.add(x)
                if any(f["expr"][0] == "bin" and f["expr"][1] in ("Ne", "Eq") and render(f["expr"][2]).endswith("header.notify") and const_val(f["expr"][3]) == 0
                       and ((f["expr"][1] == "Ne" and f["val"] is True) or (f["expr"][1] == "Eq" and f["val"] is False)) for f in fs):
                    notif.append((x, 0))
        live_ = lb.live_blocks()
        entries = [(x, 0) for x in region if any(q not in region and q in live_ for q in lb.preds().get(x, []))]
        if not entries and getattr(lb, "changed", False):
            # the decoded response sits in a variable several paths assign (a helper folded two matches into one Result): start where
            # the loop first looks into the response's header instead - the notify test or the id read - wherever those reads are
            from analysis.mir import rv_operands
            hdr_reads = []
            for x in sorted(live_):
                for j, st_ in enumerate(lb.blocks[x]["stmts"]):
                    if st_["k"] != "assign":
                        continue
                    rv_ = st_["rv"]
                    pls_ = [rv_[k_] for k_ in ("ref", "discr") if k_ in rv_] + [p_ for p_ in (op_place(o_) for o_ in rv_operands(rv_)) if p_]
                    for p_ in pls_:
                        flds_ = [e_ for e_ in p_["p"] if isinstance(e_, dict) and "f" in e_]
                        if len(flds_) >= 2 and flds_[-2].get("a") == "message::Message" and flds_[-2]["f"] == "header":
                            hdr_reads.append((x, j))
            firsts = [h for h in hdr_reads if not any(o != h and lb.dominates(o[0], h[0]) and (o[0] != h[0] or o[1] < h[1]) for o in hdr_reads)]
            entries = firsts
            need = need or [("header-reads", "")]
            notif = [(x, 0) for x in sorted(live_) if any(f["expr"][0] == "bin" and f["expr"][1] in ("Ne", "Eq") and render(f["expr"][2]).endswith("header.notify") and const_val(f["expr"][3]) == 0
                     and ((f["expr"][1] == "Ne" and f["val"] is True) or (f["expr"][1] == "Eq" and f["val"] is False)) for f in facts_at(lb, ls, facts, x))]
        if not need or not entries or not reads_:
            R.bad(rule, lb.path, "every response read is looked up in the pending table",
                  "cannot locate where the response loop has a decoded response in hand (key %s)" % render(key)[:120], rt.get("span"))
            continue
        n += 1
        w = must_cross(lb, entries, reads_, [term_pt(lb, ri)], after_start=False, stop=notif)
        R.check(w is None, rule, lb.path, "every response read is looked up in the pending table",
                "the %s response loop can drop a decoded response and go on to the next frame without consulting the pending table: whatever is "
                "filtered in front of the lookup also swallows the answer of a live call that carries the same id" % module, rt.get("span"),
                "decoded response -> pending.remove(id) on every path (notifies excepted)", path=w)
    R.floor(rule, n, 2, "response loops with a decoded response in hand")


_ORDER_KEEPING = {"buffered", "join_all", "try_join_all"}
_ORDER_BREAKING = {"buffer_unordered", "for_each_concurrent", "select_all", "rev", "skip", "step_by", "filter", "skip_while", "take_while", "filter_map",
                   "flat_map", "chain", "cycle", "sort", "sort_by", "sort_by_key", "sort_unstable", "dedup", "swap", "reverse"}


def _order_preserving_pipeline(facts, e):
    """`stream::iter(requests).map(call).buffered(n).collect()` / `join_all(requests.into_iter().map(call))`: the i-th result
    is the result of the i-th request by the documented semantics of `buffered` / `join_all`.  Accepted when nothing in the
    pipeline reorders or drops items, the source is the requests parameter, and the mapping closure captures nothing a request
    could come from except its own item (self and a timeout only) and makes one call."""
    names = {x[1].rsplit("::", 1)[-1] for x in walk(e) if x[0] == "call"}
    if not (names & _ORDER_KEEPING) or names & _ORDER_BREAKING or any("Unordered" in x[1] for x in walk(e) if x[0] == "call"):
        return False
    src = [x for x in walk(e) if x[0] == "call" and x[1].rsplit("::", 1)[-1] in ("iter", "into_iter") and x[2] and render(x[2][0]).endswith("requests")]
    clos = [x for x in walk(e) if x[0] == "agg" and str(x[1]).startswith("closure:")]
    if len(src) != 1 or len(clos) != 1:
        return False
    caps = {k for k, _ in clos[0][3]}
    if not caps <= {"self", "timeout", "timeout_duration", "client", "this"}:
        return False
    cpath = clos[0][1].split(":", 1)[1]
    bodies = [facts.bodies[p_] for p_ in facts.bodies if p_ == cpath or p_.startswith(cpath + "::{")]
    calls = [t for b_ in bodies for _, t in b_.calls() if t["callee"]["name"].startswith("call_") and t["callee"]["path"].split("::")[0] in ("client", "async_client", "websocket_client")]
    return len(calls) == 1


def _in_inner_cycle(b, send_bb, read_bb):
    """can the send run again without passing the map removal (i.e. without a new response)?"""
    return send_bb in b.reachable(b.succs(send_bb), avoid=[read_bb])


def _queue_mapper(facts, path):
    """the closure that turns an enumerate() item into a queue item: a three-slot record (tuple or struct literal)"""
    mapper = None
    for c in facts.children(path):
        v = Sym(c).local(0)
        if v[0] == "agg" and len(v[3]) == 3 and (v[1] == "tuple" or (v[1] in facts.adts and facts.adts[v[1]].get("kind") == "struct" and getattr(c, "changed", False))):
            mapper = (c, v)
    return mapper


def _queue_item_slots(facts, path):
    """(index slot, path slot, body slot) of the queue item, read off the mapper: the slot fed by the enumerate index (`.0` of the
    closure's argument), by the request's path (`.1.0`) and by its body (`.1.1`); None if the mapper does not build exactly that"""
    m = _queue_mapper(facts, path)
    if m is None:
        return None
    got = {}
    for n, x in m[1][3]:
        r = render(x)
        for k, suf in (("i", ".0"), ("p", ".1.0"), ("b", ".1.1")):
            if r.endswith(suf) and not (k == "i" and r.endswith(".1.0")):
                got.setdefault(k, []).append(n)
    if all(len(got.get(k, [])) == 1 for k in "ipb") and len({got["i"][0], got["p"][0], got["b"][0]}) == 3:
        if m[1][1] == "tuple" and (got["i"][0], got["p"][0], got["b"][0]) != ("0", "1", "2") and not getattr(m[0], "changed", False):
            return None
        return (got["i"][0], got["p"][0], got["b"][0])
    return None


def batch_blocking(facts, R):
    path = "client::Client::batch_json_inner"
    b = facts.body(path)
    # worker closure: the one that calls call_json_with_optional_timeout
    worker = None
    for c in facts.children(path):
        if any(t["callee"]["name"] == "call_json_with_optional_timeout" for _, t in c.calls()):
            worker = c
    if worker is None:
        R.bad("index-travels", path, "worker", "batch worker closure not found", b.span)
        return
    ws = Sym(worker)
    calls = [(i, t) for i, t in worker.calls() if t["callee"]["name"] == "call_json_with_optional_timeout"]
    stores = [(i, t) for i, t in worker.calls() if t["callee"]["name"] == "index_mut"]
    R.check(len(calls) == 1 and len(stores) == 1, "index-travels", worker.path, "one call, one slot store", "calls=%d stores=%d" % (len(calls), len(stores)), worker.span)
    if len(calls) == 1 and len(stores) == 1:
        ci, ct = calls[0]
        si, st = stores[0]
        p_e, b_e = ws.op(ct["args"][1]), ws.op(ct["args"][2])
        idx = ws.op(st["args"][1])

        def base_of(e, fld):
            return e[1] if e[0] == "field" and e[2] == fld else None
        slot_names = _queue_item_slots(facts, path) or ("0", "1", "2")
        same = base_of(idx, slot_names[0]) is not None and base_of(idx, slot_names[0]) == base_of(p_e, slot_names[1]) == base_of(b_e, slot_names[2])
        R.check(same, "index-travels", worker.path, "index, path and body come from one queue item",
                "slot index %s vs request (%s, %s)" % (render(idx), render(p_e), render(b_e)), st.get("span"), "out[item.0] = call(item.1, item.2)")
        # the stored value is the call's result
        dest = st["dest"]["l"]
        wr = [(i, j, s) for i, j, s in worker.assigns() if s["place"]["l"] == dest and s["place"]["p"]]
        okv = False
        for i, j, s in wr:
            v = ws.rvalue(s["rv"])
            if v[0] == "agg" and v[2] == "Some" and any(x[0] == "call" and x[3] == ci for x in walk(v)):
                okv = True
        R.check(okv, "index-travels", worker.path, "slot receives that call's result", "the value stored in out[index] is not Some(result of the call)", st.get("span"))
    # the queue pairs each request with its enumerate() index
    mapper = _queue_mapper(facts, path)
    if mapper is None:
        R.bad("index-travels", path, "queue-mapper", "closure building (index, path, body) not found", b.span)
    else:
        c, v = mapper
        ok = _queue_item_slots(facts, path) is not None
        R.check(ok, "index-travels", c.path, "(index, (path, body)) -> (index, path, body)", "mapper builds %s" % render(v), c.span, render(v))
    bs = Sym(b)
    # ... and what the batch returns, on every path, is the vector the workers store into by index (or nothing, for no requests)
    from rules.common import value_rows
    r_out = None
    if len(stores) == 1:
        o_ = ws.op(stores[0][1]["args"][0])
        if o_[0] == "local":
            o_ = ws.local(o_[1])
        caps = [x for x in walk(o_) if x[0] == "field" and x[1][0] == "arg" and x[1][1] == 1]
        if not caps:
            # the slot vector reached through a lock guard bound by a match (`match results.lock() { Ok(g) => g, Err(p) => p.into_inner() }`)
            seen_ = set()
            work_ = [stores[0][1]["args"][0]]
            while work_ and len(seen_) < 40:
                for o in trace_op(worker, work_.pop()):
                    if o.ident() in seen_:
                        continue
                    seen_.add(o.ident())
                    if o.kind == "call":
                        for a_ in o.info["args"][:1]:
                            caps += [x for x in walk(ws.op(a_)) if x[0] == "field" and x[1][0] == "arg" and x[1][1] == 1]
                            work_.append(a_)
                    elif o.kind == "arg" and o.key == 1 and o.path:
                        caps.append(("field", ("arg", 1, None), o.path[0]))
        capname = caps[0][2] if caps else None
        for i, j, st_ in b.assigns():
            rv_ = st_["rv"]
            if rv_.get("agg") == "closure" and capname is not None:
                cv = bs.rvalue(rv_)
                d_ = dict(cv[3]) if cv[0] == "agg" else {}
                if capname in d_ and str(cv[1]).endswith(worker.path.rsplit("::", 1)[-1]):
                    e_ = d_[capname]
                    while e_[0] == "call" and len(e_[2]) == 1 and e_[1].rsplit("::", 1)[-1] in ("clone", "deref", "as_ref", "borrow"):
                        e_ = e_[2][0]
                    r_out = render(e_)
    rows_ = value_rows(b, bs, facts, 0, fmt=render)
    for g_, v_ in rows_:
        vv = v_ if isinstance(v_, str) else render(v_)
        empty = vv.startswith(("Vec::new(", "vec::Vec::new("))
        R.check(empty or (r_out is not None and r_out in vv), "index-travels", path, "the batch returns the vector filled by index",
                "a batch result is produced as %s, which is not the vector (%s) whose slots the workers store by request index" % (vv[:200], (r_out or "?")[:80]), b.span, "out")
    R.floor("index-travels", len(rows_), 1, "result rows of " + path)
    chain = [t["callee"]["name"] for i, t in b.calls() if t["callee"].get("trait") == "std::iter::Iterator"]
    R.check("enumerate" in chain and not any(n in chain for n in ("rev", "skip", "step_by", "zip", "filter")), "index-travels", path, "queue = requests.enumerate()",
            "iterator chain is %s" % chain, b.span, "chain: %s" % chain)


ORDER_KEEPING = ("push", "len", "with_capacity", "into_iter", "capacity", "is_empty", "reserve", "iter")


def _batch_async_ordered(facts, R, path, b, s, pushes):
    """No index at all: handles are pushed while iterating `requests` in order, awaited while iterating the handle vector
    in order, and each outcome is pushed onto the output vector, which is returned.  Position i of the output then belongs
    to request i because a by-value Vec iteration yields elements in index order (stated assumption), provided every
    iteration pushes exactly once and nothing else reorders either vector."""
    from analysis.flow import must_cross
    (p1, t1), (p2, t2) = pushes
    workers, out = s.op(t1["args"][0]), s.op(t2["args"][0])
    item1 = s.op(t1["args"][1])
    spawned = [x for x in walk(item1) if x[0] == "agg" and x[1].startswith("coroutine:")]
    caps = dict(spawned[0][3]) if spawned else {}

    def it_item(e):
        # (next(into_iter(V)) as Some).0[.k] -> (V, remaining projection)
        proj = []
        while e[0] == "field":
            proj.append(e[2])
            e = e[1]
        if e[0] == "variant" and e[2] == "Some" and is_call(e[1], "next") and is_call(e[1][2][0], "into_iter") and "Vec" in e[1][2][0][1]:
            return e[1][2][0][2][0], list(reversed(proj)), e[1]
        return None, None, None
    v1, pr1, n1 = it_item(caps.get("path", ("?",)))
    v1b, pr1b, n1b = it_item(caps.get("body", ("?",)))
    ok1 = bool(spawned) and v1 is not None and v1 == v1b and n1 == n1b and render(v1).endswith("requests") and pr1 == ["0", "0"] and pr1b == ["0", "1"] \
        and is_call(item1, "spawn")
    R.check(ok1, "index-travels", path, "handle i is spawned for request i", "workers.push(%s)" % render(item1)[:240], t1.get("span"), "for (path, body) in requests { workers.push(spawn(call(path, body))) }")
    if spawned:
        wb = facts.body(spawned[0][1].split(":", 1)[1])
        wc = [(i, t) for i, t in wb.calls() if t["callee"]["name"] == "call_json_with_optional_timeout"]
        R.check(len(wc) == 1, "index-travels", wb.path, "worker makes one call", "worker makes %d calls" % len(wc), wb.span)
        for i, t in wc:
            sw = Sym(wb)
            a1, a2 = render(sw.op(t["args"][1])), render(sw.op(t["args"][2]))
            R.check(a1.endswith(".path") and a2.endswith(".body"), "index-travels", wb.path, "worker calls with its own (path, body)", "call(%s, %s)" % (a1, a2), t.get("span"))
    # second loop: awaits the element of a by-value iteration over the handle vector, pushes the outcome
    polls = [(i, t) for i, t in b.calls() if t["callee"]["name"] == "poll" and "JoinHandle" in t["callee"]["path"]]
    ok2 = len(polls) == 1
    n2 = None
    if ok2:
        v2, pr2, n2 = it_item(s.op(polls[0][1]["args"][0]))
        ok2 = v2 is not None and v2 == workers and pr2 == ["0"]
    val = s.op(t2["args"][1])
    R.check(ok2, "index-travels", path, "outcome i is awaited from handle i", "awaited: %s" % (render(s.op(polls[0][1]["args"][0]))[:160] if polls else None), t2.get("span"),
            "for worker in workers { out.push(worker.await) }")
    # the pushed value is this iteration's outcome (all definitions of it derive from this poll)
    okv = True
    if val[0] == "local":
        for d in b.defs_of(val[1]):
            if d[0] == "assign":
                okv = okv and polls and any(x[0] == "call" and x[1].endswith("::poll") and len(x) > 3 and x[3] == polls[0][0] for x in walk(s.rvalue(d[3])))
            else:
                okv = False
    else:
        okv = bool(polls) and any(x[0] == "call" and x[1].endswith("::poll") and len(x) > 3 and x[3] == polls[0][0] for x in walk(val))
    R.check(okv, "index-travels", path, "pushes this handle's outcome", "out.push(%s)" % render(val)[:160], t2.get("span"))
    # exactly one push per iteration, in both loops
    for (pi, pt), nx in (((p1, t1), n1), ((p2, t2), n2)):
        if nx is None:
            continue
        N = nx[3]
        some_t = None
        for y in sorted(b.live_blocks()):
            t = b.term(y)
            if t["k"] == "switch":
                e = s.op(t["on"])
                if e[0] == "discr" and e[1] == nx:
                    vm = _variants_of(b, facts, t, y)
                    listed = {vm.get(v, str(v)): tb for v, tb in t["targets"]} if vm else {}
                    some_t = listed.get("Some", t.get("otherwise"))
        w = must_cross(b, [(some_t, 0)], [term_pt(b, N)] + list(return_points(b)), [term_pt(b, pi)], after_start=False) if some_t is not None else [N]
        once = pi not in b.reachable(b.succs(pi), avoid=[N])
        R.check(w is None and once, "index-travels", path, "exactly one push per element", "an iteration can finish without pushing, or push twice: positions shift (path %s)" % w, pt.get("span"), path=w)
    # nothing else touches the two vectors, no reordering adapters, and `out` is what is returned
    other = []
    for i, t in b.calls():
        if t["args"] and t["callee"]["name"] not in ORDER_KEEPING and ("Vec" in t["callee"]["path"] or "slice" in t["callee"]["path"]):
            a0 = s.op(t["args"][0])
            if a0 in (workers, out):
                other.append(t["callee"]["name"])
    chain = [t["callee"]["name"] for i, t in b.calls() if t["callee"].get("trait") == "std::iter::Iterator"]
    R.check(not other and set(chain) <= {"next"}, "index-travels", path, "order-keeping operations only", "other operations on the handle/output vectors: %s; iterator adapters: %s" % (other, chain), b.span,
            "push / into_iter / next only")
    rv = s.local(0)
    R.check(rv == out or (rv[0] == "variant" and False) or render(rv).endswith(render(out)), "index-travels", path, "returns the output vector", "returns %s" % render(rv)[:160], b.span)


def _variants_of(b, facts, t, y):
    from analysis.guards import _variants_for_discr
    return _variants_for_discr(b, facts, t, y)


def batch_async(facts, R, path):
    b = facts.body(path)
    s = Sym(b)
    pushes = [(i, t) for i, t in b.calls() if t["callee"]["name"] == "push" and "Vec" in t["callee"]["path"]]
    stores = [(i, t) for i, t in b.calls() if t["callee"]["name"] == "index_mut"]
    # the (index, handle) items are built by one workers.push(..) in a loop, or by the closure of a .map(..).collect()
    mapped = []
    if not pushes:
        for c in facts.children(path):
            v = Sym(c).local(0)
            if v[0] == "agg" and v[1] == "tuple" and len(v[3]) == 2 and any(x[0] == "agg" and x[1].startswith("coroutine:") for x in walk(v)):
                mapped.append((c, v))
    if len(pushes) == 2 and not stores and not mapped:
        return _batch_async_ordered(facts, R, path, b, s, pushes)
    R.check(len(pushes) + len(mapped) == 1 and len(stores) == 1, "index-travels", path, "one push, one slot store",
            "pushes=%d mapped=%d stores=%d" % (len(pushes), len(mapped), len(stores)), b.span)
    if len(pushes) + len(mapped) != 1 or len(stores) != 1:
        return
    if pushes:
        pi, pt = pushes[0]
        item = s.op(pt["args"][1])
    else:
        pt = {"span": mapped[0][0].span}
        item = mapped[0][1]
    ok = item[0] == "agg" and item[1] == "tuple" and len(item[3]) == 2
    if ok:
        idx, handle = item[3][0][1], item[3][1][1]
        base = idx[1] if idx[0] == "field" and idx[2] == "0" else None
        spawned = [x for x in walk(handle) if x[0] == "agg" and x[1].startswith("coroutine:")]
        caps = dict(spawned[0][3]) if spawned else {}
        okp = base is not None and caps.get("path") == ("field", ("field", base, "1"), "0") and caps.get("body") == ("field", ("field", base, "1"), "1")
        R.check(okp, "index-travels", path, "index and request enumerated together",
                "workers.push(%s)" % render(item)[:260], pt.get("span"), "push((item.0, spawn(call(item.1.0, item.1.1))))")
        if spawned:
            wb = facts.body(spawned[0][1].split(":", 1)[1])
            wc = [(i, t) for i, t in wb.calls() if t["callee"]["name"] == "call_json_with_optional_timeout"]
            R.check(len(wc) == 1, "index-travels", wb.path, "worker makes one call", "worker makes %d calls" % len(wc), wb.span)
            for i, t in wc:
                sw = Sym(wb)
                a1, a2 = render(sw.op(t["args"][1])), render(sw.op(t["args"][2]))
                R.check(a1.endswith(".path") and a2.endswith(".body"), "index-travels", wb.path, "worker calls with its own (path, body)", "call(%s, %s)" % (a1, a2), t.get("span"))
    else:
        R.bad("index-travels", path, "push-shape", "workers.push(%s) is not (index, handle)" % render(item)[:200], pt.get("span"))
    si, st = stores[0]
    idx2 = s.op(st["args"][1])
    base2 = idx2[1] if idx2[0] == "field" and idx2[2] == "0" else None
    dest = st["dest"]["l"]
    okv = False
    for i, j, ss in b.assigns():
        if ss["place"]["l"] == dest and ss["place"]["p"]:
            v = s.rvalue(ss["rv"])
            # Some(result) where result derives from awaiting item.1
            if v[0] == "agg" and v[2] == "Some":
                okv = True
    # the awaited handle is item.1 of the same item
    awaited_same = False
    for i, t in b.calls():
        if t["callee"]["name"] in ("poll", "into_future") and base2 is not None:
            if any(x == ("field", base2, "1") for x in walk(s.op(t["args"][0]))):
                awaited_same = True
    R.check(base2 is not None and okv and awaited_same, "index-travels", path, "out[item.0] = await item.1",
            "second loop stores at %s; awaited handle from the same item: %s" % (render(idx2), awaited_same), st.get("span"), "index and handle come from one workers item")
    # ... and what the batch returns, on every path, is that vector: a second route to the result (a windowed / streaming
    # variant for large batches, a fast path for small ones) has to place results by index too, or slot i holds whichever
    # response arrived i-th
    from rules.common import value_rows
    outv = s.op(st["args"][0])
    while outv[0] == "call" and len(outv[2]) == 1 and outv[1].rsplit("::", 1)[-1] in ("deref", "deref_mut", "as_mut", "borrow_mut", "as_mut_slice"):
        outv = outv[2][0]
    r_out = render(outv)
    exprs_ = {}

    def _fmt(z):
        exprs_[render(z)] = z
        return render(z)
    rows_ = value_rows(b, s, facts, 0, fmt=_fmt)
    for g_, v_ in rows_:
        vv = v_ if isinstance(v_, str) else render(v_)
        empty = vv.startswith(("Vec::new(", "vec::Vec::new(")) or vv == "Vec::new()"
        if not (r_out in vv or empty) and vv in exprs_ and _order_preserving_pipeline(facts, exprs_[vv]):
            R.ok("index-travels", path, "the batch returns the vector filled by index", b.span, "order-preserving pipeline over the requests: " + vv[:120])
            continue
        R.check(r_out in vv or empty, "index-travels", path, "the batch returns the vector filled by index",
                "a batch result is produced as %s, which is not the vector whose slots are stored by request index: results come back in whatever "
                "order that route yields them" % vv[:200], b.span, "out")
    R.floor("index-travels", len(rows_), 1, "result rows of " + path)
    chain = [t["callee"]["name"] for i, t in b.calls() if t["callee"].get("trait") == "std::iter::Iterator"]
    R.check("enumerate" in chain and not any(n in chain for n in ("rev", "skip", "step_by", "zip", "filter", "skip_while", "take_while", "filter_map", "flat_map", "chain", "cycle")),
            "index-travels", path, "requests.enumerate()",
            "iterator chain is %s" % chain, b.span, "chain: %s" % chain)
