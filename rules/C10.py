"""C10 - a failed or interrupted pull never publishes a file, and never a partial one (src/value_stream.rs)."""
from analysis.flow import must_cross, return_points, term_pt, trace_op
from analysis.guards import facts_at, field_writes, struct_constructions
from analysis.mir import callee_matches, op_place
from analysis.sym import Sym, render, is_call, const_val, walk
from rules.common import has_cmp, option_fact, texts, blocks_assigning_variant, disjunct_facts, ok_fact, blocks_between, ok_exits

REQUIRES = ("value-stream",)
VS = "value_stream::"
TF = "value_stream::TempFile"

EXPLANATION = (
    "Decided structurally: (who-may-publish) in value_stream.rs fs::rename is called only by TempFile::commit, files are "
    "created only by TempFile::create, every TempFile::create path is temp_sibling(p) and the matching commit renames onto "
    "that same p; no other file-writing API is used. (commit-order) every closure that fills a temp file returns Ok only on "
    "the Ok edges of flush and then sync_all on that file with no write in between (and, for write_file, only after the final "
    "chunk was seen); every commit is data- and control-dependent on the Ok result of the pull that ran such a closure, and, "
    "where a verifier parameter exists, on the Ok edge of verify(..); run_pull returns the consumer's value only on the Ok "
    "edge of the pull result. (tempfile-raii) TempFile's Drop removes the file while the handle is open, commit's Err arm "
    "removes it, and no TempFile is leaked through forget/ManuallyDrop/Box::leak. (trailer-hold-gate) into_trailer returns Ok "
    "only under hold.len() >= trailer_len. (one-terminal, producer-errors-surface, pull-decision-table, last-flag-table, eof-only-after-last: shared with C09) the stream carries `last` only when the producer finished, so the commit on last_seen cannot be reached by a failed or panicked producer. Not decided: kill-at-every-step fault injection as such (its static content is the "
    "order: nothing reaches the destination name before sync_all and rename is the last filesystem effect; rename(2) "
    "atomicity is an OS assumption) and TrailerHold's exact withholding arithmetic."
)
ASSUMPTIONS = ["rename(2) is atomic", "File::sync_all makes written data durable", "io::copy reads to EOF; ChunkReader/ChannelReader EOF only after the final chunk (C09)"]

WRITE_CALLS = ("std::io::copy", "std::io::Write::write_all", "std::io::Write::write", "std::io::Write::write_fmt", "std::io::Write::write_vectored")
FS_WRITERS = ("std::fs::write", "std::fs::copy", "std::fs::hard_link", "std::fs::File::create_new", "std::fs::OpenOptions::open",
              "std::fs::File::options", "std::os::unix::fs::symlink", "std::fs::soft_link")


def _is_filemut(e):
    return is_call(e, TF + "::file_mut")


def synced_summary(facts, R, C, need_last_seen=False, exits=None):
    """S(C): every Ok exit of C is on the Ok edges of flush then sync_all (same file), no write in between.
    `exits`: judge these points instead (the commit site itself, when the filling steps are written out in the committing function)."""
    sym = Sym(C)
    exits = ok_exits(C) if exits is None else exits
    ok_all = bool(exits)
    if not exits:
        R.bad("commit-order", C.path, "no-Ok-exit", "filling closure has no recognisable Ok exit", C.span)
    syncs = [(i, t) for i, t in C.calls() if callee_matches(t["callee"], "std::fs::File::sync_all", "std::fs::File::sync_data")]
    flushes = [(i, t) for i, t in C.calls() if t["callee"]["name"] == "flush" and _is_filemut(sym.op(t["args"][0]))]
    for i, j, s in exits:
        fs = facts_at(C, sym, facts, i)
        sync_ok = ok_fact(fs, lambda e: is_call(e, "sync_all") and _is_filemut(e[2][0]))
        flush_ok = ok_fact(fs, lambda e: is_call(e, "flush") and _is_filemut(e[2][0]))
        order = any(C.dominates(fb, sb) for fb, _ in flushes for sb, _ in syncs if any(C.dominates(sb, i) for _ in [0]))
        dirty = None
        for sb, st in syncs:
            if C.dominates(sb, i):
                for x in blocks_between(C, st["target"], i):
                    t = C.term(x)
                    if t["k"] == "call" and callee_matches(t["callee"], *WRITE_CALLS):
                        dirty = t
        good = sync_ok and flush_ok and order and dirty is None
        ok_all = ok_all and good
        R.check(good, "commit-order", C.path, "Ok-exit-after-flush+sync",
                "a filled temp file is handed out (Ok) without {flush Ok: %s, sync_all Ok: %s, flush before sync: %s, no write after sync: %s}; guards: %s"
                % (flush_ok, sync_ok, order, dirty is None, texts(fs)), s.get("span"), "Ok only after flush()? then sync_all()?")
        if need_last_seen:
            seen = any(f["val"] is True and f["expr"][0] == "field" and f["expr"][2] == "last_seen" for f in fs)
            ok_all = ok_all and seen
            R.check(seen, "commit-order", C.path, "Ok-exit-after-last-chunk",
                    "write_file's fill closure can return Ok without having seen the final chunk; guards: %s" % texts(fs), s.get("span"),
                    "Ok only with reader.last_seen")
    return ok_all


def _handle_field(facts):
    """(field, open variant, closed variant) of TempFile's handle: `file: Option<File>` on the reference tree (Some / None), or a
    private two-variant enum with one File-carrying variant (`handle: TempHandle::{Open(File), Closed}`)"""
    for f_ in facts.adts[TF]["variants"][0]["fields"]:
        ty = f_.get("ty") or ""
        if "std::fs::File" in ty and ty.startswith("std::option::Option<"):
            return f_["name"], "Some", "None"
        ea = facts.adts.get(ty)
        if ea is not None and ea.get("kind") == "enum" and len(ea.get("variants") or []) == 2:
            opens = [v_["name"] for v_ in ea["variants"] if any("std::fs::File" in (x_.get("ty") or "") for x_ in v_.get("fields", []))]
            closed = [v_["name"] for v_ in ea["variants"] if not v_.get("fields")]
            if len(opens) == 1 and len(closed) == 1:
                return f_["name"], opens[0], closed[0]
    return "file", "Some", "None"


def run(facts, R):
    vs_bodies = [b for b in facts.bodies.values() if b.path.startswith(VS)]
    HF, H_OPEN, H_CLOSED = _handle_field(facts)

    # ---------------- who-may-publish (A4) -----------------------------------------------------------
    n_rename = n_create = 0
    for b in vs_bodies:
        for i, t in b.calls():
            c = t["callee"]
            if callee_matches(c, "std::fs::rename"):
                n_rename += 1
                R.check(b.path == TF + "::commit", "who-may-publish", b.path, "fs::rename",
                        "fs::rename outside TempFile::commit can publish an unfinished file", t.get("span"), "only in TempFile::commit")
            elif callee_matches(c, "std::fs::File::create"):
                n_create += 1
                R.check(b.path == TF + "::create", "who-may-publish", b.path, "File::create",
                        "a file is created outside TempFile::create (could be the destination itself)", t.get("span"), "only in TempFile::create")
            elif callee_matches(c, *FS_WRITERS):
                R.bad("who-may-publish", b.path, c["path"].rsplit("::", 1)[-1], "file-writing API `%s` bypasses the temp-file protocol" % c["path"], t.get("span"))
    R.exact("who-may-publish", n_rename, 1, "fs::rename sites")
    R.exact("who-may-publish", n_create, 1, "File::create sites")

    creates = facts.calls_to(TF + "::create")
    commits = facts.calls_to(TF + "::commit")
    R.floor("who-may-publish", len(creates), 5, "TempFile::create sites")
    R.floor("who-may-publish", len(commits), 5, "TempFile::commit sites")

    # commit renames self.path -> final_path ; create opens `path` and stores it
    cm = facts.body(TF + "::commit")
    csym = Sym(cm)
    for i, t in cm.calls():
        if callee_matches(t["callee"], "std::fs::rename"):
            a0, a1 = csym.op(t["args"][0]), csym.op(t["args"][1])
            ok = a0[0] == "field" and a0[2] == "path" and a1[0] == "arg" and a1[1] == 2
            R.check(ok, "who-may-publish", cm.path, "rename(self.path, final_path)", "commit renames %s -> %s" % (render(a0), render(a1)), t.get("span"),
                    "rename(self.path, final_path)")
    def _strip_conv(e):
        """path conversions that keep the path: into(), to_path_buf(), to_owned(), clone(), as_ref(), PathBuf::from"""
        for _ in range(6):
            if e[0] == "call" and e[1].rsplit("::", 1)[-1] in ("into", "to_path_buf", "to_owned", "clone", "as_ref", "from", "as_path", "borrow", "deref") and len(e[2]) == 1:
                e = e[2][0]
            else:
                break
        return e
    cr = facts.body(TF + "::create")
    crs = Sym(cr)
    for i, t in cr.calls():
        if callee_matches(t["callee"], "std::fs::File::create"):
            a0 = crs.op(t["args"][0])
            a0 = _strip_conv(a0)
            R.check(a0[0] == "arg" and a0[1] == 1, "who-may-publish", cr.path, "create(path)", "TempFile::create opens %s" % render(a0), t.get("span"))
    aggs = [(i, j, s) for i, j, s in cr.assigns() if s["rv"].get("agg") == "adt" and s["rv"]["adt"] == TF]
    for i, j, s in aggs:
        v = crs.rvalue(s["rv"])
        d = dict(v[3])
        okp = _strip_conv(d["path"])[0] == "arg" and _strip_conv(d["path"])[1] == 1
        R.check(okp, "who-may-publish", cr.path, "guard.path = path", "TempFile remembers %s as its path" % render(d["path"]), s.get("span"))

    # ---------------- cleanup-flag: TempFile.file is the open handle *and* the "not published yet - unlink me on drop" flag.
    # Only commit() (which renames first... see who-may-publish) and Drop itself may empty it; anything else that sets it to None
    # (an early `close()`) turns a later failure into a stray temp file
    fw_allowed = {TF + "::commit": "publishes, then there is nothing to clean", "<%s as std::ops::Drop>::drop" % TF: "the cleanup itself",
                  TF + "::file_mut": "hands out the handle for writing", TF + "::create": "constructor"}
    n_fw = 0
    for w in field_writes(facts, TF, HF):
        n_fw += 1
        owner = w["body"].path
        R.check(owner in fw_allowed, "who-may-publish", owner, "only commit and Drop empty the temp-file guard",
                "%s writes TempFile.file (%s): once the handle is gone Drop no longer unlinks the temp file, so a pull that fails afterwards leaves it behind"
                % (owner.rsplit("::", 2)[-1] if "{closure" not in owner else owner, w["kind"]), w.get("span"), "TempFile.file written only by commit / Drop")
    R.floor("who-may-publish", n_fw, 3, "writers of TempFile.file")

    # ---------------- temp-name-injective: two pulls to different destinations must never spool into the same temp file (the
    # second create truncates the first pull's data, and the first pull's remaining chunks land in what the second has already
    # published).  temp_sibling(p) is p's *whole* file name plus a suffix, in p's directory: built from Path::file_name, never
    # from a lossy component (with_extension / file_stem drop or replace the extension: `snap.bin` and `snap.meta` would collide)
    ts_b = facts.body(VS + "temp_sibling")
    ts_s = Sym(ts_b)
    names_ = [t["callee"]["name"] for _, t in ts_b.calls()] + [t["callee"]["name"] for c_ in facts.children(ts_b.path) for _, t in c_.calls()]
    lossy = [n_ for n_ in names_ if n_ in ("with_extension", "set_extension", "file_stem", "file_prefix", "extension", "with_added_extension", "add_extension", "trim_end_matches", "strip_suffix", "split", "rsplit", "truncate")]
    whole = any(t["callee"]["name"] == "file_name" and ts_s.op(t["args"][0])[0] == "arg" for _, t in ts_b.calls())
    placed = [t for _, t in ts_b.calls() if t["callee"]["name"] in ("with_file_name", "set_file_name", "join", "push") and "Path" in t["callee"]["path"]]
    samedir = bool(placed) and all(("final_path" in render(ts_s.op(t["args"][0])) or "parent(" in render(ts_s.op(t["args"][0]))) for t in placed)
    R.check(not lossy and whole and samedir, "who-may-publish", ts_b.path, "temp name = whole destination file name + suffix, same directory",
            "temp_sibling derives the temp path through %s (whole file name used: %s, placed next to the destination: %s): distinct destinations can share one temp file"
            % (lossy or names_, whole, samedir), ts_b.span, "file_name() + suffix, with_file_name")

    # ---------------- commit-order + provenance for each commit site ----------------------------------
    summaries = {}
    # a guard may travel from the pull to its commit inside a small handle struct (`StagedFile { guard, final_path, .. }`, committed by
    # `publish(self)`): the commit is then judged where the handle is built - that is where the pull's result is at hand
    work = []
    for b, i, t in commits:
        sym = Sym(b)
        g = sym.op(t["args"][0])
        dest = sym.op(t["args"][1])
        if g[0] == "field" and g[1][0] == "arg" and dest[0] == "field" and dest[1] == g[1]:
            hty = b.local_ty(g[1][1]).replace("&mut ", "").lstrip("&").split("<")[0]
            cons_ = [c_ for c_ in struct_constructions(facts, hty)] if hty in facts.adts and hty.startswith("value_stream::") else []
            if cons_:
                for cb, ci, cj, cst in cons_:
                    cs_ = Sym(cb)
                    ops_ = dict(zip(cst["rv"]["fields"], cst["rv"]["ops"]))
                    if g[2] in ops_ and dest[2] in ops_:
                        work.append((cb, ci, {"args": [ops_[g[2]], ops_[dest[2]]], "span": cst.get("span"), "callee": t["callee"]}, cs_.op(ops_[g[2]]), cs_.op(ops_[dest[2]])))
                R.note("commit of a guard carried in %s judged at the %d construction(s) of the handle" % (hty, len(cons_)))
                continue
        work.append((b, i, t, g, dest))
    for b, i, t, g, dest in work:
        sym = Sym(b)
        fs = facts_at(b, sym, facts, i)
        src = None
        for x in walk(g):
            if is_call(x, VS + "pull_consume", VS + "pull_consume_async", TF + "::create"):
                src = x
                break
        if src is None:
            R.bad("commit-order", b.path, "commit-provenance", "commit() of a guard whose origin is not a pull result: %s" % render(g)[:200], t.get("span"))
            continue
        if is_call(src, TF + "::create"):
            # write_file shape
            tp = src[2][0]
            same = is_call(tp, VS + "temp_sibling") and tp[2][0] == dest
            R.check(same, "who-may-publish", b.path, "temp is sibling of destination",
                    "temp file %s is not temp_sibling(%s)" % (render(tp), render(dest)), t.get("span"), "create(temp_sibling(p)) ... commit(p)")
            filler = None
            for f in fs:
                e = f["expr"]
                if f["val"] == "Ok" and e[0] == "call" and e[1].startswith(b.path + "::{closure"):
                    filler = e[1]
            if filler is None and getattr(b, "changed", False):
                # the filling steps are written out in write_file itself (Result combinators instead of a closure): the commit
                # site carries the closure's obligations - fill(..) returned Ok, the final chunk was seen, flush then sync_all Ok
                fill_ok = ok_fact(fs, lambda e: e[0] == "call" and e[1].rsplit("::", 1)[-1] in ("call_once", "call", "call_mut") and render(e[2][0]).endswith("fill"))
                R.check(fill_ok, "commit-order", b.path, "commit-on-Ok-of-fill",
                        "commit is not guarded by the Ok result of fill(..); guards: %s" % texts(fs), t.get("span"), "guarded by fill(..) == Ok")
                summaries[b.path + "#inline-fill"] = synced_summary(facts, R, b, need_last_seen=True, exits=[(i, 0, t)])
                continue
            R.check(filler is not None, "commit-order", b.path, "commit-on-Ok-of-fill",
                    "commit is not guarded by the Ok result of the fill closure; guards: %s" % texts(fs), t.get("span"), "guarded by %s == Ok" % filler)
            if filler:
                C = facts.body(filler)
                summaries[filler] = synced_summary(facts, R, C, need_last_seen=True)
        else:
            clos = [a for a in src[2] if a[0] == "agg" and a[1].startswith("closure:")]
            if len(clos) != 1:
                R.bad("commit-order", b.path, "consume-closure", "cannot identify the consume closure of %s" % render(src)[:200], t.get("span"))
                continue
            cdef = clos[0][1][len("closure:"):]
            caps = dict(clos[0][3])
            tp = caps.get("tmp_path")

            def _dirmate(x_, d_):
                # x_ is d_ itself, or d_'s directory with another file name (`d.with_file_name(..)`): a sibling either way
                def _own(e_):
                    while e_[0] == "call" and len(e_[2]) == 1 and e_[1].rsplit("::", 1)[-1] in ("to_path_buf", "as_ref", "deref", "clone", "to_owned", "as_path", "borrow", "from", "into"):
                        e_ = e_[2][0]
                    return e_
                if _own(x_) == _own(d_):
                    return True
                x2 = _own(x_)
                return is_call(x2, "with_file_name") and len(x2[2]) == 2 and _own(x2[2][0]) == _own(d_)
            same = tp is not None and is_call(tp, VS + "temp_sibling") and (tp[2][0] == dest or (getattr(b, "changed", True) and _dirmate(tp[2][0], dest)))
            R.check(same, "who-may-publish", b.path, "temp is sibling of destination",
                    "consume closure writes to %s but commit publishes onto %s" % (render(tp) if tp else None, render(dest)), t.get("span"),
                    "create(temp_sibling(p)) ... commit(p)")
            C = facts.body(cdef)
            # the closure creates its temp file from the captured tmp_path
            cs = Sym(C)
            cc = [(ci, ct) for ci, ct in C.calls() if callee_matches(ct["callee"], TF + "::create")]
            okc = len(cc) == 1 and cs.op(cc[0][1]["args"][0])[0] == "field" and cs.op(cc[0][1]["args"][0])[2] == "tmp_path"
            R.check(okc, "who-may-publish", C.path, "create(captured tmp_path)", "consume closure does not create exactly the captured temp path", C.span)
            # the Ok tuple carries that guard
            for ei, ej, es in ok_exits(C):
              from analysis.sym import split_rows as _sr
              for _, v in ((_sr(cs, ei, ej, es["rv"]) if getattr(C, "changed", False) else None) or [({}, cs.rvalue(es["rv"]))]):
                  payload = dict(v[3])["0"]
                  # the payload is a tuple or a small struct; exactly one of its fields is the guard made by TempFile::create here,
                  # and that is the field the caller commits
                  def _is_guard(x):
                      for _ in range(4):
                          if x[0] == "field" and x[2] == "0" and x[1][0] == "variant" and x[1][2] in ("Continue", "Ok") :
                              x = x[1][1]
                              if is_call(x, "branch") and x[2]:
                                  x = x[2][0]
                          else:
                              break
                      return is_call(x, TF + "::create")
                  gfields = [k for k, x in payload[3] if _is_guard(x)] if payload[0] == "agg" else []
                  okg = len(gfields) == 1 and g[0] == "field" and g[2] == gfields[0]
                  R.check(okg, "commit-order", C.path, "Ok carries the guard it filled", "Ok(%s); the caller commits %s" % (render(v)[:160], render(g)[-60:]), es.get("span"))
            summaries[cdef] = synced_summary(facts, R, C)
            # commit control-dependent on the pull's Ok
            on_ok = ok_fact(fs, lambda e: any(is_call(x, VS + "pull_consume", VS + "pull_consume_async") for x in walk(e)))
            R.check(on_ok, "commit-order", b.path, "commit-on-Ok-of-pull",
                    "commit is not guarded by the Ok edge of the pull; guards: %s" % texts(fs)[:6], t.get("span"), "commit only after pull_consume*(..)? succeeded")
        # verifier
        has_verify = any(v.get("name") == "verify" for v in b.d.get("debug", []))
        if has_verify:
            vcalls = [(vi, vt) for vi, vt in b.calls() if vt["callee"]["name"] in ("call_once", "call", "call_mut")
                      and render(sym.op(vt["args"][0])).endswith("verify")]
            R.check(len(vcalls) >= 1, "commit-order", b.path, "verify-called", "verifier parameter is never invoked", b.span)
            on_v = ok_fact(fs, lambda e: e[0] == "call" and e[1].rsplit("::", 1)[-1] in ("call_once", "call", "call_mut")
                           and render(e[2][0]).endswith("verify"))
            R.check(on_v, "commit-order", b.path, "commit-on-Ok-of-verify",
                    "commit is reachable without verify(..) having returned Ok; guards: %s" % [x for x in texts(fs) if "verify" in x], t.get("span"),
                    "commit only on verify(..) == Ok")
            # trailer variant: verify gets the trailer produced by into_trailer of the same pull
    R.floor("commit-order", len(summaries), 5, "filling closures summarised")

    # pull_consume / pull_consume_async return the consumer's result unmodified and only ... (run_pull gate)
    rp = facts.body(VS + "run_pull::{closure#0}")
    rs = Sym(rp)
    val_rows = []
    for i, j, s in rp.assigns():
        if s["place"]["l"] == 0 and not s["place"]["p"]:
            val_rows.append((i, j, s))
    n_gate = 0
    if getattr(rp, "changed", False):
        # the result may travel through a temporary (the body moved into a helper that was folded back in: `_0 = _27` at each exit):
        # read the value each exit assigns by its reaching definitions
        from analysis.sym import split_rows as _sr
        expanded = []
        for i, j, s in val_rows:
            alts = _sr(rs, i, j, s["rv"]) or []
            seen_v = []
            for ch, v_ in alts:
                if render(v_) not in seen_v:
                    seen_v.append(render(v_))
                    expanded.append((i, j, {"rv": None, "_v": v_, "span": s.get("span")}))
            if not alts:
                expanded.append((i, j, s))
        val_rows = expanded
    for i, j, s in val_rows:
        v = s["_v"] if s.get("_v") is not None else rs.rvalue(s["rv"])
        txt = render(v)
        if v[0] == "agg" and v[2] == "Err":
            continue
        if is_call(v, "from_residual"):
            continue        # `?`: the residual of a failed step, an error by construction
        n_gate += 1
        fs = facts_at(rp, rs, facts, i)
        ok = ok_fact(fs, lambda e: "pull_loop_async" in render(e))
        R.check(ok, "pull-error-first", rp.path, "value-after-pull-Ok",
                "run_pull returns the consumer's value on a path where the pull result was not checked Ok (a truncated stream could yield a value); guards: %s"
                % [x[:120] for x in texts(fs)], s.get("span"), "consumer value returned only on pull_res == Ok")
    R.floor("pull-error-first", n_gate, 1, "value-returning rows of run_pull")
    # sync pull_consume: returns consume(..)'s result itself
    pc = facts.body(VS + "pull_consume")
    ps = Sym(pc)
    r0 = [o for o in trace_op(pc, {"copy": {"l": 0, "p": []}})]
    okp = bool(r0) and all((o.kind == "call" and o.info["callee"]["name"] in ("call_once", "call", "call_mut") and not o.path)
                           or (o.kind == "call" and o.path and o.path[0] == "Break.0")  # `?` propagating an error
                           or (o.kind == "agg" and o.info.get("variant") == "Err") for o in r0)
    okp = okp and any(o.kind == "call" and o.info["callee"]["name"] in ("call_once", "call", "call_mut") for o in r0)
    R.check(okp, "pull-error-first", pc.path, "returns consume's result", "pull_consume's result origins: %s" % r0, pc.span, str(r0))

    # ---------------- tempfile-raii ---------------------------------------------------------------------
    drop_path = "<%s as std::ops::Drop>::drop" % TF
    dp = facts.body(drop_path)
    ds = Sym(dp)
    rm = [(i, t) for i, t in dp.calls() if callee_matches(t["callee"], "std::fs::remove_file")]
    R.check(len(rm) == 1, "tempfile-raii", dp.path, "Drop removes", "TempFile::drop does not call remove_file exactly once", dp.span)
    for i, t in rm:
        a = ds.op(t["args"][0])
        fs = facts_at(dp, ds, facts, i)
        only_open = any((f["val"] is True and is_call(f["expr"], "is_some") and f["expr"][2][0][0] == "field" and f["expr"][2][0][2] == HF) or
                        (f["val"] == H_OPEN and f["expr"][0] == "field" and f["expr"][2] == HF) or
                        (f["val"] == H_OPEN and is_call(f["expr"], "take", "replace") and f["expr"][2] and f["expr"][2][0][0] == "field" and f["expr"][2][0][2] == HF) for f in fs)
        R.check(a[0] == "field" and a[2] == "path" and only_open, "tempfile-raii", dp.path, "remove(self.path) iff handle open",
                "Drop removes %s under %s" % (render(a), texts(fs)), t.get("span"), "remove_file(self.path) under file.is_some()")
    # commit: Err arm removes; Ok arm re-points path (so Drop cannot remove the published file) and handle is closed first
    errs = blocks_assigning_variant(cm, "std::result::Result", "Err")
    rm2 = [term_pt(cm, i) for i, t in cm.calls() if callee_matches(t["callee"], "std::fs::remove_file")]
    for i, j, s in errs:
        fs = facts_at(cm, csym, facts, i)
        if any(f["val"] == "Err" and is_call(f["expr"], "rename") for f in fs):
            w = must_cross(cm, [(0, 0)], [(i, j)], rm2, after_start=False)
            R.check(rm2 and w is None, "tempfile-raii", cm.path, "rename-failure removes temp", "a failed rename leaves the temp file behind", s.get("span"), path=w)
    # the destination is touched by nothing but the rename: commit may delete only its own temp path, so that a failed
    # publish leaves whatever was at the destination before (the rename is the one atomic step)
    for i, t in cm.calls():
        nm = t["callee"]["path"]
        if callee_matches(t["callee"], "std::fs::remove_file", "std::fs::remove_dir", "std::fs::remove_dir_all", "std::fs::write", "std::fs::copy",
                          "std::fs::File::create", "std::fs::OpenOptions::open", "std::fs::hard_link") and t["args"]:
            a = csym.op(t["args"][-1] if callee_matches(t["callee"], "std::fs::copy", "std::fs::hard_link") else t["args"][0])
            own = any(x[0] == "field" and x[2] == "path" and x[1][0] == "arg" and x[1][1] == 1 for x in walk(a)) and not any(x[0] == "arg" and x[1] == 2 for x in walk(a))
            R.check(own, "tempfile-raii", cm.path, "commit touches the destination only through rename",
                    "commit calls %s(%s): the destination is modified outside the atomic rename, so a publish that fails afterwards has already destroyed the previous file"
                    % (nm.rsplit("::", 1)[-1], render(a)[:80]), t.get("span"), "%s(self.path)" % nm.rsplit("::", 1)[-1])
    closes = [(w["bb"], w["idx"]) for w in field_writes(facts, TF, HF) if w["body"] is cm and w["kind"] == "store"
              and csym.rvalue(w["rv"])[0] == "agg" and csym.rvalue(w["rv"])[2] == H_CLOSED]
    # Option::take(&mut self.file) also leaves None behind (and hands the File out to be dropped)
    for i, t in cm.calls():
        if t["callee"]["name"] == "take" and "Option" in t["callee"]["path"] and t["args"]:
            a = csym.op(t["args"][0])
            if a[0] == "field" and a[2] == HF:
                closes.append(term_pt(cm, i))
        if t["callee"]["name"] == "replace" and "mem" in t["callee"]["path"] and len(t["args"]) == 2:
            # mem::replace(&mut self.handle, Closed)
            a = csym.op(t["args"][0])
            v2 = csym.op(t["args"][1])
            if a[0] == "field" and a[2] == HF and v2[0] == "agg" and v2[2] == H_CLOSED:
                closes.append(term_pt(cm, i))
    ren = [term_pt(cm, i) for i, t in cm.calls() if callee_matches(t["callee"], "std::fs::rename")]
    R.check(closes and ren and must_cross(cm, [(0, 0)], ren, closes, after_start=False) is None, "tempfile-raii", cm.path, "handle closed before rename",
            "commit renames while Drop would still consider the temp file open (a later Drop would delete the published file)", cm.span)
    n_leak = 0
    for b in vs_bodies:
        for i, t in b.calls():
            if callee_matches(t["callee"], "std::mem::forget", "std::mem::ManuallyDrop::<T>::new", "std::boxed::Box::<T>::leak", "std::boxed::Box::<T, A>::leak"):
                if any("TempFile" in a for a in t["callee"]["targs"]):
                    n_leak += 1
                    R.bad("tempfile-raii", b.path, "leak", "a TempFile is leaked through %s: its temp file would never be removed" % t["callee"]["path"], t.get("span"))
    R.ok("tempfile-raii", "<crate>", "no forget/ManuallyDrop/leak of TempFile", None, "0 sites")

    # ---------------- trailer-hold-gate -------------------------------------------------------------------
    it = facts.body(VS + "TrailerHold::<W>::into_trailer")
    its = Sym(it)
    oks = ok_exits(it)
    R.floor("trailer-hold-gate", len(oks), 1, "Ok exits of into_trailer")
    for i, j, s in oks:
        fs = facts_at(it, its, facts, i)
        ok = has_cmp(fs, "Le", lambda a: a[0] == "field" and a[2] == "trailer_len", lambda x: is_call(x, "len") and x[2][0][0] == "field" and x[2][0][2] == "hold")
        v = its.rvalue(s["rv"])
        held = dict(v[3])["0"]
        R.check(ok and held[0] == "field" and held[2] == "hold", "trailer-hold-gate", it.path, "Ok iff hold.len() >= trailer_len",
                "into_trailer returns Ok(%s) under %s" % (render(held), texts(fs)), s.get("span"), "Ok(self.hold) only when hold.len() >= trailer_len")
    # trailer pulls call into_trailer with `?` before the Ok exit (covered by Ok-exit guards: into_trailer's Ok fact)
    for cdef in sorted(summaries):
        if "#" in cdef:
            continue    # filling steps written out at the commit site: judged there
        C = facts.body(cdef)
        cs = Sym(C)
        its_calls = [(i, t) for i, t in C.calls() if callee_matches(t["callee"], VS + "TrailerHold::<W>::into_trailer")]
        if not its_calls:
            continue
        for ei, ej, es in ok_exits(C):
            fs = facts_at(C, cs, facts, ei)
            R.check(ok_fact(fs, lambda e: is_call(e, "into_trailer")), "trailer-hold-gate", C.path, "Ok only after into_trailer Ok",
                    "a trailer pull can succeed although the stream was shorter than the trailer", es.get("span"))

    # ---------------- the stream ends with `last` only when the producer really finished (shared with C09): the file pullers
    # commit on `last_seen`, so a producer failure or panic that is announced as a clean end publishes a truncated file
    from analysis import report as _report
    from rules import C09 as _c09
    sub = _report.Report(R.prop, R.tier, R.config)
    try:
        _c09.run(facts, sub)
    except Exception as e:
        sub.bad("anchor-resolution", "<crate>", "shared-C09-rules", "the shared end-of-stream rules could not run: %s" % e)
    keep = ("one-terminal", "producer-errors-surface", "pull-decision-table", "last-flag-table", "eof-only-after-last", "anchor-resolution",
            "one-next-per-chunk", "no-byte-discard")      # (... and what is committed on `last` is the whole stream: no chunk re-requested, dropped or repeated)
    for inst in sub.instances:
        if inst["rule"] in keep and inst["verdict"] == "holds":
            R.instances.append(inst)
    for v in sub.violations:
        if v["rule"] in keep:
            R.bad(v["rule"], v["fn"], v["what"], v["msg"], v.get("site"), v.get("path"))

