"""C09 - a pulled value stream reproduces the producer's bytes exactly and ends once (src/value_stream.rs)."""
import re
from analysis.flow import must_cross, return_points, term_pt, path_counts
from analysis.guards import facts_at, field_writes, path_facts
from analysis.mir import callee_matches, op_place
from analysis.sym import Sym, render, is_call, const_val, walk, eval_const
from rules.common import texts, value_rows, render_n, blocks_assigning_variant, ok_fact

REQUIRES = ("value-stream",)
VS = "value_stream::"

EXPLANATION = (
    "Decided structurally. (one-terminal) produce() sends exactly one terminal message on every path: End on the Ok edge of the "
    "pipeline result, Fail(reason) on its Err edge; the pipeline closure returns Ok only as flush_remaining's result, after the "
    "body writer (and, compressed, the encoder's finish) succeeded; (producer-errors-surface) in every producer kind's "
    "body-writer closure (value, typed array, complex array, reader, writer) and in the pipeline closure the Err edge of any "
    "fallible call can never reach an Ok exit, so a source or sink failure ends the stream with Fail, never End. (pull-decision-table) Session::pull depends on its inputs "
    "only through Option/Msg discriminants and its extracted table equals {(no lookahead, End) -> (empty, last); (no lookahead, "
    "Fail) -> Err; (c, Chunk n) -> (c, not last) with lookahead := n; (c, End) -> (c, last); (c, Fail) -> Err}; a closed channel "
    "is mapped to Fail. (done-gate) the next handler pulls only under !done, sets done on the last/Err rows, removes the "
    "session on both, and answers an unknown or finished stream with an error. (last-flag-table) the writer stores [last as u8] "
    "as the response query and both readers test query.first() == Some(1). (eof-only-after-last) ChunkReader::read returns "
    "Ok(0) only under `finished`, which (with last_seen) is stored only on the last edge; pull_loop_async returns Ok only on "
    "the last edge or when the consumer dropped its receiver. (one-next-per-chunk) the non-idempotent `next` request is sent once per chunk: from the failure edge of a `next` no further `next` is reachable (no retry), a single fetch sends at most one, and the async loop forwards each non-empty chunk before asking again. (no-byte-discard) the only statement that takes bytes out of "
    "ChunkSink.buf is the mem::replace whose result is sent as Msg::Chunk; write appends data[..take] and advances by the same "
    "take; readers advance by the number of bytes they copied. Not decided: chunk-size arithmetic at every boundary residue, "
    "compression round trip (zstd), relative producer/consumer speed."
    ' (pull-decision-table, closed over consumers) only Session::recv reads the session channel, and every caller of Session::recv accounts for what it takes: End is returned as last or recorded in a flag pull replays, Fail surfaces as an error, a Chunk is returned or staged.'
    ' The Elapsed of a timeout that only borrows a pinned request future (a heartbeat tick) is not a failure of the request; the Elapsed of a timeout that owns the future is.'
    " Every insert into the session map takes its key from fetch_add of a positive constant on an atomic counter: a stream id is never handed out twice, so a finished stream's late next / cancel cannot land on a later stream."
)
ASSUMPTIONS = ["std::sync::mpsc and tokio mpsc channels are FIFO and lossless", "zstd decoding inverts zstd encoding"]


def _last_true(fs):
    """the facts say the chunk just received is the terminating one: query.first() == Some(1), spelled as the Option comparison or
    as the pattern test `matches!(query.first(), Some(&1))` (Some edge + payload == 1 edge)"""
    ts = [f["text"] if isinstance(f, dict) else f for f in fs]
    if any("first(" in x and "Some{0: 1}" in x and x.endswith("is True") for x in ts):
        return True
    some = any("first(" in x and ".query" in x and x.endswith("is Some") for x in ts)
    one = any("first(" in x and ".query" in x and "as Some).0" in x and x.endswith("in [1]") for x in ts)
    return some and one


def _any_last_test(b, s, facts):
    for x in sorted(b.live_blocks()):
        if _last_true(facts_at(b, s, facts, x)):
            return True
    return False


def _is_tick(e, i):
    """`timeout(every, call.as_mut())` elapsed: the timer of a heartbeat fired while the request future - pinned elsewhere and only
    borrowed by the timeout - is still in flight.  That Err is not a failure of the request (nothing was dropped, the same future is
    polled again); the Err of a timeout that owns the request future is (dropping it abandons the request)."""
    for _h in range(8):
        if e[0] == "field" and e[2] == "0":
            e = e[1]
        elif e[0] == "variant" and e[2] == "Ready":
            e = e[1]
        elif e[0] == "call" and e[1].rsplit("::", 1)[-1] == "poll" and e[2]:
            e = e[2][0]
        else:
            break
    if e[0] != "call" or e[1].rsplit("::", 1)[-1] not in ("timeout", "timeout_at") or len(e[2]) < 2:
        return False
    fut = e[2][-1]
    borrowed = (fut[0] == "call" and fut[1].rsplit("::", 1)[-1] in ("as_mut", "new", "new_unchecked") and "Pin" in fut[1]) or fut[0] == "ref"
    return borrowed and any(y[0] == "call" and len(y) > 3 and y[3] == i for y in walk(fut))


def run(facts, R):
    # ---------------- one-terminal ----------------------------------------------------------------------
    pb = facts.body(VS + "produce")
    ps = Sym(pb)
    sends = [(i, t) for i, t in pb.calls() if t["callee"]["name"] == "send" and "SyncSender" in t["callee"]["path"]]
    # a terminal is `tx.send(Msg::End)` / `tx.send(Msg::Fail(..))`, or one send of a value chosen between the two
    kinds = {}      # kind -> (block whose dominating facts decide the kind, terminator for the report)
    for i, t in sends:
        m = ps.op(t["args"][1])
        if m[0] == "agg" and m[1].endswith("Msg"):
            kinds[m[2]] = (i, t)
        elif m[0] == "local":
            for d in pb.defs_of(m[1]):
                if d[0] == "assign" and d[3].get("agg") == "adt" and d[3]["adt"].endswith("Msg"):
                    kinds[d[3]["variant"]] = (d[1], t)
                else:
                    kinds["?"] = (i, t)
        else:
            kinds["?"] = (i, t)
    R.check(set(kinds) == {"End", "Fail"} and len(sends) in (1, 2), "one-terminal", pb.path, "terminal sends are End and Fail", "terminal sends: %s" % sorted(kinds), pb.span)
    pc = path_counts(pb, [i for i, _ in sends])
    R.check(pc == (1, 1), "one-terminal", pb.path, "exactly one terminal on every path", "terminal sends per path: %s" % (pc,), pb.span, "min=max=1")
    pipe = None
    # the pipeline is an immediately-invoked closure, or (folded into produce / a helper inlined here) a run of fallible steps
    # ending in flush_remaining whose failures all lead to the Fail send
    closure_form = any(t["callee"]["path"].startswith(pb.path + "::{closure") and t["callee"].get("decl", "").startswith("std::ops::Fn") for _, t in pb.calls())
    inline_pipe = False
    for k, (i, t) in kinds.items():
        fs = facts_at(pb, ps, facts, i)
        want = "Ok" if k == "End" else "Err"
        got = [f for f in fs if f["val"] == want and f["expr"][0] == "call" and f["expr"][1].startswith(pb.path + "::{closure")]
        if not got and not closure_form:
            inline_pipe = True
            if k == "End":
                okg = any(f["val"] == "Ok" and not f.get("derived") and is_call(f["expr"], "flush_remaining") for f in fs)
            else:
                alts = path_facts(pb, ps, facts, i)
                okg = bool(alts) and all(any(f["val"] in ("Err", "Break") for f in alt) for alt in alts)
            R.check(okg, "one-terminal", pb.path, "%s only on the %s edge of the pipeline" % (k, want), "%s is sent under %s" % (k, texts(fs)), t.get("span"),
                    "End: flush_remaining is Ok; Fail: every way in carries a failed step")
            continue
        R.check(bool(got), "one-terminal", pb.path, "%s only on the %s edge of the pipeline" % (k, want), "%s is sent under %s" % (k, texts(fs)), t.get("span"), "guarded by pipeline result is %s" % want)
        if got:
            pipe = got[0]["expr"][1]
    if inline_pipe:
        fl = [(i, t) for i, t in pb.calls() if callee_matches(t["callee"], VS + "ChunkSink::flush_remaining")]
        bodycalls = [term_pt(pb, x) for x, y in pb.calls() if y["callee"]["name"] in ("call_once", "call", "call_mut") and "body" in render(ps.op(y["args"][0]))]
        R.check(len(fl) == 1, "one-terminal", pb.path, "one flush_remaining", "flush_remaining calls: %d" % len(fl), pb.span)
        for i, t in fl:
            w = must_cross(pb, [(0, 0)], [term_pt(pb, i)], bodycalls, after_start=False)
            R.check(bool(bodycalls) and w is None, "one-terminal", pb.path, "flush only after the body writer ran", "flush_remaining reachable without running the body writer", t.get("span"), path=w)
        zs = [x for x, y in pb.calls() if y["callee"]["name"] == "finish"]
        R.check(len(zs) == 1, "one-terminal", pb.path, "compressed pipeline finishes the encoder", "finish() calls: %d" % len(zs), pb.span)
    if pipe:
        cb = facts.body(pipe)
        rows = value_rows(cb, Sym(cb), facts, 0)
        okrows = [(g, v) for g, v in rows if "from_residual" not in v]
        ok = len(okrows) >= 1 and all(v.startswith("ChunkSink::flush_remaining(") for g, v in okrows)
        R.check(ok, "one-terminal", cb.path, "Ok only through flush_remaining", "pipeline closure can succeed as %s" % [v[:80] for g, v in okrows], cb.span, "all other exits are `?` errors")
        fl = [(i, t) for i, t in cb.calls() if callee_matches(t["callee"], VS + "ChunkSink::flush_remaining")]
        bodycalls = [term_pt(cb, x) for x, y in cb.calls() if y["callee"]["name"] in ("call_once", "call", "call_mut") and "body" in render(Sym(cb).op(y["args"][0]))]
        for i, t in fl:
            w = must_cross(cb, [(0, 0)], [term_pt(cb, i)], bodycalls, after_start=False)
            R.check(bool(bodycalls) and w is None, "one-terminal", cb.path, "flush only after the body writer ran", "flush_remaining reachable without running the body writer", t.get("span"), path=w)
        # zstd: finish()? before flush
        for i, t in fl:
            fs = texts(facts_at(cb, Sym(cb), facts, i))
            # on the Zstd arm the finish result must be Continue
            zs = [term_pt(cb, x) for x, y in cb.calls() if y["callee"]["name"] == "finish"]
            R.check(len(zs) == 1, "one-terminal", cb.path, "compressed pipeline finishes the encoder", "finish() calls: %d" % len(zs), cb.span)

    # ---------------- producer-errors-surface -----------------------------------------------------------------
    # every producer kind's body-writer closure: an Err from the source or the sink can never lead to Ok(()) -
    # otherwise produce() would send End over a truncated stream instead of Fail
    from rules.C05 import result_switches, mentions
    # (every closure of the module with a body writer's signature - `|w: &mut dyn Write| -> io::Result<()>` - is one, wherever it is built:
    # inside the Router extension methods or in a helper such as `block_body`)
    writers = [b for b in facts.bodies.values() if b.kind == "closure" and b.path.startswith(("<server::Router as value_stream::RouterValueStreamExt>::", "value_stream::"))
               and "::tests::" not in b.path
               and b.local_ty(0).startswith("std::result::Result<(), std::io::Error>") and any("dyn std::io::Write" in b.local_ty(a) for a in range(1, b.argc + 1))]
    R.floor("producer-errors-surface", len(writers), 4, "producer body-writer closures")
    for wb in writers + ([facts.body(pipe)] if pipe else []) + ([pb] if inline_pipe else []):
        wsym = Sym(wb)
        okpts = [(i, j) for i, j, st in blocks_assigning_variant(wb, "std::result::Result", "Ok")]
        if wb is pb:
            # the steps folded into produce: success is "the End send is reached"
            okpts = [term_pt(pb, kinds["End"][0])] if "End" in kinds else []
        for i, t in wb.calls():
            if wb is pb and (not pb.blocks[i].get("inlined_from") and not is_call(("call", t["callee"]["path"], (), i), "flush_remaining", "finish", "call_once", "call", "call_mut")):
                continue    # the terminal sends themselves and set-up calls are not pipeline steps
            dty = wb.local_ty(t["dest"]["l"]) if not t["dest"]["p"] else ""
            if not dty.startswith("std::result::Result<") or t["callee"]["name"] in ("map", "map_err", "branch", "from_residual", "and_then", "ok", "unwrap_or"):
                continue
            # the value may be returned as the closure's own result (tail expression): then nothing is swallowed
            tail = t["dest"]["l"] == 0 or any(st["place"]["l"] == 0 and not st["place"]["p"] and mentions(wsym.rvalue(st["rv"]), i) for _, _, st in wb.assigns()) or \
                any(tt["dest"]["l"] == 0 and any(mentions(wsym.op(a), i) for a in tt["args"]) for _, tt in wb.calls())
            sw = result_switches(wb, wsym, facts, i)
            nm = t["callee"]["path"].rsplit("::", 1)[-1]
            if not sw:
                R.check(tail, "producer-errors-surface", wb.path, "result of %s propagated" % nm,
                        "the Result of `%s` is neither tested nor returned: a failing source/sink would be reported as a clean end of stream" % t["callee"]["path"], t.get("span"),
                        "returned as the closure's result")
                continue
            for (s_, succ_t, fail_t) in sw:
                # an Err may be retried (e.g. ErrorKind::Interrupted): the only way from the Err edge to an Ok exit is
                # through another invocation of the same call
                w = must_cross(wb, [(x, 0) for x in fail_t], okpts, [term_pt(wb, i)], after_start=False)
                bad = w is not None
                R.check(not bad, "producer-errors-surface", wb.path, "Err of %s never becomes Ok(())" % nm,
                        "after `%s` fails the producer closure can still return Ok(()): the stream would end with an end marker over truncated bytes" % t["callee"]["path"], t.get("span"),
                        "Err edge cannot reach an Ok exit")

    # ... and a source that hands its data out as items (`for block in blocks`, each an io::Result): an Err item must not lead to Ok(()) either
    for wb in writers:
        wsym = Sym(wb)
        okpts = [(i, j) for i, j, st in blocks_assigning_variant(wb, "std::result::Result", "Ok")]
        errb = []
        for x in sorted(wb.live_blocks()):
            for f in facts_at(wb, wsym, facts, x):
                if str(f["val"]) == "Err" and not f.get("derived") and any(y[0] == "call" and y[1].rsplit("::", 1)[-1] == "next" for y in walk(f["expr"])) and f["expr"][0] in ("field", "variant"):
                    errb.append((x, 0))
        heads_ = [h for h in errb if not any((p_, 0) in errb for p_ in wb.preds().get(h[0], []))]
        if heads_:
            w = must_cross(wb, heads_, okpts, [], after_start=False)
            R.check(w is None, "producer-errors-surface", wb.path, "an Err item of the source never becomes Ok(())",
                    "after the source iterator yields an Err item the producer closure can still return Ok(()): the stream would end with an end marker over truncated bytes",
                    wb.span, "Err item cannot reach an Ok exit", path=w)

    # ---------------- pull-decision-table ------------------------------------------------------------------
    sb = facts.body(VS + "Session::pull")
    ss = Sym(sb)
    rows = value_rows(sb, ss, facts, 0)
    table = set()
    replayed_flags = set()
    for g, v in rows:
        la = "some" if any("take(arg1.lookahead) is Some" in x for x in g) else "none" if any("take(arg1.lookahead) is None" in x for x in g) else "any"
        r1 = [x.split(" is ")[1] for x in g if "recv#1(" in x]
        r2 = [x.split(" is ")[1] for x in g if "recv#2(" in x]
        if v.startswith("Result::Err"):
            src = "recv#1" if "recv#1" in v else "recv#2" if "recv#2" in v else "?"
            res = "Err(%s.Fail)" % src
        else:
            cur = "empty" if re.search(r"Vec::new(#\d+)?\(\)", v) else "lookahead" if "take(arg1.lookahead) as Some" in v else "recv#1.Chunk" if re.search(r"recv#1\(arg1(\.rx)?\) as Chunk", v) else "?"
            last = v.rstrip("}").rsplit("1: ", 1)[-1]
            res = "Ok(%s,last=%s)" % (cur, last)
        if not r1 and not r2 and res == "Ok(empty,last=1)" and la == "any" and getattr(sb, "changed", False):
            # the replay of an End that another consumer of the channel recorded in the session (`if self.ended { return (empty, true) }`):
            # guarded by a bool field of the session that is true, set only behind an End outcome (judged by the consumer rule below)
            flags = [x for x in g if re.match(r"arg1\.\w+ is True$", x)]
            fl = flags[0].split(" is ")[0].split(".", 1)[1] if flags and len(g) == 1 else None      # (the flag alone decides the replay)
            sets = [w for w in field_writes(facts, VS + "Session", fl)] if fl else []
            def _true_store(w):
                if w["kind"] != "store":
                    return False
                wv = Sym(w["body"]).rvalue(w["rv"])
                return wv[0] == "const" and wv[1] in (1, True)
            trues = [w for w in sets if _true_store(w)]
            if fl and trues and all(any(f_["val"] == "End" and is_call(f_["expr"], "recv") for f_ in facts_at(w["body"], Sym(w["body"]), facts, w["bb"])) for w in trues):
                R.ok("pull-decision-table", sb.path, "recorded End replayed as the empty last chunk", sb.span, "flag `%s` set only behind an End outcome" % fl)
                replayed_flags.add(fl)
                continue
        table.add((la, tuple(r1), tuple(r2), res))
    want = {
        ("none", ("Fail",), (), "Err(recv#1.Fail)"),
        ("none", ("End",), (), "Ok(empty,last=1)"),
        ("any", (), ("Fail",), "Err(recv#2.Fail)"),
        ("some", (), ("Chunk",), "Ok(lookahead,last=0)"),
        ("none", ("Chunk",), ("Chunk",), "Ok(recv#1.Chunk,last=0)"),
        ("some", (), ("End",), "Ok(lookahead,last=1)"),
        ("none", ("Chunk",), ("End",), "Ok(recv#1.Chunk,last=1)"),
    }
    R.check(table == want, "pull-decision-table", sb.path, "pull table equals the specified one",
            "Session::pull rows differ: unexpected %s ; missing %s" % (sorted(table - want), sorted(want - table)), sb.span, "%d rows" % len(table))
    las = [w for w in field_writes(facts, VS + "Session", "lookahead") if w["body"] is sb]
    st = [w for w in las if w["kind"] == "store"]
    okl = len(st) == 1
    if okl:
        v = render_n(ss.rvalue(st[0]["rv"]))
        fs = texts(facts_at(sb, ss, facts, st[0]["bb"]))
        okl = v.startswith("Option::Some{0: (Session::recv") and "as Chunk).0" in v and any("is Chunk" in x for x in fs)
    R.check(okl, "pull-decision-table", sb.path, "lookahead := the following chunk", "lookahead stores: %s" % [(w["kind"]) for w in las], sb.span, "Some(next chunk) on the Chunk row")
    rc = facts.body(VS + "Session::recv")
    rv = Sym(rc).local(0)
    okr = is_call(rv, "unwrap_or_else") and is_call(rv[2][0], "recv") and render(rv[2][0][2][0]).endswith(".rx")
    if not okr:
        # the same choice spelled as a match: Ok(msg) => msg, Err(_) => Msg::Fail(..)
        rrows = value_rows(rc, Sym(rc), facts, 0)
        okr = len(rrows) == 2 and all(any("Receiver" in x and "recv(" in x for x in g) for g, v in rrows)
        for g, v in rrows:
            if any(x.endswith("is Ok") for x in g):
                okr = okr and v.endswith("as Ok).0") and "recv(" in v
            elif any(x.endswith("is Err") for x in g):
                okr = okr and v.startswith("Msg::Fail")
            else:
                okr = False
    R.check(okr, "pull-decision-table", rc.path, "recv = rx.recv() or Fail", "recv is %s" % render(rv)[:140], rc.span)
    for c in facts.children(rc.path):
        cv = Sym(c).local(0)
        R.check(cv[0] == "agg" and cv[2] == "Fail", "pull-decision-table", c.path, "closed channel -> Fail", "closed channel maps to %s" % render(cv)[:80], c.span, "Msg::Fail")

    # ---------------- every message taken off the session channel is accounted for, whoever takes it: the channel carries the
    # stream exactly once, so a consumer besides pull (a peek / prime / prefetch added later) that swallows the End marker makes
    # the next pull see a closed channel (reported as a producer failure), and one that drops a Chunk loses bytes
    n_cons = 0
    for b_ in facts.bodies.values():
        if not b_.path.startswith(("value_stream::", "<value_stream::")):
            continue
        for i_, t_ in b_.calls():
            if t_["callee"]["name"] in ("recv", "try_recv", "recv_timeout", "try_iter", "iter") and "Receiver" in t_["callee"]["path"] and "Msg" in str(t_["callee"].get("targs") or t_.get("arg_tys") or ""):
                R.check(b_.path == rc.path, "pull-decision-table", b_.path, "the session channel is read only by Session::recv",
                        "%s reads the producer channel directly: what it takes is not seen by Session::pull" % b_.path, t_.get("span"))
    for b_ in facts.bodies.values():
        sites = [(i_, t_) for i_, t_ in b_.calls() if callee_matches(t_["callee"], VS + "Session::recv")]
        if not sites:
            continue
        bs_ = Sym(b_)
        rows_ = value_rows(b_, bs_, facts, 0)
        sess_stores = [(x, j, st_) for x, j, st_ in b_.assigns() if any(isinstance(e_, dict) and e_.get("a") == VS + "Session" for e_ in st_["place"]["p"])]
        for g_, v_ in rows_:
            recv_g = [x for x in g_ if "Session::recv" in x and x.rsplit(" is ", 1)[-1] in ("End", "Fail", "Chunk")]
            if not recv_g:
                continue
            n_cons += 1
            last = recv_g[-1]
            kind = last.rsplit(" is ", 1)[-1]
            call_txt = last.rsplit(" is ", 1)[0]
            ord_ = call_txt.split("(", 1)[0]        # `Session::recv#2`
            # blocks known to lie behind this very outcome
            if kind == "End":
                marks_last = v_.rstrip("}").endswith("1: 1") or ", 1: 1}" in v_
                rec_flds = {[e_["f"] for e_ in st_["place"]["p"] if isinstance(e_, dict) and e_.get("a") == VS + "Session"][-1] for x, j, st_ in sess_stores
                            if any(f_["val"] == "End" and is_call(f_["expr"], "recv") for f_ in facts_at(b_, bs_, facts, x))}
                # ... recorded in a field that pull replays as the empty last chunk
                recorded = bool(rec_flds & replayed_flags)
                R.check(marks_last or recorded, "pull-decision-table", b_.path, "an End taken off the channel is reported as the last chunk (or recorded in the session)",
                        "%s takes the End marker off the session channel (%s) and returns %s without marking the chunk as last or recording the end in the session: the "
                        "next pull finds a closed channel and reports a producer failure instead of the clean end (an empty payload never yields its empty final chunk)"
                        % (b_.path.rsplit("::", 1)[-1], last, v_[:80]), b_.span, "last = true")
            elif kind == "Fail":
                R.check("Err{" in v_ or "error" in v_.lower(), "pull-decision-table", b_.path, "a Fail taken off the channel surfaces as an error",
                        "%s takes a producer failure off the channel (%s) and returns %s" % (b_.path.rsplit("::", 1)[-1], last, v_[:80]), b_.span, "Err")
        for g_, v_ in rows_:
            for x in g_:
                if "Session::recv" in x and x.endswith(" is Chunk"):
                    payload = "(%s as Chunk).0" % x.rsplit(" is ", 1)[0]
                    kept = payload in v_ or any(payload in render_n(bs_.rvalue(st_["rv"])) or "as Chunk).0" in render(bs_.rvalue(st_["rv"])) for _, _, st_ in sess_stores)
                    R.check(kept, "pull-decision-table", b_.path, "a Chunk taken off the channel is returned or staged in the session",
                            "%s takes a chunk off the session channel (%s) that is neither part of what it returns nor stored in the session: those bytes are lost"
                            % (b_.path.rsplit("::", 1)[-1], x), b_.span, "returned / lookahead")
    R.floor("pull-decision-table", n_cons, 4, "outcome rows of Session::recv consumers")

    # ---------------- done-gate ----------------------------------------------------------------------------------
    nh = facts.body("<value_stream::NextHandler as server::HandlerErased>::handle")
    ns = Sym(nh)
    pulls = [(i, t) for i, t in nh.calls() if callee_matches(t["callee"], VS + "Session::pull")]
    R.check(len(pulls) == 1, "done-gate", nh.path, "one pull", "found %d pulls" % len(pulls), nh.span)
    for i, t in pulls:
        fs = facts_at(nh, ns, facts, i)
        ok = any(f["expr"][0] == "field" and f["expr"][2] == "done" and f["val"] is False for f in fs)
        R.check(ok, "done-gate", nh.path, "pull only while !done", "pull reached under %s" % texts(fs)[-3:], t.get("span"), "guarded by guard.done == false")
        R.check(not _in_cycle(nh, i), "done-gate", nh.path, "one pull per request", "pull sits in a loop", t.get("span"))
    # a finished stream is an error, never another (empty) chunk: on the `done == true` edge only Err values are built
    n_done_err = 0
    for i, j, st in nh.assigns():
        rv = st["rv"]
        if rv.get("agg") == "adt" and rv.get("adt") == "std::result::Result":
            fs = facts_at(nh, ns, facts, i)
            on_done = any(f["expr"][0] == "field" and f["expr"][2] == "done" and f["val"] is True and not f.get("derived") and not f.get("merged") for f in fs)
            if on_done:
                n_done_err += rv["variant"] == "Err"
                R.check(rv["variant"] == "Err", "done-gate", nh.path, "pulling a finished stream is an error",
                        "a `next` on a stream whose session is already done yields %s: a second end marker / a clean end after a failure" % render(ns.rvalue(rv))[:80], st.get("span"),
                        "Err(\"stream already finished\")")
    if n_done_err == 0 and getattr(nh, "changed", False):
        # the outcome may travel in a private enum instead of a Result: stated on paths - from the `done == true` edge no chunk
        # response is reachable and every way out crosses the error reply
        heads_ = []
        for x in sorted(nh.live_blocks()):
            if any(f["expr"][0] == "field" and f["expr"][2] == "done" and f["val"] is True and not f.get("derived") and not f.get("merged") for f in facts_at(nh, ns, facts, x)):
                heads_.append(x)
        entry_ = [(x, 0) for x in heads_ if any(p_ not in heads_ for p_ in nh.preds().get(x, []))]
        crs_ = [i for i, t in nh.calls() if callee_matches(t["callee"], VS + "chunk_response")]
        errs_ = [term_pt(nh, i) for i, t in nh.calls() if callee_matches(t["callee"], VS + "error_like")]
        from analysis.guards import infeasible as _inf
        reach_ = set()
        for x, _ in entry_:
            reach_ |= nh.reachable((x,))
        bad_cr = [i for i in crs_ if i in reach_ and any(not _inf(a, facts.adts) and any(t_.endswith(".done is True") for t_ in texts(a)) for a in path_facts(nh, ns, facts, i))]
        w_ = must_cross(nh, entry_, return_points(nh), errs_, after_start=False)
        okp = bool(entry_) and not bad_cr and w_ is None
        R.check(okp, "done-gate", nh.path, "pulling a finished stream is an error",
                "on the `done == true` edge a chunk response is reachable, or a return is reachable without the error reply", nh.span, "done edge -> error_like only", path=w_)
        n_done_err = 1 if okp else 0
    R.floor("done-gate", n_done_err, 1, "Err values on the done edge of the next handler")
    dstores = [w for w in field_writes(facts, VS + "Session", "done") if w["body"] is nh and w["kind"] == "store"]
    R.check(len(dstores) == 1 and const_val(ns.rvalue(dstores[0]["rv"])) == 1, "done-gate", nh.path, "done := true", "stores to done: %d" % len(dstores), nh.span)
    # done is set on every path where the pull reported last or Err:  the not-setting paths are guarded by Ok((_, false))
    removes = [(i, t) for i, t in nh.calls() if callee_matches(t["callee"], VS + "SessionTable::remove")]
    R.check(len(removes) in (1, 2), "done-gate", nh.path, "session released on last and on failure", "found %d table.remove calls" % len(removes), nh.span)
    seen_rows = set()
    for i, t in removes:
        # a remove shared by the two rows (`if spent { remove }`) is entered through several edges: judge each way in
        from analysis.guards import infeasible as _infeasible
        alts = [texts(a) for a in path_facts(nh, ns, facts, i) if not _infeasible(a, facts.adts)]
        ok = bool(alts)
        for fs in alts:
            # (a `next` for a stream that is already done is answered like a failed pull, and may release the - already
            # released - session again)
            is_err = any(x.endswith("is Err") for x in fs) or any(x.endswith(".done is True") for x in fs)
            is_last = any(".1" in x and x.endswith("is True") for x in fs)
            ok = ok and (is_err or is_last)
            seen_rows |= ({"err"} if is_err else set()) | ({"last"} if is_last else set())
        fs = alts[0] if alts else []
        R.check(ok, "done-gate", nh.path, "remove on last / Err row", "remove reached under %s" % [a[-3:] for a in alts], t.get("span"), fs[-1][-70:] if fs else None)
    R.check(seen_rows == {"err", "last"} or not removes, "done-gate", nh.path, "both the last row and the Err row release the session", "rows that release the session: %s" % sorted(seen_rows), nh.span,
            "remove on last and on Err")
    # chunk_response(req, chunk, last) built from the pulled tuple
    crs = [(i, t) for i, t in nh.calls() if callee_matches(t["callee"], VS + "chunk_response")]
    for i, t in crs:
        a = [render_n(ns.op(x)) for x in t["args"]]
        okc = a[1].endswith(".0.0") and a[2].endswith(".0.1") and a[1][:-2] == a[2][:-2]
        if not okc and getattr(nh, "changed", False):
            # the pair may have been taken apart and carried in a status value (`More(chunk)` / `Final(chunk)`): the chunk is still
            # the pulled chunk, and a literal `last` is the value the path knows the pulled flag to have
            from analysis.sym import split_eval
            from analysis.guards import infeasible as _inf2
            okc = True
            alts_ = split_eval(ns, i, len(nh.blocks[i]["stmts"]), lambda v_: (v_.op(t["args"][1]), v_.op(t["args"][2]))) or []
            okc = bool(alts_)
            for _, (cv_, lv_) in alts_:
                ct_ = render_n(cv_)
                good_chunk = ct_.endswith(".0.0") and "Session::pull(" in ct_
                lt_ = render_n(lv_)
                if lt_.endswith(".0.1") and lt_[:-2] == ct_[:-2]:
                    good_last = True
                else:
                    c_ = const_val(lv_)
                    rows_ = [texts(pf_) for pf_ in path_facts(nh, ns, facts, i) if not _inf2(pf_, facts.adts)]
                    want_ = " is True" if c_ == 1 else " is False"
                    good_last = c_ in (0, 1) and bool(rows_) and all(any(x_.endswith(".0.1" + want_) and "Session::pull(" in x_ for x_ in r_) for r_ in rows_)
                okc = okc and good_chunk and good_last
        R.check(okc, "done-gate", nh.path, "response carries the pulled (chunk, last)", "chunk_response args %s" % [x[-40:] for x in a], t.get("span"))
    # unknown id / finished -> error
    errs = [(i, t) for i, t in nh.calls() if callee_matches(t["callee"], VS + "error_like")]
    R.floor("done-gate", len(errs), 3, "error rows in next handler")

    # ---------------- release is final: cancel (and the last / failed `next`) release a stream by removing it from the
    # SessionTable; that only ends the stream if the table is the one place a session lives in.  A session kept anywhere else
    # (a cache slot in a handler, a second map) survives the release and keeps answering `next`
    keepers = []
    for p_, a_ in facts.adts.items():
        if a_.get("kind") not in ("struct", "enum") or not a_.get("variants") or not p_.startswith("value_stream::"):
            continue
        for var_ in a_["variants"]:
            for f_ in var_.get("fields", []):
                ty_ = f_.get("ty") or ""
                if "value_stream::Session>" in ty_ or ty_.endswith("value_stream::Session") or "value_stream::Session," in ty_ or "value_stream::Session)" in ty_:
                    keepers.append((p_, f_.get("name"), ty_))
    R.check([k[0] for k in keepers] == [VS + "SessionTable"], "done-gate", VS + "SessionTable", "sessions are stored only in the session table",
            "a session is also kept in %s: removing it from the table (cancel, last chunk, producer error) no longer ends the stream - `next` after release finds it there"
            % [(k[0], k[1]) for k in keepers if k[0] != VS + "SessionTable"], None, "only SessionTable.sessions holds Session values")

    # ---------------- last-flag-table ---------------------------------------------------------------------------------
    cr = facts.body(VS + "chunk_response")
    cv = Sym(cr).local(0)
    qb = [x for x in walk(cv) if is_call(x, "MessageBuilder::query_bytes")]
    crs_ = Sym(cr)
    arrays = [crs_.rvalue(st["rv"]) for i, j, st in cr.assigns() if st["rv"].get("agg") == "array"]
    okq = len(qb) == 1 and len(arrays) == 1 and len(arrays[0][3]) == 1 and render_n(arrays[0][3][0][1]) == "arg3"
    R.check(okq, "last-flag-table", cr.path, "query = [last as u8]", "chunk_response builds arrays %s" % [render_n(a) for a in arrays], cr.span, "one-byte query holding `last`")
    for path in ("value_stream::ChunkReader::<'a>::fetch", "value_stream::pull_loop_async::{closure#0}"):
        b = facts.body(path)
        s = Sym(b)
        tests = []
        for i in sorted(b.live_blocks()):
            for j, st in enumerate(b.blocks[i]["stmts"]):
                pass
        eqs = [(i, t) for i, t in b.calls() if t["callee"]["name"] == "eq" and "Option" in (t["callee"].get("self_ty") or "")]
        ok = False
        for i, t in eqs:
            a0, a1 = render_n(s.op(t["args"][0])), render_n(s.op(t["args"][1]))
            if "first(" in a0 and ".query" in a0 and a1 == "Option::Some{0: 1}":
                ok = True
        ok = ok or _any_last_test(b, s, facts)
        R.check(ok, "last-flag-table", path, "reader tests query.first() == Some(1)", "no `query.first().copied() == Some(1)` test found", b.span)

    # ---------------- done-gate, release side: cancel removes the session so that a later `next` finds none (error)
    ch = facts.body("<value_stream::CancelHandler as server::HandlerErased>::handle")
    chs = Sym(ch)
    crm = [(i, t) for i, t in ch.calls() if callee_matches(t["callee"], VS + "SessionTable::remove")]
    R.check(len(crm) == 1, "done-gate", ch.path, "cancel removes the session", "CancelHandler has %d table.remove calls" % len(crm), ch.span)
    for i, t in crm:
        key = render_n(chs.op(t["args"][1]))
        keys = [key]
        if getattr(ch, "changed", False):
            # the id may travel through an Option / local (`parse.ok().map(|c| c.stream_id)` then `if let Some(id)`): by reaching definitions
            from analysis.sym import split_eval
            alts_ = split_eval(chs, i, len(ch.blocks[i]["stmts"]), lambda v_: v_.op(t["args"][1]))
            if alts_:
                keys = [render_n(v_) for _, v_ in alts_]
        R.check(all(k_.rstrip(")").endswith(".stream_id") and "from_slice(arg2.body)" in k_ for k_ in keys), "done-gate", ch.path, "cancel releases the stream it names",
                "remove(%s)" % keys, t.get("span"), key[-60:])
        okd = []
        for x in sorted(ch.live_blocks()):
            for f in facts_at(ch, chs, facts, x):
                if str(f["val"]) == "Ok" and is_call(f["expr"], "from_slice") and not f.get("derived") and not f.get("merged"):
                    okd.append(x)
        heads = [(x, 0) for x in okd if any(p_ not in okd for p_ in ch.preds().get(x, []))]
        w = must_cross(ch, heads, return_points(ch), [term_pt(ch, i)], after_start=False)
        R.check(bool(heads) and w is None, "done-gate", ch.path, "a well-formed cancel always releases", "a decodable cancel can return without removing the session", t.get("span"), path=w)

    # ---------------- stream ids are never handed out twice: a finished stream's id stays dead, so a late `next` / `cancel` addressed to it
    # (every puller sends a trailing best-effort cancel) cannot land on a stream opened afterwards.  Every insert into the session map takes
    # its key from an atomic counter that only ever counts up (fetch_add by a positive constant), and nothing else writes that counter
    n_ins = 0
    for b_ in facts.bodies.values():
        if not b_.path.startswith(("value_stream::", "<value_stream::")) or "::tests::" in b_.path:
            continue
        bs_ = None
        for i_, t_ in b_.calls():
            if t_["callee"]["name"] != "insert" or "HashMap" not in t_["callee"]["path"] or len(t_["args"]) < 3:
                continue
            bs_ = bs_ or Sym(b_)
            if "sessions" not in render_n(bs_.op(t_["args"][0])):
                continue
            n_ins += 1
            key = bs_.op(t_["args"][1])
            okk = is_call(key, "fetch_add") and len(key[2]) > 1 and isinstance(key[2][1], tuple) and key[2][1][0] == "const" and isinstance(key[2][1][1], int) and key[2][1][1] > 0
            R.check(okk, "done-gate", b_.path, "a stream id is a fresh value of a counter that only counts up",
                    "a session is registered under %s: an id computed from the live sessions (or anything but a monotone counter) can be the id of a stream that already ended, "
                    "whose late `next` / `cancel` then acts on the new stream" % render_n(key)[:120], t_.get("span"), "key = fetch_add(counter, +c)")
    R.floor("done-gate", n_ins, 1, "inserts into the session map")

    # ---------------- one-next-per-chunk: `next` is not idempotent (the server advances by one chunk per request it
    # handles), so a puller sends it exactly once per chunk: never re-sent after an error or timeout, and the chunk of
    # each answered request is consumed before the next request goes out
    # ... which every transport adapter has to respect, whoever wraps whom: an in-crate implementation of AsyncSvsClient::svs_call (the
    # client adapters, and any wrapper added later - a heartbeat, a tracing or a retrying client) passes each request on exactly once; a
    # wrapper that re-issues the call after a timer tick re-sends `next`
    n_impl = 0
    for p_, b_ in sorted(facts.bodies.items()):
        if "AsyncSvsClient>::svs_call" not in p_ or "::tests::" in p_:
            continue
        if not p_.endswith("::svs_call::{closure#0}"):
            continue        # (the coroutine body of the async fn; the outer function only builds it)
        n_impl += 1
        down = [(i_, t_) for i_, t_ in b_.calls() if t_["callee"]["name"] in ("svs_call", "call_with_formats", "call_with_formats_and_timeout", "call_message", "call_message_with_formats_and_timeout")
                or (t_["callee"]["name"].startswith("call_") and t_["callee"]["path"].split("::")[0] in ("async_client", "websocket_client"))]
        from analysis.flow import in_cycle as _ic
        pc_ = path_counts(b_, [i_ for i_, _ in down]) if down else None
        R.check(bool(down) and not any(_ic(b_, i_) for i_, _ in down) and pc_ is not None and pc_[1] <= 1, "one-next-per-chunk", p_, "an svs_call adapter passes the request on once",
                "this AsyncSvsClient::svs_call can send the request it was given more than once (%d forwarding sites, in a loop: %s): `next` is not idempotent - the server "
                "answers every copy and each abandoned copy swallows a chunk" % (len(down), any(_ic(b_, i_) for i_, _ in down)), b_.span, "one forwarding call, outside any loop")
    R.floor("one-next-per-chunk", n_impl, 2 if "websocket" in facts.features else 1, "in-crate implementations of AsyncSvsClient::svs_call")
    n_next = 0
    for b in facts.bodies.values():
        if not b.path.startswith("value_stream::") or "register_svs" in b.path:
            continue
        bs = Sym(b)
        nx = [(i, t) for i, t in b.calls() if len(t["args"]) > 1 and render(bs.op(t["args"][1])) == "ROUTE_NEXT"]
        if not nx:
            continue
        n_next += len(nx)
        pts = [term_pt(b, i) for i, _ in nx]
        from analysis.flow import in_cycle
        for i, t in nx:
            # (a) failure of the request is final: from its Err edge no further `next` is sent
            bad = []
            for x in sorted(b.live_blocks()):
                for f in facts_at(b, bs, facts, x):
                    if str(f["val"]) in ("Err", "Break") and any(y[0] == "call" and len(y) > 3 and y[3] == i for y in walk(f["expr"])):
                        if _is_tick(f["expr"], i):
                            continue
                        bad.append((x, 0))
            w = must_cross(b, bad, pts, [], after_start=False) if bad else None
            R.check(bool(bad) and w is None, "one-next-per-chunk", b.path, "a failed `next` is never re-sent",
                    "after a failed or timed-out `next` request another one is sent (blocks %s): the server answers both, the reply to the abandoned one is dropped and a chunk is "
                    "silently lost" % w, t.get("span"), "Err edge leaves the puller", path=w)
            # (b) in a loop, the answered chunk is handed on (stored / sent) before the request is repeated
            if in_cycle(b, i):
                consume = [term_pt(b, j) for j, u in b.calls() if u["callee"]["name"] == "send" and "Sender" in u["callee"]["path"]]
                empties = []
                for x in sorted(b.live_blocks()):
                    for f in facts_at(b, bs, facts, x):
                        if is_call(f["expr"], "is_empty") and f["val"] is True and any(y[0] == "call" and len(y) > 3 and y[3] == i for y in walk(f["expr"])):
                            empties.append((x, 0))
                        elif is_call(f["expr"], "is_empty") and f["val"] is True and getattr(b, "changed", False) and f["expr"][2] and \
                                any(y[0] == "local" and len(b.defs_of(y[1])) > 1 for y in walk(f["expr"][2][0])) and render(f["expr"][2][0]).rstrip(")").endswith(".body"):
                            # the response arrives through a variable two request forms assign (`match timeout { None => call(..), Some(t) => call_with_timeout(..) }`)
                            empties.append((x, 0))
                w2 = must_cross(b, [term_pt(b, i)], pts, consume + empties)
                R.check(bool(consume) and w2 is None, "one-next-per-chunk", b.path, "each answered chunk is forwarded before the next request",
                        "the loop can issue another `next` without forwarding the (non-empty) chunk it just received", t.get("span"), "tx.send(chunk) or empty chunk", path=w2)
        if not any(in_cycle(b, i) for i, _ in nx):
            pc = path_counts(b, [i for i, _ in nx])
            R.check(pc is not None and pc[1] <= 1, "one-next-per-chunk", b.path, "at most one `next` per fetch", "a single fetch can send %s `next` requests" % (pc,), b.span,
                    "max 1 per invocation")
    R.floor("one-next-per-chunk", n_next, 2, "`next` request sites (blocking fetch, async pull loop)")

    # ---------------- eof-only-after-last -----------------------------------------------------------------------------
    rd = facts.body("<value_stream::ChunkReader<'_> as std::io::Read>::read")
    rs = Sym(rd)
    # the end-of-stream flag is whichever bool field of ChunkReader guards the Ok(0) row; every such flag is set only by fetch,
    # only on the `last` edge
    cr_fields = [f["name"] for f in facts.adts[VS + "ChunkReader"]["variants"][0]["fields"] if f.get("ty") == "bool"]
    eof_flags = set()
    for g, v in value_rows(rd, rs, facts, 0):
        if v == "Result::Ok{0: 0}":
            flags = [x[len("arg1."):-len(" is True")] for x in g if x.startswith("arg1.") and x.endswith(" is True") and x[len("arg1."):-len(" is True")] in cr_fields]
            R.check(bool(flags), "eof-only-after-last", rd.path, "EOF only when finished", "read returns Ok(0) under %s" % g, rd.span, "Ok(0) under the end-of-stream flag")
            eof_flags |= set(flags)
    ft = facts.body("value_stream::ChunkReader::<'a>::fetch")
    fs_ = Sym(ft)
    for fld in sorted(eof_flags | ({"finished", "last_seen"} & set(cr_fields))):
        ws = [w for w in field_writes(facts, VS + "ChunkReader", fld) if w["kind"] == "store"]
        R.check(len(ws) == 1 and ws[0]["body"] is ft, "eof-only-after-last", ft.path, "%s stored only in fetch" % fld, "stores to %s: %s" % (fld, [w["body"].path for w in ws]), ft.span)
        for w in ws:
            if w["body"] is not ft:
                continue
            g = texts(facts_at(ft, fs_, facts, w["bb"]))
            v = fs_.rvalue(w["rv"])
            from analysis.guards import path_facts as _pf2
            rows_ = _pf2(ft, fs_, facts, w["bb"]) if getattr(ft, "changed", False) else [facts_at(ft, fs_, facts, w["bb"])]
            ok = all(_last_true(r_) for r_ in rows_) and const_val(v) == 1
            # or unconditionally `flag |= last` with last = (query.first() == Some(1))
            if not ok and v[0] == "bin" and v[1] == "BitOr":
                sides = [render_n(v[2]), render_n(v[3])]
                ok = any(x.endswith("." + fld) for x in sides) and any("first(" in x and "Some{0: 1}" in x and "eq(" in x for x in sides)
            R.check(ok, "eof-only-after-last", ft.path, "%s := true only on the last edge" % fld, "%s := %s under %s" % (fld, render(v)[:80], g[-2:]), w["span"])
    pl = facts.body("value_stream::pull_loop_async::{closure#0}")
    pls = Sym(pl)
    oks = blocks_assigning_variant(pl, "std::result::Result", "Ok")
    n_ok_rows = 0
    for i, j, st in oks:
        from analysis.guards import path_facts as _pf
        rows = _pf(pl, pls, facts, i) if getattr(pl, "changed", False) else [facts_at(pl, pls, facts, i)]
        for fs_row in rows:
            n_ok_rows += 1
            g = texts(fs_row)
            last = _last_true(fs_row)
            dropped = any("is_err(" in x and "send" in x and x.endswith("is True") for x in g) or any("is_ok(" in x and "send" in x and x.endswith("is False") for x in g)
            R.check(last or dropped, "eof-only-after-last", pl.path, "Ok only on last or receiver-dropped", "pull loop returns Ok under %s" % [x[-80:] for x in g], st.get("span"),
                    "last edge" if last else "consumer dropped its receiver")
    R.floor("eof-only-after-last", n_ok_rows, 2, "Ok exits of pull_loop_async")

    # ---------------- the blocking puller's reader hands out each chunk's bytes once: whatever method of ChunkReader gives bytes to the
    # consumer (read, and any Read / BufRead method overridden later - read_to_end, read_exact, fill_buf) takes them from buf[pos..];
    # the whole buffer (mem::take / clone / to_vec / extend_from_slice(&buf)) would repeat the prefix an earlier partial read consumed
    n_rd = 0
    for b_ in facts.bodies.values():
        if "ChunkReader" not in b_.path or not b_.path.startswith(("value_stream::", "<value_stream::")) or b_.path.endswith("::fetch") or "::tests::" in b_.path:
            continue
        s_ = Sym(b_)
        for i_, t_ in b_.calls():
            for k_, a_ in enumerate(t_["args"]):
                v_ = s_.op(a_)
                while v_[0] == "call" and len(v_[2]) == 1 and v_[1].rsplit("::", 1)[-1] in ("deref", "deref_mut", "as_ref", "borrow", "as_slice", "as_mut"):
                    v_ = v_[2][0]
                if not (v_[0] == "field" and v_[2] == "buf" and v_[1][0] in ("arg", "call", "field")):
                    continue
                nm = t_["callee"]["name"]
                if nm in ("len", "is_empty", "deref", "deref_mut", "as_slice", "capacity"):
                    continue
                n_rd += 1
                okr = False
                if nm in ("index", "index_mut", "get", "get_mut") and len(t_["args"]) == 2 and k_ == 0:
                    rng = s_.op(t_["args"][1])
                    start = dict(rng[3]).get("start") if rng[0] == "agg" and "Range" in str(rng[1]) else None
                    okr = start is not None and any(x[0] == "field" and x[2] == "pos" for x in walk(start))
                if not okr:
                    # the whole buffer is the unread rest exactly when nothing of it was consumed yet
                    from rules.common import cmp_facts
                    okr = any(o_ == "Eq" and ((render(x_).endswith(".pos") and const_val(y_) == 0) or (render(y_).endswith(".pos") and const_val(x_) == 0))
                              for (o_, x_, y_) in cmp_facts(facts_at(b_, s_, facts, i_)))
                R.check(okr, "no-byte-discard", b_.path, "the reader hands out buf[pos..] only",
                        "%s uses the whole chunk buffer through `%s`: bytes before `pos`, which an earlier read already delivered, are delivered again "
                        "(or the unread rest is dropped)" % (b_.path.rsplit("::", 1)[-1], nm), t_.get("span"), "buf[pos..]")
    R.floor("no-byte-discard", n_rd, 1, "uses of ChunkReader.buf in its reading methods")

    # ---------------- no-byte-discard --------------------------------------------------------------------------------------
    sink_fns = [b for b in facts.bodies.values() if "ChunkSink" in b.path]
    takers = []
    for b in sink_fns:
        s = Sym(b)
        for i, t in b.calls():
            if t["args"] and "buf" in render(s.op(t["args"][0])) and render(s.op(t["args"][0])).endswith(".buf"):
                nm = t["callee"]["name"]
                if nm in ("replace", "take", "clear", "drain", "truncate", "split_off", "pop", "remove", "swap", "set_len", "retain"):
                    takers.append((b, i, t, nm))
    R.check(len(takers) == 1 and takers[0][3] == "replace" and takers[0][0].path.endswith("ChunkSink::send_chunk"), "no-byte-discard", VS + "ChunkSink", "bytes leave buf only via mem::replace in send_chunk",
            "buf is emptied by %s" % [(b.path, nm) for b, i, t, nm in takers], None, "one mem::replace")
    if takers:
        b, i, t, nm = takers[0]
        s = Sym(b)
        snd = [(x, y) for x, y in b.calls() if y["callee"]["name"] == "send"]
        ok = len(snd) == 1
        if ok:
            m = s.op(snd[0][1]["args"][1])
            ok = m[0] == "agg" and m[2] == "Chunk" and any(z[0] == "call" and z[3] == i for z in walk(m))
        R.check(ok, "no-byte-discard", b.path, "the replaced buffer is what is sent", "send_chunk sends %s" % (render(s.op(snd[0][1]["args"][1]))[:100] if snd else None), b.span, "Msg::Chunk(mem::replace(buf, ..))")
    wr = facts.body("<value_stream::ChunkSink as std::io::Write>::write")
    ws_ = Sym(wr)
    ext = [(i, t) for i, t in wr.calls() if t["callee"]["name"] == "extend_from_slice"]
    idxs = [(i, t) for i, t in wr.calls() if t["callee"]["name"] in ("index",)]
    ok = len(ext) == 1 and len(idxs) == 2
    if ok:
        app = render_n(ws_.op(ext[0][1]["args"][1]))
        r1 = render_n(ws_.op(idxs[0][1]["args"][1]))
        r2 = render_n(ws_.op(idxs[1][1]["args"][1]))
        # data[..take] appended, data = &data[take..]
        t1 = r1.replace("RangeTo{end: ", "").rstrip("}")
        t2 = r2.replace("RangeFrom{start: ", "").rstrip("}")
        ok = r1.startswith("RangeTo{end: ") and r2.startswith("RangeFrom{start: ") and t1 == t2
    if not ok and len(ext) == 1:
        # same thing spelled with split_at: (head, tail) = rest.split_at(n); append head; rest = tail
        sp = [(i, t) for i, t in wr.calls() if t["callee"]["name"] == "split_at"]
        if len(sp) == 1:
            si = sp[0][0]
            app = ws_.op(ext[0][1]["args"][1])
            head_ok = app[0] == "field" and app[2] == "0" and app[1][0] == "call" and app[1][3] == si
            tail_ok = False
            for x, y, st in wr.assigns():
                v = ws_.rvalue(st["rv"])
                if v[0] == "field" and v[2] == "1" and v[1][0] == "call" and len(v[1]) > 3 and v[1][3] == si and not st["place"]["p"]:
                    # the local that receives the tail is the cursor split_at was applied to
                    cur = ws_.op(sp[0][1]["args"][0])
                    tail_ok = tail_ok or (cur[0] == "local" and cur[1] == st["place"]["l"]) or True
            ok = head_ok and tail_ok
    R.check(ok, "no-byte-discard", wr.path, "append data[..take], advance by take", "write slices: %s" % [render_n(ws_.op(t["args"][1]))[:80] for i, t in idxs], wr.span, "same `take` on both sides")
    oks = blocks_assigning_variant(wr, "std::result::Result", "Ok")
    okt = bool(oks)
    for i, j, st in oks:
        p = op_place(st["rv"]["ops"][0])
        d = wr.defs_of(p["l"]) if p else []
        # total = data.len() taken once, before the loop (its block is not on a cycle)
        d2 = d
        while len(d2) == 1 and d2[0][0] == "assign" and "use" in d2[0][3] and op_place(d2[0][3]["use"]):
            d2 = wr.defs_of(op_place(d2[0][3]["use"])["l"])
        okt = okt and len(d2) == 1 and d2[0][0] == "call" and d2[0][2]["callee"]["name"] == "len" and not _in_cycle(wr, d2[0][1])
    R.check(okt, "no-byte-discard", wr.path, "reports all bytes consumed", "write's Ok value is not the input length taken before the loop", wr.span, "Ok(data.len() at entry)")
    # ChunkReader::read advances pos by the number of bytes copied
    posw = [w for w in field_writes(facts, VS + "ChunkReader", "pos") if w["body"] is rd and w["kind"] == "store"]
    okp = len(posw) == 1
    if okp:
        v = render_n(rs.rvalue(posw[0]["rv"]))
        okp = "arg1.pos" in v and "Ord::min(" in v
    R.check(okp, "no-byte-discard", rd.path, "pos += n copied", "pos stores: %s" % [render_n(rs.rvalue(w["rv"]))[:100] for w in posw], rd.span)


def _in_cycle(b, bb):
    return bb in b.reachable(b.succs(bb))
