//! Minimal JSON value + writer (the driver has zero Cargo dependencies).
use std::fmt::Write;

#[derive(Clone, Debug)]
pub enum J {
    Null,
    Bool(bool),
    Int(i128),
    Str(String),
    Arr(Vec<J>),
    Obj(Vec<(String, J)>),
}

impl J {
    pub fn s<S: Into<String>>(s: S) -> J {
        J::Str(s.into())
    }
    pub fn obj() -> ObjB {
        ObjB(Vec::new())
    }
    pub fn write(&self, out: &mut String) {
        match self {
            J::Null => out.push_str("null"),
            J::Bool(b) => out.push_str(if *b { "true" } else { "false" }),
            J::Int(i) => {
                // JSON numbers beyond 2^53 lose precision in some readers; python is exact.
                let _ = write!(out, "{}", i);
            }
            J::Str(s) => write_str(s, out),
            J::Arr(v) => {
                out.push('[');
                for (i, x) in v.iter().enumerate() {
                    if i > 0 {
                        out.push(',');
                    }
                    x.write(out);
                }
                out.push(']');
            }
            J::Obj(v) => {
                out.push('{');
                for (i, (k, x)) in v.iter().enumerate() {
                    if i > 0 {
                        out.push(',');
                    }
                    write_str(k, out);
                    out.push(':');
                    x.write(out);
                }
                out.push('}');
            }
        }
    }
}

pub struct ObjB(Vec<(String, J)>);
impl ObjB {
    pub fn f<S: Into<String>>(mut self, k: S, v: J) -> Self {
        self.0.push((k.into(), v));
        self
    }
    pub fn done(self) -> J {
        J::Obj(self.0)
    }
}

fn write_str(s: &str, out: &mut String) {
    out.push('"');
    for c in s.chars() {
        match c {
            '"' => out.push_str("\\\""),
            '\\' => out.push_str("\\\\"),
            '\n' => out.push_str("\\n"),
            '\r' => out.push_str("\\r"),
            '\t' => out.push_str("\\t"),
            c if (c as u32) < 0x20 => {
                let _ = write!(out, "\\u{:04x}", c as u32);
            }
            c => out.push(c),
        }
    }
    out.push('"');
}
