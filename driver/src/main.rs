//! repe-facts-driver: a rustc_private driver that serialises the MIR (mir_built,
//! i.e. before coroutine lowering) and type tables of selected crates as JSON.
//!
//! Used as RUSTC_WORKSPACE_WRAPPER: argv[1] is the real rustc, dropped.
//! Environment:
//!   REPE_FACTS_DIR    directory to write fact files into (required for dumping)
//!   REPE_FACTS_CRATES comma separated crate names to dump (default "repe")
//!   REPE_FACTS_NONCE  copied into the fact file
//! The driver is a faithful serialiser; all rules live in /verif/analysis.
#![feature(rustc_private)]
#![allow(clippy::all)]

extern crate rustc_abi;
extern crate rustc_data_structures;
extern crate rustc_driver;
extern crate rustc_hir;
extern crate rustc_interface;
extern crate rustc_middle;
extern crate rustc_span;

mod json;
mod dump;

use rustc_driver::Compilation;
use rustc_interface::interface::Compiler;
use rustc_middle::ty::TyCtxt;

pub const DRIVER_VERSION: &str = "3";

struct Cb {
    crates: Vec<String>,
    dir: Option<String>,
}

impl rustc_driver::Callbacks for Cb {
    fn after_expansion<'tcx>(&mut self, _c: &Compiler, tcx: TyCtxt<'tcx>) -> Compilation {
        let name = tcx.crate_name(rustc_hir::def_id::LOCAL_CRATE).to_string();
        if let Some(dir) = &self.dir {
            if self.crates.iter().any(|c| c == &name) {
                dump::dump_crate(tcx, &name, dir);
            }
        }
        Compilation::Continue
    }
}

fn main() {
    let mut args: Vec<String> = std::env::args().collect();
    // RUSTC_WORKSPACE_WRAPPER: argv[1] is the path of the real rustc.
    if args.len() > 1 && (args[1].ends_with("rustc") || args[1].contains("/rustc")) {
        args.remove(1);
    }
    let crates = std::env::var("REPE_FACTS_CRATES").unwrap_or_else(|_| "repe".to_string());
    let mut cb = Cb {
        crates: crates.split(',').map(|s| s.trim().to_string()).collect(),
        dir: std::env::var("REPE_FACTS_DIR").ok(),
    };
    rustc_driver::run_compiler(&args, &mut cb);
}
