use crate::json::J;
use rustc_hir::def::DefKind;
use rustc_hir::def_id::{DefId, LocalDefId};
use rustc_middle::mir::*;
use rustc_middle::ty::print::with_no_trimmed_paths;
use rustc_middle::ty::{self, Instance, Ty, TyCtxt, TypeVisitableExt, TypingEnv};
use rustc_span::Span;

struct Cx<'tcx> {
    tcx: TyCtxt<'tcx>,
}

fn path_of(tcx: TyCtxt<'_>, did: DefId) -> String {
    with_no_trimmed_paths!(tcx.def_path_str(did))
}

fn ty_str(ty: Ty<'_>) -> String {
    with_no_trimmed_paths!(ty.to_string())
}

fn span_json(tcx: TyCtxt<'_>, sp: Span) -> J {
    let sm = tcx.sess.source_map();
    // For reports only: point at the user-written call site of expansions.
    let s = sp.source_callsite();
    let txt = sm.span_to_diagnostic_string(s);
    // "file:l:c: l:c" -> "file:l:c"
    let short = match txt.find(": ") {
        Some(i) => txt[..i].to_string(),
        None => txt,
    };
    if sp.from_expansion() {
        J::Str(format!("{}!", short))
    } else {
        J::Str(short)
    }
}

impl<'tcx> Cx<'tcx> {
    fn field_name(&self, pty: PlaceTy<'tcx>, f: rustc_abi::FieldIdx) -> String {
        let tcx = self.tcx;
        match pty.ty.kind() {
            ty::Adt(def, _) => {
                let v = match pty.variant_index {
                    Some(v) => def.variant(v),
                    None => {
                        if def.is_enum() {
                            return format!("{}", f.as_usize());
                        }
                        def.non_enum_variant()
                    }
                };
                match v.fields.get(f) {
                    Some(fd) => fd.name.to_string(),
                    None => format!("{}", f.as_usize()),
                }
            }
            ty::Closure(did, _) | ty::Coroutine(did, _) | ty::CoroutineClosure(did, _) => {
                if let Some(l) = did.as_local() {
                    let caps = tcx.closure_captures(l);
                    if let Some(c) = caps.get(f.as_usize()) {
                        return c.to_symbol().to_string();
                    }
                }
                format!("{}", f.as_usize())
            }
            _ => format!("{}", f.as_usize()),
        }
    }

    fn place(&self, body: &Body<'tcx>, p: &Place<'tcx>) -> J {
        let tcx = self.tcx;
        let mut pty = PlaceTy::from_ty(body.local_decls[p.local].ty);
        let mut proj = Vec::new();
        for elem in p.projection.iter() {
            let j = match elem {
                ProjectionElem::Deref => J::s("deref"),
                ProjectionElem::Field(f, _) => {
                    let mut o = J::obj()
                        .f("f", J::Str(self.field_name(pty, f)))
                        .f("i", J::Int(f.as_usize() as i128));
                    if let ty::Adt(def, _) = pty.ty.kind() {
                        o = o.f("a", J::Str(path_of(tcx, def.did())));
                    }
                    o.done()
                }
                ProjectionElem::Downcast(name, vi) => {
                    let n = match name {
                        Some(n) => n.to_string(),
                        None => match pty.ty.kind() {
                            ty::Adt(def, _) if def.is_enum() => def.variant(vi).name.to_string(),
                            _ => format!("{}", vi.as_usize()),
                        },
                    };
                    J::obj().f("variant", J::Str(n)).f("vi", J::Int(vi.as_usize() as i128)).done()
                }
                ProjectionElem::Index(l) => J::obj().f("index", J::Int(l.as_usize() as i128)).done(),
                ProjectionElem::ConstantIndex { offset, min_length, from_end } => J::obj()
                    .f("cindex", J::Int(offset as i128))
                    .f("min", J::Int(min_length as i128))
                    .f("from_end", J::Bool(from_end))
                    .done(),
                ProjectionElem::Subslice { from, to, from_end } => J::obj()
                    .f("subslice", J::Arr(vec![J::Int(from as i128), J::Int(to as i128)]))
                    .f("from_end", J::Bool(from_end))
                    .done(),
                other => J::obj().f("other", J::Str(format!("{:?}", other))).done(),
            };
            proj.push(j);
            pty = pty.projection_ty(tcx, elem);
        }
        J::obj().f("l", J::Int(p.local.as_usize() as i128)).f("p", J::Arr(proj)).done()
    }

    fn constant(&self, owner: LocalDefId, c: &ConstOperand<'tcx>) -> J {
        let tcx = self.tcx;
        let ty = c.const_.ty();
        let mut o = J::obj().f("ty", J::Str(ty_str(ty)));
        if let ty::FnDef(did, gargs) = *ty.kind() {
            o = o.f("fn", self.callee_json(owner, did, gargs));
            return J::obj().f("const", o.done()).done();
        }
        if let Const::Unevaluated(uv, _) = c.const_ {
            o = o.f("name", J::Str(path_of(tcx, uv.def)));
        }
        let evaluable = !c.const_.has_non_region_param() && !c.const_.has_infer();
        if evaluable && (ty.is_integral() || ty.is_bool() || ty.is_char()) {
            let env = TypingEnv::fully_monomorphized();
            if let Some(si) = c.const_.try_eval_scalar_int(tcx, env) {
                let size = si.size();
                let v: i128 = if ty.is_signed() {
                    si.to_int(size)
                } else {
                    si.to_uint(size) as i128
                };
                // u128 > i128::MAX is not expected in this crate
                o = o.f("v", J::Int(v));
            }
        } else if evaluable {
            if let Const::Val(val, vty) = c.const_ {
                if let ty::Ref(_, inner, _) = vty.kind() {
                    if inner.is_str() {
                        if let Some(b) = val.try_get_slice_bytes_for_diagnostics(tcx) {
                            o = o.f("str", J::Str(String::from_utf8_lossy(b).to_string()));
                        }
                    }
                }
            }
        }
        J::obj().f("const", o.done()).done()
    }

    fn operand(&self, owner: LocalDefId, body: &Body<'tcx>, op: &Operand<'tcx>) -> J {
        match op {
            Operand::Copy(p) => J::obj().f("copy", self.place(body, p)).done(),
            Operand::Move(p) => J::obj().f("move", self.place(body, p)).done(),
            Operand::Constant(c) => self.constant(owner, c),
            #[allow(unreachable_patterns)]
            other => J::obj().f("other", J::Str(format!("{:?}", other))).done(),
        }
    }

    fn callee_json(&self, owner: LocalDefId, did: DefId, gargs: ty::GenericArgsRef<'tcx>) -> J {
        let tcx = self.tcx;
        let mut o = J::obj().f("decl", J::Str(path_of(tcx, did)));
        let name = tcx.opt_item_name(did).map(|s| s.to_string()).unwrap_or_default();
        o = o.f("name", J::Str(name));
        let gargs_s: Vec<J> = gargs.iter().map(|a| J::Str(with_no_trimmed_paths!(a.to_string()))).collect();
        o = o.f("targs", J::Arr(gargs_s));
        if let Some(tr) = tcx.trait_of_assoc(did) {
            o = o.f("trait", J::Str(path_of(tcx, tr)));
            if gargs.len() > 0 {
                if let Some(t) = gargs.get(0).and_then(|a| a.as_type()) {
                    o = o.f("self_ty", J::Str(ty_str(t)));
                }
            }
        } else if let Some(imp) = tcx.impl_of_assoc(did) {
            let st = tcx.type_of(imp).instantiate_identity().skip_norm_wip();
            o = o.f("impl_self", J::Str(ty_str(st)));
        }
        // resolve
        let env = TypingEnv::post_analysis(tcx, owner);
        let erased = tcx.erase_and_anonymize_regions(gargs);
        let res = std::panic::catch_unwind(std::panic::AssertUnwindSafe(|| {
            if erased.has_infer() {
                return None;
            }
            match Instance::try_resolve(tcx, env, did, erased) {
                Ok(Some(inst)) => Some(inst),
                _ => None,
            }
        }));
        match res {
            Ok(Some(inst)) => {
                let kind = match inst.def {
                    ty::InstanceKind::Item(_) => "item",
                    ty::InstanceKind::Virtual(..) => "virtual",
                    ty::InstanceKind::Intrinsic(_) => "intrinsic",
                    ty::InstanceKind::ClosureOnceShim { .. } => "closure_once_shim",
                    ty::InstanceKind::FnPtrShim(..) => "fn_ptr_shim",
                    ty::InstanceKind::DropGlue(..) => "drop_glue",
                    ty::InstanceKind::CloneShim(..) => "clone_shim",
                    ty::InstanceKind::ReifyShim(..) => "reify_shim",
                    _ => "other",
                };
                o = o.f("path", J::Str(path_of(tcx, inst.def_id()))).f("kind", J::s(kind));
                if let Some(imp) = tcx.impl_of_assoc(inst.def_id()) {
                    let st = tcx.type_of(imp).instantiate_identity().skip_norm_wip();
                    o = o.f("res_impl_self", J::Str(ty_str(st)));
                }
            }
            _ => {
                o = o.f("path", J::Str(path_of(tcx, did))).f("kind", J::s("unresolved"));
            }
        }
        o.done()
    }

    fn rvalue(&self, owner: LocalDefId, body: &Body<'tcx>, rv: &Rvalue<'tcx>) -> J {
        let tcx = self.tcx;
        match rv {
            Rvalue::Use(op, ..) => J::obj().f("use", self.operand(owner, body, op)).done(),
            Rvalue::Repeat(op, n) => J::obj()
                .f("repeat", self.operand(owner, body, op))
                .f("n", J::Str(with_no_trimmed_paths!(n.to_string())))
                .done(),
            Rvalue::Ref(_, bk, p) => J::obj()
                .f("ref", self.place(body, p))
                .f("mut", J::Bool(matches!(bk, BorrowKind::Mut { .. })))
                .f("fake", J::Bool(matches!(bk, BorrowKind::Fake(_))))
                .done(),
            Rvalue::RawPtr(k, p) => J::obj()
                .f("rawptr", self.place(body, p))
                .f("kind", J::Str(format!("{:?}", k)))
                .done(),
            Rvalue::Cast(kind, op, ty) => J::obj()
                .f("cast", self.operand(owner, body, op))
                .f("kind", J::Str(format!("{:?}", kind)))
                .f("ty", J::Str(ty_str(*ty)))
                .done(),
            Rvalue::BinaryOp(op, ops) => J::obj()
                .f("bin", J::Str(format!("{:?}", op)))
                .f("a", self.operand(owner, body, &ops.0))
                .f("b", self.operand(owner, body, &ops.1))
                .done(),
            Rvalue::UnaryOp(op, a) => J::obj()
                .f("un", J::Str(format!("{:?}", op)))
                .f("a", self.operand(owner, body, a))
                .done(),
            Rvalue::Discriminant(p) => {
                let pty = p.ty(&body.local_decls, tcx).ty;
                let mut o = J::obj().f("discr", self.place(body, p)).f("ty", J::Str(ty_str(pty)));
                if let ty::Adt(def, _) = pty.kind() {
                    if def.is_enum() && def.variants().len() <= 64 {
                        let mut vs = Vec::new();
                        for (vi, v) in def.variants().iter_enumerated() {
                            let d = def.discriminant_for_variant(tcx, vi).val;
                            vs.push((format!("{}", d), J::Str(v.name.to_string())));
                        }
                        o = o.f("variants", J::Obj(vs));
                    }
                }
                o.done()
            }
            Rvalue::CopyForDeref(p) => J::obj().f("use", J::obj().f("copy", self.place(body, p)).done()).done(),
            Rvalue::Aggregate(kind, ops) => {
                let opsj: Vec<J> = ops.iter().map(|o| self.operand(owner, body, o)).collect();
                match &**kind {
                    AggregateKind::Array(t) => J::obj().f("agg", J::s("array")).f("elem_ty", J::Str(ty_str(*t))).f("ops", J::Arr(opsj)).done(),
                    AggregateKind::Tuple => J::obj().f("agg", J::s("tuple")).f("ops", J::Arr(opsj)).done(),
                    AggregateKind::Adt(did, vi, _, _, active) => {
                        let adt = tcx.adt_def(*did);
                        let v = adt.variant(*vi);
                        let mut names: Vec<J> = Vec::new();
                        if let Some(a) = active {
                            names.push(J::Str(v.fields[*a].name.to_string()));
                        } else {
                            for f in v.fields.iter() {
                                names.push(J::Str(f.name.to_string()));
                            }
                        }
                        J::obj()
                            .f("agg", J::s("adt"))
                            .f("adt", J::Str(path_of(tcx, *did)))
                            .f("variant", J::Str(v.name.to_string()))
                            .f("fields", J::Arr(names))
                            .f("ops", J::Arr(opsj))
                            .done()
                    }
                    AggregateKind::Closure(did, _) | AggregateKind::Coroutine(did, _) | AggregateKind::CoroutineClosure(did, _) => {
                        let mut names: Vec<J> = Vec::new();
                        if let Some(l) = did.as_local() {
                            for c in tcx.closure_captures(l) {
                                names.push(J::Str(c.to_symbol().to_string()));
                            }
                        }
                        let k = match &**kind {
                            AggregateKind::Closure(..) => "closure",
                            AggregateKind::Coroutine(..) => "coroutine",
                            _ => "coroutine_closure",
                        };
                        J::obj()
                            .f("agg", J::s(k))
                            .f("def", J::Str(path_of(tcx, *did)))
                            .f("fields", J::Arr(names))
                            .f("ops", J::Arr(opsj))
                            .done()
                    }
                    other => J::obj().f("agg", J::s("other")).f("dbg", J::Str(format!("{:?}", other))).f("ops", J::Arr(opsj)).done(),
                }
            }
            other => J::obj().f("other", J::Str(format!("{:?}", other))).done(),
        }
    }

    fn body(&self, def: LocalDefId, body: &Body<'tcx>, phase: &str) -> J {
        let tcx = self.tcx;
        let did = def.to_def_id();
        let dk = tcx.def_kind(did);
        let kind = match dk {
            DefKind::Fn => "fn",
            DefKind::AssocFn => "method",
            DefKind::Closure => {
                if tcx.is_coroutine(did) {
                    "coroutine"
                } else {
                    "closure"
                }
            }
            _ => "other",
        };
        let mut o = J::obj().f("kind", J::s(kind)).f("phase", J::s(phase));
        let parent = tcx.opt_local_parent(def).map(|p| path_of(tcx, p.to_def_id()));
        o = o.f("parent", parent.map(J::Str).unwrap_or(J::Null));
        if matches!(dk, DefKind::Fn | DefKind::AssocFn) {
            o = o.f("vis", J::Str(format!("{:?}", tcx.visibility(did))));
            o = o.f("is_async", J::Bool(tcx.asyncness(did).is_async()));
            if let Some(imp) = tcx.impl_of_assoc(did) {
                let st = tcx.type_of(imp).instantiate_identity().skip_norm_wip();
                o = o.f("impl_self", J::Str(ty_str(st)));
                if let Some(tr) = tcx.impl_opt_trait_ref(imp) {
                    o = o.f("impl_trait", J::Str(path_of(tcx, tr.skip_binder().def_id)));
                }
            }
            o = o.f("name", J::Str(tcx.item_name(did).to_string()));
        }
        if matches!(dk, DefKind::Closure) {
            let caps: Vec<J> = tcx.closure_captures(def).iter().map(|c| J::Str(c.to_symbol().to_string())).collect();
            o = o.f("captures", J::Arr(caps));
        }
        o = o.f("span", span_json(tcx, body.span));
        o = o.f("argc", J::Int(body.arg_count as i128));
        let locals: Vec<J> = body
            .local_decls
            .iter()
            .map(|d| {
                J::obj()
                    .f("ty", J::Str(ty_str(d.ty)))
                    .f("user", J::Bool(d.is_user_variable()))
                    .done()
            })
            .collect();
        o = o.f("locals", J::Arr(locals));
        let mut dbg = Vec::new();
        for v in body.var_debug_info.iter() {
            let val = match &v.value {
                VarDebugInfoContents::Place(p) => self.place(body, p),
                VarDebugInfoContents::Const(_) => J::Null,
            };
            dbg.push(J::obj().f("name", J::Str(v.name.to_string())).f("place", val).done());
        }
        o = o.f("debug", J::Arr(dbg));
        let mut blocks = Vec::new();
        for (_bb, data) in body.basic_blocks.iter_enumerated() {
            let mut stmts = Vec::new();
            for st in data.statements.iter() {
                match &st.kind {
                    StatementKind::Assign(b) => {
                        let (p, rv) = &**b;
                        stmts.push(
                            J::obj()
                                .f("k", J::s("assign"))
                                .f("place", self.place(body, p))
                                .f("rv", self.rvalue(def, body, rv))
                                .f("span", span_json(tcx, st.source_info.span))
                                .done(),
                        );
                    }
                    StatementKind::SetDiscriminant { place, variant_index } => {
                        stmts.push(
                            J::obj()
                                .f("k", J::s("setdiscr"))
                                .f("place", self.place(body, place))
                                .f("vi", J::Int(variant_index.as_usize() as i128))
                                .done(),
                        );
                    }
                    StatementKind::StorageLive(l) => {
                        stmts.push(J::obj().f("k", J::s("live")).f("l", J::Int(l.as_usize() as i128)).done());
                    }
                    StatementKind::StorageDead(l) => {
                        stmts.push(J::obj().f("k", J::s("dead")).f("l", J::Int(l.as_usize() as i128)).done());
                    }
                    _ => {}
                }
            }
            let term = data.terminator();
            let tj = self.terminator(def, body, term);
            blocks.push(
                J::obj()
                    .f("cleanup", J::Bool(data.is_cleanup))
                    .f("stmts", J::Arr(stmts))
                    .f("term", tj)
                    .done(),
            );
        }
        o = o.f("blocks", J::Arr(blocks));
        o.done()
    }

    fn unwind(&self, u: &UnwindAction) -> J {
        match u {
            UnwindAction::Cleanup(bb) => J::Int(bb.as_usize() as i128),
            UnwindAction::Continue => J::s("continue"),
            UnwindAction::Unreachable => J::s("unreachable"),
            UnwindAction::Terminate(_) => J::s("terminate"),
        }
    }

    fn terminator(&self, owner: LocalDefId, body: &Body<'tcx>, t: &Terminator<'tcx>) -> J {
        let tcx = self.tcx;
        let bbj = |b: BasicBlock| J::Int(b.as_usize() as i128);
        let sp = span_json(tcx, t.source_info.span);
        match &t.kind {
            TerminatorKind::Goto { target } => J::obj().f("k", J::s("goto")).f("target", bbj(*target)).done(),
            TerminatorKind::SwitchInt { discr, targets } => {
                let mut ts = Vec::new();
                for (v, b) in targets.iter() {
                    ts.push(J::Arr(vec![J::Int(v as i128), bbj(b)]));
                }
                J::obj()
                    .f("k", J::s("switch"))
                    .f("on", self.operand(owner, body, discr))
                    .f("on_ty", J::Str(ty_str(discr.ty(&body.local_decls, tcx))))
                    .f("targets", J::Arr(ts))
                    .f("otherwise", bbj(targets.otherwise()))
                    .f("span", sp)
                    .done()
            }
            TerminatorKind::UnwindResume => J::obj().f("k", J::s("resume")).done(),
            TerminatorKind::UnwindTerminate(_) => J::obj().f("k", J::s("terminate")).done(),
            TerminatorKind::Return => J::obj().f("k", J::s("return")).f("span", sp).done(),
            TerminatorKind::Unreachable => J::obj().f("k", J::s("unreachable")).done(),
            TerminatorKind::Drop { place, target, unwind, .. } => J::obj()
                .f("k", J::s("drop"))
                .f("place", self.place(body, place))
                .f("target", bbj(*target))
                .f("unwind", self.unwind(unwind))
                .f("span", sp)
                .done(),
            TerminatorKind::Call { func, args, destination, target, unwind, .. } => {
                let fty = func.ty(&body.local_decls, tcx);
                let callee = match *fty.kind() {
                    ty::FnDef(did, gargs) => self.callee_json(owner, did, gargs),
                    _ => J::obj()
                        .f("ptr", self.operand(owner, body, func))
                        .f("ty", J::Str(ty_str(fty)))
                        .f("path", J::s("<fn-pointer>"))
                        .f("decl", J::s("<fn-pointer>"))
                        .f("name", J::s(""))
                        .f("kind", J::s("ptr"))
                        .done(),
                };
                let aj: Vec<J> = args.iter().map(|a| self.operand(owner, body, &a.node)).collect();
                let at: Vec<J> = args.iter().map(|a| J::Str(ty_str(a.node.ty(&body.local_decls, tcx)))).collect();
                J::obj()
                    .f("k", J::s("call"))
                    .f("callee", callee)
                    .f("args", J::Arr(aj))
                    .f("arg_tys", J::Arr(at))
                    .f("dest", self.place(body, destination))
                    .f("target", target.map(bbj).unwrap_or(J::Null))
                    .f("unwind", self.unwind(unwind))
                    .f("span", sp)
                    .done()
            }
            TerminatorKind::Assert { cond, expected, msg, target, unwind } => {
                let m = match &**msg {
                    AssertKind::BoundsCheck { .. } => "bounds".to_string(),
                    AssertKind::Overflow(op, ..) => format!("overflow({:?})", op),
                    AssertKind::OverflowNeg(_) => "overflow(Neg)".to_string(),
                    AssertKind::DivisionByZero(_) => "div_zero".to_string(),
                    AssertKind::RemainderByZero(_) => "rem_zero".to_string(),
                    AssertKind::ResumedAfterReturn(_) => "resumed_after_return".to_string(),
                    AssertKind::ResumedAfterPanic(_) => "resumed_after_panic".to_string(),
                    other => format!("other:{:?}", std::mem::discriminant(other)),
                };
                J::obj()
                    .f("k", J::s("assert"))
                    .f("cond", self.operand(owner, body, cond))
                    .f("expected", J::Bool(*expected))
                    .f("msg", J::Str(m))
                    .f("target", bbj(*target))
                    .f("unwind", self.unwind(unwind))
                    .f("span", sp)
                    .done()
            }
            TerminatorKind::Yield { value, resume, drop, .. } => J::obj()
                .f("k", J::s("yield"))
                .f("value", self.operand(owner, body, value))
                .f("resume", bbj(*resume))
                .f("drop", drop.map(bbj).unwrap_or(J::Null))
                .f("span", sp)
                .done(),
            TerminatorKind::CoroutineDrop => J::obj().f("k", J::s("coroutine_drop")).done(),
            TerminatorKind::FalseEdge { real_target, imaginary_target } => J::obj()
                .f("k", J::s("false_edge"))
                .f("target", bbj(*real_target))
                .f("imaginary", bbj(*imaginary_target))
                .done(),
            TerminatorKind::FalseUnwind { real_target, unwind } => J::obj()
                .f("k", J::s("false_unwind"))
                .f("target", bbj(*real_target))
                .f("unwind", self.unwind(unwind))
                .done(),
            other => J::obj().f("k", J::s("other")).f("dbg", J::Str(format!("{:?}", other))).done(),
        }
    }
}

pub fn dump_crate<'tcx>(tcx: TyCtxt<'tcx>, crate_name: &str, dir: &str) {
    let cx = Cx { tcx };
    // 1. clone all bodies first (later queries steal them)
    let mut owners: Vec<LocalDefId> = Vec::new();
    for def in tcx.hir_body_owners() {
        let dk = tcx.def_kind(def.to_def_id());
        if matches!(dk, DefKind::Fn | DefKind::AssocFn | DefKind::Closure) {
            owners.push(def);
        }
    }
    let mut cloned: Vec<(LocalDefId, Option<Body<'tcx>>, &'static str)> = Vec::new();
    for def in owners.iter().copied() {
        let st = tcx.mir_built(def);
        if !st.is_stolen() {
            cloned.push((def, Some(st.borrow().clone()), "built"));
        } else {
            cloned.push((def, None, "stolen"));
        }
    }
    for entry in cloned.iter_mut() {
        if entry.1.is_none() {
            let (p, _) = tcx.mir_promoted(entry.0);
            if !p.is_stolen() {
                entry.1 = Some(p.borrow().clone());
                entry.2 = "promoted";
            }
        }
    }
    // 2. tables
    let mut adts = Vec::new();
    let mut impls = Vec::new();
    let mut traits = Vec::new();
    let mut consts = Vec::new();
    for ldid in tcx.hir_crate_items(()).definitions() {
        let did = ldid.to_def_id();
        match tcx.def_kind(did) {
            DefKind::Struct | DefKind::Enum | DefKind::Union => {
                let adt = tcx.adt_def(did);
                let mut vars = Vec::new();
                for (vi, v) in adt.variants().iter_enumerated() {
                    let fields: Vec<J> = v
                        .fields
                        .iter()
                        .map(|f| {
                            J::obj()
                                .f("name", J::Str(f.name.to_string()))
                                .f("ty", J::Str(ty_str(tcx.type_of(f.did).instantiate_identity().skip_norm_wip())))
                                .f("vis", J::Str(format!("{:?}", f.vis)))
                                .done()
                        })
                        .collect();
                    let discr = if adt.is_enum() {
                        J::Int(adt.discriminant_for_variant(tcx, vi).val as i128)
                    } else {
                        J::Null
                    };
                    vars.push(J::obj().f("name", J::Str(v.name.to_string())).f("discr", discr).f("fields", J::Arr(fields)).done());
                }
                let k = if adt.is_enum() {
                    "enum"
                } else if adt.is_union() {
                    "union"
                } else {
                    "struct"
                };
                adts.push((
                    path_of(tcx, did),
                    J::obj()
                        .f("kind", J::s(k))
                        .f("vis", J::Str(format!("{:?}", tcx.visibility(did))))
                        .f("variants", J::Arr(vars))
                        .done(),
                ));
            }
            DefKind::Impl { .. } => {
                let st = tcx.type_of(did).instantiate_identity().skip_norm_wip();
                let tr = tcx.impl_opt_trait_ref(did).map(|t| path_of(tcx, t.skip_binder().def_id));
                let mut methods = Vec::new();
                for it in tcx.associated_items(did).in_definition_order() {
                    if it.is_fn() {
                        methods.push((it.name().to_string(), J::Str(path_of(tcx, it.def_id))));
                    }
                }
                impls.push(
                    J::obj()
                        .f("trait", tr.map(J::Str).unwrap_or(J::Null))
                        .f("self_ty", J::Str(ty_str(st)))
                        .f("methods", J::Obj(methods))
                        .done(),
                );
            }
            DefKind::Trait => {
                let mut methods = Vec::new();
                for it in tcx.associated_items(did).in_definition_order() {
                    if it.is_fn() {
                        methods.push((
                            it.name().to_string(),
                            J::obj()
                                .f("path", J::Str(path_of(tcx, it.def_id)))
                                .f("has_default", J::Bool(it.defaultness(tcx).has_value()))
                                .done(),
                        ));
                    }
                }
                traits.push((path_of(tcx, did), J::Obj(methods)));
            }
            DefKind::Const { .. } | DefKind::AssocConst { .. } => {
                let ty = tcx.type_of(did).instantiate_identity().skip_norm_wip();
                let mut o = J::obj().f("ty", J::Str(ty_str(ty)));
                if (ty.is_integral() || ty.is_bool()) && tcx.generics_of(did).is_empty() && tcx.opt_parent(did).map_or(true, |p| tcx.generics_of(p).is_empty() || !matches!(tcx.def_kind(p), DefKind::Impl { .. } | DefKind::Trait)) {
                    let r = std::panic::catch_unwind(std::panic::AssertUnwindSafe(|| tcx.const_eval_poly(did)));
                    if let Ok(Ok(val)) = r {
                        if let Some(si) = val.try_to_scalar_int() {
                            let size = si.size();
                            let v: i128 = if ty.is_signed() { si.to_int(size) } else { si.to_uint(size) as i128 };
                            o = o.f("v", J::Int(v));
                        }
                    }
                }
                consts.push((path_of(tcx, did), o.done()));
            }
            _ => {}
        }
    }
    // 3. bodies
    let mut bodies = Vec::new();
    let mut missing = Vec::new();
    for (def, b, phase) in cloned.iter() {
        let p = path_of(tcx, def.to_def_id());
        match b {
            Some(b) => bodies.push((p, cx.body(*def, b, phase))),
            None => missing.push(J::Str(p)),
        }
    }
    let cfgs: Vec<J> = {
        let mut v: Vec<String> = tcx
            .sess
            .config
            .iter()
            .filter_map(|(k, val)| {
                if k.as_str() == "feature" {
                    val.map(|x| x.to_string())
                } else {
                    None
                }
            })
            .collect();
        v.sort();
        v.into_iter().map(J::Str).collect()
    };
    let root = J::obj()
        .f("crate", J::s(crate_name))
        .f("driver_version", J::s(crate::DRIVER_VERSION))
        .f("rustc", J::Str(rustc_interface::util::rustc_version_str().unwrap_or("?").to_string()))
        .f("nonce", J::Str(std::env::var("REPE_FACTS_NONCE").unwrap_or_default()))
        .f("features", J::Arr(cfgs))
        .f("is_test", J::Bool(tcx.sess.is_test_crate()))
        .f("adts", J::Obj(adts))
        .f("impls", J::Arr(impls))
        .f("traits", J::Obj(traits))
        .f("consts", J::Obj(consts))
        .f("missing_bodies", J::Arr(missing))
        .f("bodies", J::Obj(bodies))
        .done();
    let mut out = String::with_capacity(32 << 20);
    root.write(&mut out);
    let crate_types: Vec<String> = tcx.crate_types().iter().map(|t| format!("{:?}", t)).collect();
    let fname = format!(
        "{}/{}-{}-{}.json",
        dir,
        crate_name,
        crate_types.join("_").to_lowercase(),
        std::process::id()
    );
    let tmp = format!("{}.tmp", fname);
    std::fs::write(&tmp, out).expect("write facts");
    std::fs::rename(&tmp, &fname).expect("rename facts");
}
