#!/usr/bin/env python3
"""Regenerate /verif/MANIFEST.json from the rule modules present in /verif/rules."""
import importlib
import json
import os
import sys

VERIF = os.path.dirname(os.path.dirname(os.path.abspath(__file__)))
sys.path.insert(0, VERIF)

ALL = ["C%02d" % i for i in range(1, 20)]

NOT_BUILT_REASON = "static rules for this property are not built yet in this revision (see DESIGN.md section 3 for the planned clauses)"


def main():
    checks = []
    na = []
    for p in ALL:
        path = os.path.join(VERIF, "rules", p + ".py")
        if not os.path.exists(path):
            na.append({"property_id": p, "reason": NOT_BUILT_REASON})
            continue
        mod = importlib.import_module("rules." + p)
        if getattr(mod, "NOT_APPLICABLE", None):
            na.append({"property_id": p, "reason": mod.NOT_APPLICABLE})
            continue
        checks.append({
            "property_id": p,
            "quick_cmd": "./check %s --tier quick" % p,
            "thorough_cmd": "./check %s --tier thorough" % p,
            "evidence_file": "/verif/evidence/%s.json" % p,
            "replay_cmd_template": "cat {path}",
            "engine": "mir-rules",
            "level_claimed": {
                "category": "other",
                "text": getattr(mod, "LEVEL_TEXT", None) or (
                    "Static analysis: named structural conditions (necessary conditions of the behaviour, see "
                    "level_note) are decided at every site of the analysed feature configurations from the "
                    "compiler's MIR of /repo's working tree. Neither sampling nor a machine-checked proof of the "
                    "behaviour; the undecided clauses are listed in level_note."),
                "design_ref": "DESIGN.md section 3, " + p,
            },
            "level_note": mod.EXPLANATION + " Trusted: rustc MIR construction and callee resolution, the driver's "
                          "serialisation, the rule tables. Assumptions: " + "; ".join(getattr(mod, "ASSUMPTIONS", [])),
            "technique": getattr(mod, "TECHNIQUE", "static analysis of rustc MIR: " + ", ".join(getattr(mod, "RULES", []))
                                 if getattr(mod, "RULES", None) else "static analysis over rustc MIR (dominance, must-pass-through, provenance, field-write discipline)"),
        })
    man = {
        "version": 1,
        "setup_cmd": "./setup.sh",
        "hooks": {
            "guard": "repe_org_repe_rs_verif",
            "enable": "none needed: the checks read the compiler's MIR of the unmodified sources (RUSTC_WORKSPACE_WRAPPER=/verif/driver/... cargo +nightly check); no instrumentation exists in /repo",
            "baseline_off_cmd": "cd /repo && cargo test --workspace --no-fail-fast --offline",
            "source_commits": [],
            "add_only": True,
        },
        "engines": [
            {"name": "mir-rules", "path": "/verif/check", "serves_properties": [c["property_id"] for c in checks],
             "kind_free_text": "rustc_private fact dumper (driver/) + Python dataflow/graph rule library (analysis/, rules/)"},
        ],
        "checks": checks,
        "not_applicable": na,
        "notes": "Technique family: static analysis only. Every check rebuilds MIR facts from /repo's working tree "
                 "(content-hash cached under /verif/.cache). Known findings: /verif/known_findings.json.",
    }
    with open(os.path.join(VERIF, "MANIFEST.json"), "w") as f:
        json.dump(man, f, indent=1)
    print("checks:", [c["property_id"] for c in checks], "n/a:", [n["property_id"] for n in na])


if __name__ == "__main__":
    main()
