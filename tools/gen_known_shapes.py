#!/usr/bin/env python3
"""Freeze struct field lists and function parameter names/signatures of the reference tree (see analysis/canon.py)."""
import json, os, sys
V = os.path.dirname(os.path.dirname(os.path.abspath(__file__)))
sys.path.insert(0, V)
from analysis import build, canon, combinators
adts, fns, hashes, combs, callees, enums = {}, {}, {}, {}, {}, set()
for cfg in build.thorough_configs():
    fp, _ = build.build_facts(cfg)
    raw = json.load(open(fp))
    s = canon.shapes_of(raw)
    adts.update(s["adts"]); fns.update(s["fns"])
    enums.update(p_ for p_, a_ in raw["adts"].items() if a_.get("kind") == "enum")
    for p_, b_ in raw["bodies"].items():
        h = canon.body_hash(b_)
        if h not in hashes.setdefault(p_, []):
            hashes[p_].append(h)
        base_ = p_.split("::{closure")[0]
        for blk_ in b_["blocks"]:
            t_ = blk_["term"]
            if t_["k"] == "call" and t_["callee"]["path"] in raw["bodies"]:
                c_ = t_["callee"]["path"].split("::{closure")[0]
                if c_ != base_ and c_ not in callees.setdefault(base_, []):
                    callees[base_].append(c_)
        for k_, n_ in combinators.counts(b_, p_).items():
            combs.setdefault(p_, {})[k_] = max(n_, combs.get(p_, {}).get(k_, 0))
out = os.path.join(V, "rules", "spec", "known_shapes.json")
head = os.popen("git -C /repo rev-parse --short HEAD").read().strip()
json.dump({"reference_tree": head, "adts": adts, "fns": fns, "hashes": hashes, "combinators": combs, "callees": {k_: sorted(v_) for k_, v_ in callees.items()}, "enums": sorted(enums)}, open(out, "w"), indent=0)
print(len(adts), "structs,", len(fns), "functions ->", out)
