#!/usr/bin/env python3
"""tools/patch_to_corpus.py <seed-dir-name | path.diff> <entry-name> <rule|-> [<fn>] [--prop Cxx] [--benign] : turn a kept seed's patch.diff into a corpus
mutant (one old->new edit per hunk, anchored on the hunk's context lines) so that the thorough tier replays it on every run."""
import json, os, re, sys
root = os.path.dirname(os.path.dirname(os.path.abspath(__file__)))
argv = sys.argv[1:]
args = [a for k, a in enumerate(argv) if not a.startswith("--") and not (k > 0 and argv[k - 1] == "--prop")]
seed, name, rule = args[0], args[1], args[2]
fn = args[3] if len(args) > 3 else None
prop = seed.split("-")[0]
if "--prop" in sys.argv:
    prop = sys.argv[sys.argv.index("--prop") + 1]
ppath = seed if seed.endswith(".diff") else os.path.join(root, "seeded", seed, "patch.diff")
patch = open(ppath).read().split("\n")
kind = "benign" if "--benign" in sys.argv else "mutant"
edits = []
cur_file = None
i = 0
while i < len(patch):
    l = patch[i]
    if l.startswith("+++ b/"):
        cur_file = l[6:]
    elif l.startswith("@@") and cur_file and not cur_file.startswith("tests/"):
        old, new = [], []
        i += 1
        while i < len(patch) and not patch[i].startswith(("@@", "diff --git", "--- a/")):
            h = patch[i]
            if h.startswith("+"):
                new.append(h[1:])
            elif h.startswith("-"):
                old.append(h[1:])
            elif h.startswith(" ") or h == "":
                old.append(h[1:])
                new.append(h[1:])
            elif h.startswith("\\"):
                pass
            i += 1
        # trailing empty artefact of the final split
        while old and new and old[-1] == "" and new[-1] == "" and i >= len(patch):
            old.pop(); new.pop()
        src = open(os.path.join("/repo", cur_file)).read()
        o = "\n".join(old) + "\n"
        n = "\n".join(new) + "\n"
        # shrink the context until the anchor is unique (it is at least the hunk's own context)
        if src.count(o) != 1:
            sys.exit("hunk anchor not unique (%d) in %s" % (src.count(o), cur_file))
        edits.append({"file": cur_file, "old": o, "new": n})
        continue
    i += 1
cp = os.path.join(root, "corpus", prop + ".json")
corpus = json.load(open(cp))
corpus = [e for e in corpus if e["name"] != name]
exp = {"rule": rule}
if fn:
    exp["fn"] = fn
corpus.append({"name": name, "kind": kind, "edits": edits, "expect": exp} if kind == "mutant" else {"name": name, "kind": kind, "edits": edits})
json.dump(corpus, open(cp, "w"), indent=1)
print("added", name, "to", cp, "with", len(edits), "edits")
