#!/bin/bash
# tools/regress.sh : full regression of the checker itself (not a MANIFEST command):
#  1. all 19 quick checks on /repo must be silent, 2. every kept seed must still be reported, 3. every kept behaviour-preserving change
#  (benign/B..G refactorings and additive features, T repaired twins) must be silent.  The benign part runs in ${SHARDS:-3} shards.
cd /verif
echo "== unchanged tree"; for i in 01 02 03 04 05 06 07 08 09 10 11 12 13 14 15 16 17 18 19; do ./check C$i 2>&1 | tail -1 | grep -v "violations=0 " ; done
echo "== seeds"; tools/reverify_seeds.sh 2>&1 | grep -v "violations=[1-9]"
echo "== benign"
N=${SHARDS:-3}
ALL=($(ls benign))
for k in $(seq 0 $((N-1))); do
  ( for idx in "${!ALL[@]}"; do if [ $((idx % N)) -eq $k ]; then tools/try_benign.sh ${ALL[$idx]} 2>&1; fi; done > /tmp/regress.shard$k.$$ ) &
done
wait
cat /tmp/regress.shard*.$$ | grep "^==\|^rule=" | grep -B1 "^rule=" | grep "^==" | cut -c1-80
rm -f /tmp/regress.shard*.$$
echo "== done"
