#!/bin/bash
# tools/regress.sh : full regression of the checker itself (not a MANIFEST command):
#  1. all 19 quick checks on /repo must be silent, 2. every kept seed must still be reported, 3. benign refactorings: count alarms
cd /verif
echo "== unchanged tree"; for i in 01 02 03 04 05 06 07 08 09 10 11 12 13 14 15 16 17 18 19; do ./check C$i 2>&1 | tail -1 | grep -v "violations=0 " ; done
echo "== seeds"; tools/reverify_seeds.sh 2>&1 | grep -v "violations=[1-9]"
echo "== benign"; for b in $(ls benign); do tools/try_benign.sh $b 2>&1; done | grep "^==\|^rule=" | grep -B1 "^rule=" | grep "^==" | cut -c1-80
echo "== done"
