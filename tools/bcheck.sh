#!/bin/bash
# tools/bcheck.sh <BID> <k> <PROP> [-v] : apply benign/<BID>/benign-<k>.diff to a cached scratch copy and run one check on it
BID=$1; K=$2; P=$3; shift 3
T=/tmp/bscratch/$BID-$K
if [ ! -d $T ]; then mkdir -p $T; rsync -a --exclude target --exclude .git /repo/ $T/; (cd $T && patch -p1 -s < /verif/benign/$BID/benign-$K.diff) || echo PATCH-FAILED; fi
cd /verif && ./check $P --repo $T "$@" 2>&1 | grep -E "^rule=|^property=|Traceback|Error|VIOLATED|^  \[" | cut -c1-${W:-600}
