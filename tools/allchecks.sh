#!/bin/bash
# tools/allchecks.sh <repo-dir> : run all 19 quick checks against a scratch copy; print one line per property + violations
D=${1:-/repo}
cd /verif
# first call builds the facts once; the rest hit the cache
./check C01 --repo $D 2>&1 | grep -E "^rule=|^property=|BUILD|Traceback" | cut -c1-${W:-260}
for i in 02 03 04 05 06 07 08 09 10 11 12 13 14 15 16 17 18 19; do
  ( ./check C$i --repo $D 2>&1 | grep -E "^rule=|^property=|BUILD|Traceback" | cut -c1-${W:-260} > /tmp/allchecks.$$.C$i ) &
done
wait
for i in 02 03 04 05 06 07 08 09 10 11 12 13 14 15 16 17 18 19; do cat /tmp/allchecks.$$.C$i; rm -f /tmp/allchecks.$$.C$i; done
