#!/bin/bash
# tools/mut_to_corpus.sh <scratch-dir> <entry-name> <PROP> <rule> [fn] : store a hand-made mutant (a scratch copy of /repo with a benign
# change plus one breaking edit) as a corpus mutant: the diff against /repo's src becomes per-hunk edits (tools/patch_to_corpus.py)
D=$1; NAME=$2; PROP=$3; RULE=$4; FN=$5
P=/tmp/mut_to_corpus.$$.diff
(cd $D && for f in $(find src repe-derive -name '*.rs' 2>/dev/null); do if ! cmp -s $f /repo/$f; then diff -u /repo/$f $f | sed "1s#^--- .*#--- a/$f#; 2s#^+++ .*#+++ b/$f#"; fi; done) > $P
python3 /verif/tools/patch_to_corpus.py $P "$NAME" "$RULE" $FN --prop $PROP
rm -f $P
