#!/bin/bash
# tools/try_benign.sh <BID> : run all 19 quick checks on every behaviour-preserving refactoring in /tmp/seed/out-<BID>
BID=$1
for f in ${BDIR:-/verif/benign}/$BID/benign-*.diff; do
  k=$(basename $f .diff)
  T=$(mktemp -d /tmp/benign.XXXX)
  rsync -a --exclude target --exclude .git /repo/ $T/
  if ! (cd $T && patch -p1 -s < $f >/dev/null 2>&1); then echo "== $BID/$k PATCH-FAILED"; rm -rf $T; continue; fi
  echo "== $BID/$k: $(head -3 ${BDIR:-/verif/benign}/$BID/$k.md 2>/dev/null | tr '\n' ' ' | cut -c1-200)"
  W=${W:-420} /verif/tools/allchecks.sh $T | grep -v "violations=0"
  rm -rf $T
done
