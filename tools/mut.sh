#!/bin/bash
# tools/mut.sh <PROP> <patch-file|-> [extra check args]
# Apply a patch (or a sed script via MUT_SED="file::s/a/b/") to a scratch copy of /repo and run ./check on it.
set -u
PROP=$1; PATCH=$2; shift 2
S=$(mktemp -d /tmp/repemut.XXXXXX)
trap 'rm -rf "$S"' EXIT
rsync -a --exclude target --exclude .git /repo/ "$S/"
if [ "$PATCH" != "-" ]; then
  (cd "$S" && patch -p1 -s < "$PATCH") || { echo "PATCH-FAILED"; exit 3; }
fi
if [ -n "${MUT_PY:-}" ]; then
  (cd "$S" && python3 -c "$MUT_PY") || { echo "MUT_PY failed"; exit 3; }
fi
cd /verif && ./check "$PROP" --repo "$S" "$@"
