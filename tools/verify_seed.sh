#!/bin/bash
# tools/verify_seed.sh <ID> : independently confirm a sub-agent's seeded change in its worktree /tmp/seed/<ID>
#  - builds all features, runs the unchanged workspace test suite with the change,
#  - runs the demo with the change (must fail) and without it (must pass),
#  - runs /verif checks against the changed tree,
#  - stores /verif/seeded/<ID>/{patch.diff, demo, meta.json}
set -u
ID=$1; N=${2:-1}
W=/tmp/seed/$ID; T=/tmp/seed/target-$ID
OUT=/verif/seeded/$ID-$N; mkdir -p $OUT
cd $W || exit 3
git diff > $OUT/patch.diff
DEMO=$(ls tests/seed_${ID}_demo.rs 2>/dev/null | head -1)
[ -n "$DEMO" ] && cp $DEMO $OUT/
cp SEED_NOTES.md $OUT/ 2>/dev/null
export CARGO_TARGET_DIR=$T CARGO_NET_OFFLINE=true
B=$(cargo build --offline --all-features 2>&1 | tail -1)
mv $DEMO /tmp/seed/$ID.demo.rs
SUITE=$(cargo test --workspace --no-fail-fast --offline 2>&1 | grep -E "^test result" | awk '{p+=$4; f+=$6} END {print p" passed "f" failed"}')
mv /tmp/seed/$ID.demo.rs $DEMO
WITH=$(cargo test --offline --all-features --test seed_${ID}_demo 2>&1 | grep -E "^test result" | tail -1)
git diff > /tmp/seed/$ID.verify.patch; git apply -R /tmp/seed/$ID.verify.patch
WITHOUT=$(cargo test --offline --all-features --test seed_${ID}_demo 2>&1 | grep -E "^test result" | tail -1)
git apply /tmp/seed/$ID.verify.patch
echo "build: $B"; echo "suite(with change): $SUITE"; echo "demo with change: $WITH"; echo "demo without: $WITHOUT"
cd /verif
RES=""
for P in ${CHECKS:-$ID}; do
  R=$(./check $P --repo $W 2>&1 | grep -E "^rule=|^property=" | cut -c1-400)
  echo "--- check $P"; echo "$R"
  RES="$RES\n$P: $(echo "$R" | grep -c '^rule=') violation(s)"
done
python3 - "$ID" "$N" "$B" "$SUITE" "$WITH" "$WITHOUT" <<'PY'
import json,sys,subprocess
ID,N,B,SUITE,WITH,WITHOUT=sys.argv[1:7]
out='/verif/seeded/%s-%s'%(ID,N)
meta={"property":ID,"origin":"fresh sub-agent given only the property text and a scratch worktree (no access to /verif)",
 "verified_by_me":{"build_all_features":B,"existing_suite_with_change":SUITE,"demo_with_change":WITH,"demo_without_change":WITHOUT},
 "commands":["cargo build --offline --all-features","cargo test --workspace --no-fail-fast --offline","cargo test --offline --all-features --test seed_%s_demo (with / without the src change via git stash)"%ID,"./check <ID> --repo <worktree>"]}
json.dump(meta,open(out+'/meta.json','w'),indent=1)
PY
