#!/usr/bin/env python3
"""Pretty-print a function's MIR facts: tools/show.py <path-substring> [--full]"""
import os
import sys

sys.path.insert(0, os.path.dirname(os.path.dirname(os.path.abspath(__file__))))
from analysis import build, mir  # noqa
from analysis.mir import fmt_place, fmt_op


def fmt_rv(rv):
    if "use" in rv:
        return fmt_op(rv["use"])
    if "ref" in rv:
        return ("&mut " if rv["mut"] else "&") + fmt_place(rv["ref"])
    if "bin" in rv:
        return "%s(%s, %s)" % (rv["bin"], fmt_op(rv["a"]), fmt_op(rv["b"]))
    if "un" in rv:
        return "%s(%s)" % (rv["un"], fmt_op(rv["a"]))
    if "cast" in rv:
        return "%s as %s [%s]" % (fmt_op(rv["cast"]), rv["ty"], rv["kind"])
    if "discr" in rv:
        return "discr(%s)" % fmt_place(rv["discr"])
    if "agg" in rv:
        k = rv["agg"]
        if k == "adt":
            return "%s::%s{%s}" % (rv["adt"], rv["variant"], ", ".join("%s: %s" % (n, fmt_op(o)) for n, o in zip(rv["fields"], rv["ops"])))
        if k in ("closure", "coroutine", "coroutine_closure"):
            return "%s %s{%s}" % (k, rv["def"], ", ".join("%s: %s" % (n, fmt_op(o)) for n, o in zip(rv["fields"], rv["ops"])))
        return "%s(%s)" % (k, ", ".join(fmt_op(o) for o in rv["ops"]))
    if "repeat" in rv:
        return "[%s; %s]" % (fmt_op(rv["repeat"]), rv["n"])
    if "rawptr" in rv:
        return "&raw " + fmt_place(rv["rawptr"])
    return str(rv)


def show(b, full=False):
    print("fn %s  kind=%s argc=%d span=%s" % (b.path, b.kind, b.argc, b.span))
    names = {}
    for v in b.d.get("debug", []):
        if v.get("place"):
            names.setdefault(fmt_place(v["place"]), v["name"])
    for i, l in enumerate(b.locals):
        nm = names.get("_%d" % i)
        if full or nm or i <= b.argc:
            print("  let _%d: %s%s" % (i, l["ty"], ("  // " + nm) if nm else ""))
    for k, v in names.items():
        if not k.startswith("_") or "." in k or "*" in k:
            print("  debug %s => %s" % (v, k))
    live = b.live_blocks(True)
    for i, bl in enumerate(b.blocks):
        if i not in live:
            continue
        print(" bb%d%s:" % (i, " (cleanup)" if bl["cleanup"] else ""))
        for s in bl["stmts"]:
            if s["k"] == "assign":
                print("    %s = %s" % (fmt_place(s["place"]), fmt_rv(s["rv"])))
            elif full:
                print("    %s(_%s)" % (s["k"], s.get("l", fmt_place(s["place"]) if "place" in s else "")))
        t = bl["term"]
        k = t["k"]
        if k == "call":
            c = t["callee"]
            print("    %s = %s(%s) -> bb%s unwind %s   [%s%s] %s" % (
                fmt_place(t["dest"]), c["path"], ", ".join(fmt_op(a) for a in t["args"]), t["target"], t["unwind"],
                c["kind"], (" self=" + c["self_ty"]) if c.get("self_ty") else "", t.get("span", "")))
        elif k == "switch":
            print("    switch %s [%s] otherwise bb%d" % (fmt_op(t["on"]), ", ".join("%d->bb%d" % (v, bb) for v, bb in t["targets"]), t["otherwise"]))
        elif k == "assert":
            print("    assert(%s == %s, %s) -> bb%d" % (fmt_op(t["cond"]), t["expected"], t["msg"], t["target"]))
        elif k == "drop":
            print("    drop(%s) -> bb%d unwind %s" % (fmt_place(t["place"]), t["target"], t["unwind"]))
        elif k == "yield":
            print("    yield(%s) -> resume bb%d drop bb%s" % (fmt_op(t["value"]), t["resume"], t["drop"]))
        elif k in ("goto", "false_edge", "false_unwind"):
            print("    %s -> bb%d" % (k, t["target"]))
        else:
            print("    " + k)


if __name__ == "__main__":
    pat = sys.argv[1]
    full = "--full" in sys.argv
    feats = build.FULL
    p, _ = build.build_facts(feats)
    f = mir.Facts(p)
    hits = [k for k in f.bodies if pat in k]
    exact = [k for k in hits if k == pat]
    if exact:
        hits = exact
    if len(hits) > 1 and "--all" not in sys.argv:
        print("\n".join(hits))
    else:
        for h in hits:
            show(f.bodies[h], full)
