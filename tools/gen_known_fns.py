#!/usr/bin/env python3
"""Freeze the list of in-crate function paths of the reference tree (used only to decide which functions are
*new* and get virtually inlined, see analysis/inline.py).  Run on the reference tree: python3 tools/gen_known_fns.py"""
import json, os, sys
V = os.path.dirname(os.path.dirname(os.path.abspath(__file__)))
sys.path.insert(0, V)
from analysis import build
fns = set()
for cfg in build.thorough_configs():
    fp, _ = build.build_facts(cfg)
    with open(fp) as f:
        d = json.load(f)
    fns.update(p for p in d["bodies"] if "{closure" not in p)
    fns.update(d.get("missing_bodies", []) if isinstance(d.get("missing_bodies"), list) else [])
out = os.path.join(V, "rules", "spec", "known_fns.json")
head = os.popen("git -C /repo rev-parse --short HEAD").read().strip()
json.dump({"reference_tree": head, "functions": sorted(fns)}, open(out, "w"), indent=0)
print(len(fns), "functions ->", out)
