#!/usr/bin/env python3
"""Regenerate the rule-inventory table of DESIGN.md (section 10.3) and the seeded-change matrix (10.5)
from evidence/*.json, corpus/*.json and seeded/*/meta.json.  Text between the markers is replaced."""
import glob
import json
import os
import re

V = os.path.dirname(os.path.dirname(os.path.abspath(__file__)))


def inventory():
    out = ["| property | rules armed | distinct non-trivial instances | corpus mutants (all must be reported) | benign variants (all must be silent) |",
           "|---|---|---|---|---|"]
    for i in range(1, 20):
        p = "C%02d" % i
        ev = json.load(open(os.path.join(V, "evidence", p + ".json")))
        cov = ev["coverage"]
        rules = re.search(r"Rules applied: (.*)$", cov["rule"]).group(1)
        corpus = json.load(open(os.path.join(V, "corpus", p + ".json")))
        mut = [e["name"] for e in corpus if e["kind"] == "mutant"]
        ben = [e["name"] for e in corpus if e["kind"] != "mutant"]
        out.append("| %s | %s | %d | %d: %s | %d%s |" % (
            p, rules, cov["distinct_nontrivial"], len(mut), ", ".join("`%s`" % m for m in mut),
            len(ben), (": " + ", ".join("`%s`" % b for b in ben)) if ben else ""))
    return "\n".join(out)


def seeds():
    out = ["| seed | change (what the sub-agent did) | needs to manifest | verdict of the checks |", "|---|---|---|---|"]
    for d in sorted(glob.glob(os.path.join(V, "seeded", "*"))):
        m = json.load(open(os.path.join(d, "meta.json")))
        cell = lambda s: str(s or "").replace("|", "\\|").replace("\n", " ")
        out.append("| %s | %s | %s | %s |" % (os.path.basename(d), cell(m.get("change")), cell(m.get("needs_to_manifest")),
                                            cell(m.get("detection"))))
    return "\n".join(out)


def main():
    path = os.path.join(V, "DESIGN.md")
    s = open(path).read()
    for tag, gen in (("inventory", inventory), ("seeds", seeds)):
        b, e = "<!-- %s:begin -->" % tag, "<!-- %s:end -->" % tag
        if b in s and e in s:
            s = s[:s.index(b) + len(b)] + "\n" + gen() + "\n" + s[s.index(e):]
        else:
            print("marker %s missing" % tag)
    open(path, "w").write(s)


if __name__ == "__main__":
    main()
