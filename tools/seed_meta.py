#!/usr/bin/env python3
"""tools/seed_meta.py <seed-dir-name> <change> <needs_to_manifest> <detection> : fill the hand-written meta.json fields."""
import json, sys, os
d = os.path.join(os.path.dirname(os.path.dirname(os.path.abspath(__file__))), "seeded", sys.argv[1], "meta.json")
m = json.load(open(d))
m["change"], m["needs_to_manifest"], m["detection"] = sys.argv[2:5]
json.dump(m, open(d, "w"), indent=1)
