#!/bin/bash
# tools/reverify_seeds.sh [seed-dir-name ...] : apply every kept seeded change to a scratch copy of /repo's current
# tree and re-run the property's quick check on it; prints "<seed> violations=N rules=..." (N must be > 0).
cd /verif
S=${@:-$(ls seeded)}
for d in $S; do
  P=${d%%-*}
  T=$(mktemp -d /tmp/reseed.XXXX)
  rsync -a --exclude target --exclude .git /repo/ $T/
  if ! (cd $T && patch -p1 -s < /verif/seeded/$d/patch.diff >/dev/null 2>&1); then echo "$d PATCH-FAILED"; rm -rf $T; continue; fi
  OUT=$(./check $P --repo $T 2>&1)
  N=$(echo "$OUT" | grep -c "^VIOLATION")
  RULES=$(echo "$OUT" | grep "^rule=" | sed 's/ fn=.*//' | sort | uniq -c | tr '\n' ' ')
  echo "$d violations=$N $RULES"
  rm -rf $T
done
