#!/bin/bash
# tools/save_twin.sh <ID> <k> : store the repaired copy (/tmp/twin/<ID>) of a seeded change (/tmp/seed/<ID> worktree) as a
# behaviour-preserving refactoring benign/T<nn>/benign-<k>.diff ("seed minus the bug": same restructuring, hidden difference removed)
ID=$1; K=${2:-1}; N=${ID#C}
W=/tmp/seed/$ID; T=/tmp/twin/$ID
mkdir -p /verif/benign/T$N
cd $W || exit 1
git diff > /tmp/twin/$ID.seed.patch
for f in $(cd $T && find src repe-derive -name '*.rs' 2>/dev/null); do cmp -s $T/$f $W/$f || cp $T/$f $W/$f; done
git diff > /verif/benign/T$N/benign-$K.diff
git checkout -- . && git apply /tmp/twin/$ID.seed.patch
echo "twin of seed $ID (round ${ROUND:-5}): the same restructuring with the hidden behavioural difference removed" > /verif/benign/T$N/benign-$K.md
wc -l /verif/benign/T$N/benign-$K.diff
