"""A6 (symbolic edge facts) and A9 (field-write discipline)."""
from .flow import edge_facts_at, enum_variants
from .mir import op_place, callee_matches
from .sym import Sym, render


def _resolve_bool_local(body, sym, facts, l, val, unwind, depth):
    defs = body.defs_of(l)
    consts = {}
    for d in defs:
        if d[0] != "assign" or "use" not in d[3]:
            return []
        c = d[3]["use"].get("const")
        if c is None or "v" not in c or c["v"] not in (0, 1):
            return []
        if c["v"] in consts:
            return []
        consts[c["v"]] = d[1]
    if set(consts) != {0, 1}:
        return []
    f1 = _facts_at_raw(body, sym, facts, consts[1], unwind, depth)
    f0 = _facts_at_raw(body, sym, facts, consts[0], unwind, depth)
    k0 = {(f["switch"], str(f["val"])) for f in f0}
    extra = [f for f in f1 if (f["switch"], str(f["val"])) not in k0]
    if len(extra) != 1:
        return []
    f = extra[0]
    # the false-arm must come from the same switch
    sw0 = [x for x in f0 if x["switch"] == f["switch"]]
    if val is True:
        return [dict(f, text=f["text"] + " (via bool local)")]
    if sw0:
        return [dict(x, text=x["text"] + " (via bool local)") for x in sw0]
    return []


def _facts_at_raw(body, sym, facts, bb, unwind=False, _depth=0):
    """Symbolic facts carried by the switch edges that dominate block bb.
    Each fact: {'expr': sym-expr, 'val': True|False|variant-name|('not', [names])|int, 'text': str, 'switch': bb}"""
    out = []
    for s, vals, succ in edge_facts_at(body, bb, unwind):
        out.extend(_edge_fact_dicts(body, sym, facts, s, vals, unwind, _depth))
    return out


def _edge_fact_dicts(body, sym, facts, s, vals, unwind=False, _depth=0):
    """facts that hold when switch block s is left through an edge carrying one of `vals` (None = otherwise)"""
    out = []
    t = body.term(s)
    e = sym.switch_on(s) if hasattr(sym, "switch_on") else sym.op(t["on"])
    ty = t.get("on_ty", "")
    explicit = [v for v, _ in t["targets"]]
    if ty == "bool":
        if vals == {0}:
            val = False
        elif vals == {None} and explicit == [0]:
            val = True
        elif vals == {1}:
            val = True
        elif vals == {None} and explicit == [1]:
            val = False
        else:
            return out
        # normalise Not
        while e[0] == "un" and e[1] == "Not":
            e = e[2]
            val = not val
        out.append({"expr": e, "val": val, "text": "%s is %s" % (render(e), val), "switch": s})
        # `matches!`-style idiom: a bool local assigned `true` on one arm of a switch and `false` on the others
        if e[0] == "local" and _depth < 3:
            for g2 in _resolve_bool_local(body, sym, facts, e[1], val, unwind, _depth + 1):
                out.append(g2)
    elif e[0] == "discr":
        base = e[1]
        # find the enum type of the place whose discriminant was read
        vmap = _variants_for_discr(body, facts, t, s)
        if vmap is None:
            names = None
        else:
            if None in vals:
                names = [n for d, n in vmap.items() if d not in explicit]
                names += [vmap[v] for v in vals if v is not None and v in vmap]
            else:
                names = [vmap.get(v, str(v)) for v in vals]
        if names is not None and len(names) == 1:
            out.append({"expr": base, "val": names[0], "text": "%s is %s" % (render(base), names[0]), "switch": s})
        elif names:
            out.append({"expr": base, "val": ("in", sorted(names)), "text": "%s in %s" % (render(base), sorted(names)), "switch": s})
    else:
        if None in vals:
            out.append({"expr": e, "val": ("notin", sorted(explicit)), "text": "%s not in %s" % (render(e), explicit), "switch": s})
        else:
            out.append({"expr": e, "val": ("in", sorted(vals)), "text": "%s in %s" % (render(e), sorted(vals)), "switch": s})
    return out


def _merged_facts(body, sym, facts):
    """Forward must-analysis: facts available at the entry of each block = intersection over its predecessors of
    (facts at the predecessor + the fact of the connecting switch edge), identified by their text.  This keeps a
    fact at a join when every incoming path established it (through different but equivalent tests - e.g. the
    copies made by jump threading, or `if a {..} else if b {..}` arms that meet again)."""
    cache = body.__dict__.setdefault("_facts_cache", {})
    if "merged" in cache:
        return cache["merged"]
    cache["merged"] = {}
    live = body.live_blocks()
    IN = {0: {}}
    work = [0]
    guard = 0
    while work and guard < 20000:
        guard += 1
        b = work.pop()
        cur = IN[b]
        t = body.term(b)
        by_target = None
        if t["k"] == "switch":
            by_target = {}
            for v, x in t["targets"]:
                by_target.setdefault(x, set()).add(v)
            by_target.setdefault(t["otherwise"], set()).add(None)
        for succ in body.succs(b):
            if succ not in live:
                continue
            out = cur
            if by_target is not None and succ in by_target:
                extra = _edge_fact_dicts(body, sym, facts, b, by_target[succ], False, 1)
                if extra:
                    out = dict(cur)
                    for f in extra:
                        out.setdefault(f["text"], f)
            if succ not in IN:
                IN[succ] = dict(out)
                work.append(succ)
            else:
                old = IN[succ]
                new = {k: v for k, v in old.items() if k in out}
                if len(new) != len(old):
                    IN[succ] = new
                    work.append(succ)
    cache["merged"] = IN
    return IN


_BRANCH_WANTS = {"Continue": ("Ok", "Some"), "Break": ("Err", "None")}


def _def_local(body, d):
    if d[0] == "assign":
        return body.blocks[d[1]]["stmts"][d[2]]["place"]["l"]
    return d[2]["dest"]["l"]


def _def_variant(body, d):
    """variant produced by one definition of a local: 'Ok'/'Err'/... or None when unknown"""
    if d[0] == "assign":
        rv = d[3]
        if rv.get("agg") == "adt" and isinstance(rv.get("variant"), str):
            return rv["variant"]
        if "use" in rv and rv["use"].get("const") is not None and rv["use"]["const"].get("v") in (0, 1) and body.local_ty(_def_local(body, d)) == "bool":
            return bool(rv["use"]["const"]["v"])
        return None
    t = d[2]
    if t["callee"]["name"] == "from_residual":
        ty = body.local_ty(t["dest"]["l"]) if not t["dest"]["p"] else ""
        return "Err" if ty.startswith("std::result::Result<") else "None" if ty.startswith("std::option::Option<") else None
    return None


def _origin_chains(body, l, wants, depth=0, seen=None):
    """Chains of definition blocks through which local `l` can have received a value of one of the variants `wants`
    (following whole-local moves and `Variant(payload)` wrap/unwrap pairs).  Every block of a chain was executed on
    the path that produced the value."""
    seen = set() if seen is None else seen
    if depth > 10 or (l, wants) in seen:
        return [()]
    seen = seen | {(l, wants)}
    out = []
    for d in body.defs_of(l):
        v = _def_variant(body, d)
        if v is not None:
            if wants is None or v in wants:
                out.append((d[1],))
            continue
        if d[0] == "assign" and "use" in d[3]:
            p = op_place(d[3]["use"])
            if p is not None and not p["p"]:
                out += [(d[1],) + c for c in _origin_chains(body, p["l"], wants, depth + 1, seen)]
                continue
            if p is not None and len(p["p"]) == 2 and isinstance(p["p"][0], dict) and "variant" in p["p"][0] \
                    and isinstance(p["p"][1], dict) and p["p"][1].get("i") == 0:
                out += [(d[1],) + c for c in _payload_origin_chains(body, p["l"], p["p"][0]["variant"], wants, depth + 1, seen)]
                continue
        out.append((d[1],))
    return out


def _payload_origin_chains(body, x, variant, wants, depth, seen):
    """definitions feeding the payload of `x` when x is `variant(payload)`"""
    if depth > 10:
        return [()]
    out = []
    for d in body.defs_of(x):
        if d[0] == "assign":
            rv = d[3]
            if rv.get("agg") == "adt" and rv.get("variant") == variant and rv.get("ops"):
                q = op_place(rv["ops"][0])
                if q is not None and not q["p"]:
                    out += [(d[1],) + c for c in _origin_chains(body, q["l"], wants, depth + 1, seen)]
                else:
                    out.append((d[1],))
                continue
            if rv.get("agg") == "adt" and isinstance(rv.get("variant"), str):
                continue    # another variant: not this payload
            if "use" in rv:
                p = op_place(rv["use"])
                if p is not None and not p["p"]:
                    out += [(d[1],) + c for c in _payload_origin_chains(body, p["l"], variant, wants, depth + 1, seen)]
                    continue
        out.append((d[1],))
    return out


def facts_at(body, sym, facts, bb, unwind=False, _depth=0):
    """Symbolic facts that hold on every path reaching block bb: the facts carried by the dominating switch edges,
    plus what follows from them for multiply-defined values (see fact_alternatives) when every definition that can
    have produced the observed variant agrees on it."""
    base = _facts_at_raw(body, sym, facts, bb, unwind, _depth)
    if unwind or _depth:
        return base
    key = ("facts_at", bb)
    cache = body.__dict__.setdefault("_facts_cache", {})
    if key in cache:
        return cache[key]
    cache[key] = base      # re-entrancy guard
    have0 = {f["text"] for f in base}
    merged = _merged_facts(body, sym, facts).get(bb) or {}
    base = base + [dict(f, merged=True) for k, f in merged.items() if k not in have0]
    alts = _alternatives(body, sym, facts, bb, base, 8)
    out = base
    if alts and alts != [base]:
        common = None
        for alt in alts:
            texts_ = {f["text"]: f for f in alt[len(base):]}
            common = texts_ if common is None else {k: v for k, v in common.items() if k in texts_}
        have = {f["text"] for f in base}
        out = base + [dict(v, derived=True) for k, v in (common or {}).items() if k not in have]
    cache[key] = out
    return out


def _fact_key(f):
    try:
        hash(f["expr"])
        return (f["expr"], str(f["val"]))
    except TypeError:
        return (f["text"], str(f["val"]))


def bool_origin_facts(body, sym, facts, fs):
    """`flag is True` where `flag` is a bool local assigned only literals (`let last = matches!(..)`, `let mut ok = false; if c { ok = true }`):
    if exactly one definition stores that literal, the path went through it, so whatever holds at that definition held on this path
    (expressions are values of single-assignment temporaries, they do not go stale).  Returns fs plus those facts, marked derived."""
    if not getattr(body, "changed", False):
        return fs
    out = list(fs)
    have = {_fact_key(f) for f in out}
    for f in fs:
        e = f["expr"]
        if not (isinstance(e, tuple) and e and e[0] == "local" and f["val"] in (True, False)) or body.local_ty(e[1]) != "bool":
            continue
        defs = body.defs_of(e[1])
        vals = [_def_variant(body, d) for d in defs]
        if not defs or any(v not in (True, False) for v in vals):
            continue
        mine = [d for d, v in zip(defs, vals) if v is f["val"]]
        if len(mine) != 1 or mine[0][1] not in body.live_blocks():
            continue
        for g in _facts_at_raw(body, sym, facts, mine[0][1]):
            if _fact_key(g) not in have:
                have.add(_fact_key(g))
                out.append(dict(g, derived=True))
    return out


def path_facts(body, sym, facts, bb, depth=3):
    return [bool_origin_facts(body, sym, facts, fs) for fs in _path_facts(body, sym, facts, bb, depth)]


def _path_facts(body, sym, facts, bb, depth=3):
    """Fact sets, one per way of entering block bb: where several edges meet (an `A | B =>` arm, a shared exit), no single
    edge dominates, but each incoming edge carries its own facts.  A condition holds at bb if it holds in every set."""
    live = body.live_blocks()
    base = facts_at(body, sym, facts, bb)

    def lpreds(x):
        return [p for p in body.preds().get(x, []) if p in live]

    def one_armed(p):
        t = body.term(p)
        return t["k"] != "switch" or bool(t.get("threaded_switch"))
    # the join may lie above a straight-line run into bb (drops, calls, gotos, tests decided by construction): whatever holds
    # at the join holds at bb as well
    join = bb
    preds = lpreds(join)
    hops = 0
    while len(preds) == 1 and hops < 60 and one_armed(preds[0]):
        hops += 1
        join = preds[0]
        preds = lpreds(join)
    if len(preds) <= 1 or depth <= 0:
        return [base]
    out = []
    for p in preds:
        t = body.term(p)
        edge = []
        if t["k"] == "switch":
            vals = {v for v, tb in t["targets"] if tb == join}
            if t["otherwise"] == join:
                vals.add(None)
            edge = _edge_fact_dicts(body, sym, facts, p, vals)
        for fs in _path_facts(body, sym, facts, p, depth - 1):
            alt = list(base)
            have = {_fact_key(f) for f in alt}
            for f in list(fs) + edge:
                if _fact_key(f) not in have:
                    have.add(_fact_key(f))
                    alt.append(f)
            out.append(alt)
    return out


def fact_alternatives(body, sym, facts, bb, max_alts=8):
    base = _facts_at_raw(body, sym, facts, bb)
    return _alternatives(body, sym, facts, bb, base, max_alts)


def refine(body, sym, facts, base, max_alts=8):
    """alternatives (see fact_alternatives) for an arbitrary list of facts, e.g. one disjunct of a merge"""
    return _alternatives(body, sym, facts, None, list(base), max_alts)


def _leaf_call_fact(body, sym, bb, wants):
    """the definition in block bb is a call whose result is the value: that call returned one of `wants`"""
    t = body.term(bb)
    if t["k"] != "call" or t["dest"]["p"]:
        return None
    ty = body.local_ty(t["dest"]["l"])
    val = None
    if ty == "bool" and wants and isinstance(wants[0], bool):
        e = ("call", t["callee"]["path"], tuple(sym.op(a) for a in t["args"]), bb)
        return {"expr": e, "val": wants[0], "text": "%s is %s" % (render(e), wants[0]), "switch": bb, "derived": True}
    for w in wants or ():
        if (w in ("Ok", "Err") and ty.startswith("std::result::Result<")) or (w in ("Some", "None") and ty.startswith("std::option::Option<")):
            val = w
    if val is None:
        return None
    e = ("call", t["callee"]["path"], tuple(sym.op(a) for a in t["args"]), bb)
    return {"expr": e, "val": val, "text": "%s is %s" % (render(e), val), "switch": bb, "derived": True}


def _alternatives(body, sym, facts, bb, base, max_alts):
    """base facts refined per definition: when a fact says that a multiply-defined local (e.g. the result of an
    inlined helper, or a value merged from several match arms) has a certain variant, the value must come from one
    of the definition chains that can produce that variant, and the facts of those definitions' blocks held when
    they ran.  Returns a list of alternative fact lists (a disjunction); a rule that needs P must find P in every
    alternative."""
    alts = [base]
    for f in base:
        e, val = f["expr"], f["val"]
        wants = None
        if e[0] == "call" and e[1].endswith("::branch") and isinstance(val, str) and val in _BRANCH_WANTS and e[2]:
            e, wants = e[2][0], _BRANCH_WANTS[val]
        elif isinstance(val, str):
            wants = (val,)
        elif isinstance(val, bool) and e[0] == "local":
            wants = (val,)
        if wants is None or e[0] != "local":
            continue
        chains = sorted(set(tuple(sorted(set(c))) for c in _origin_chains(body, e[1], wants)))
        chains = [c for c in chains if c and c != (bb,)]
        if not chains or len(chains) > 64:
            continue
        # chains that differ only in fact-free copy blocks are one alternative
        extras = {}
        for c in chains:
            extra = []
            for x in c:
                extra += _facts_at_raw(body, sym, facts, x)
                lf = _leaf_call_fact(body, sym, x, wants) if any(d[0] == "call" and d[1] == x for d in body.defs_of(e[1])) or _is_chain_leaf_call(body, x, c) else None
                if lf is not None:
                    extra.append(lf)
                # a bool produced by a comparison in this block: the comparison had that value
                if wants and isinstance(wants[0], bool):
                    for d in body.defs_of(e[1]):
                        if d[0] == "assign" and d[1] == x and "bin" in d[3] and d[3]["bin"] in ("Lt", "Le", "Gt", "Ge", "Eq", "Ne"):
                            ce = sym.rvalue(d[3])
                            extra.append({"expr": ce, "val": wants[0], "text": "%s is %s" % (render(ce), wants[0]), "switch": x, "derived": True})
            key = frozenset((fx["text"]) for fx in extra)
            extras.setdefault(key, extra)
        if len(extras) * len(alts) > max_alts:
            continue
        alts = [alt + extra for alt in alts for extra in extras.values()]
    return alts


def _is_chain_leaf_call(body, x, chain):
    """block x ends in a call whose destination is (transitively) the traced value: true when x is in the chain only
    because of its call terminator (no assignment statement of the chain lives there)"""
    t = body.term(x)
    return t["k"] == "call" and not t["dest"]["p"] and any(d[0] == "call" and d[1] == x for d in body.defs_of(t["dest"]["l"]))


def _variants_for_discr(body, facts, term, s):
    p = op_place(term["on"])
    if p is None:
        return None
    for d in body.defs_of(p["l"]):
        if d[0] == "assign" and "discr" in d[3]:
            pl = d[3]["discr"]
            if d[3].get("variants"):
                return {int(k): v for k, v in d[3]["variants"].items()}
            ty = d[3].get("ty") or place_ty_guess(body, pl)
            if ty:
                return enum_variants(facts, ty)
    return None


def place_ty_guess(body, pl):
    """Type of a place when it is a bare local (possibly behind derefs); field types via debug info are
    not available, so for projected places fall back on the variant names carried by downcasts."""
    if all(e == "deref" for e in pl["p"]):
        return body.local_ty(pl["l"])
    return None


def _is_new_enum(adt):
    from . import inline
    return inline._is_new_enum(adt)


def infeasible(fs, adts=None, new_enums_only=True):
    """facts (dominating edges) that contradict each other: the block lies only on paths no execution takes (left-overs of
    jump threading / inlining)"""
    seen = {}
    if adts is not None:
        # a private status enum built on this path as W (the decided test `Enum::W{..} is W`) and tested later, through the variable
        # it was stored in, as another variant V of the same enum: the path went through the W definition, so that arm is not taken
        built = {}
        for f in fs:
            e_ = f.get("expr")
            if isinstance(e_, tuple) and e_ and e_[0] == "agg" and isinstance(e_[2], str) and str(f["val"]) == e_[2] and e_[1] in adts and adts[e_[1]].get("kind") == "enum":
                if not new_enums_only or _is_new_enum(e_[1]):
                    built.setdefault(e_[1], set()).add(e_[2])
        for f in fs:
            e_ = f.get("expr")
            if isinstance(e_, tuple) and e_ and e_[0] == "local" and isinstance(f["val"], str):
                for a_, ws_ in built.items():
                    names_ = {v_["name"] for v_ in adts[a_].get("variants", [])}
                    if f["val"] in names_ and len(ws_) == 1 and f["val"] not in ws_:
                        return True
    for f in fs:
        v = f["val"]
        e_ = f.get("expr")
        if isinstance(v, str) and isinstance(e_, tuple) and e_ and e_[0] == "agg" and isinstance(e_[2], str) and e_[2] != v:
            return True     # `Ok(x) is Err`: this edge of a test on a freshly built value is never taken
        if not isinstance(v, (str, bool, int)):
            continue
        k = f["expr"]       # structural: two calls of one function are two values (the call site is part of the expression)
        try:
            hash(k)
        except TypeError:
            k = render(f["expr"])
        if k in seen and seen[k] != v:
            return True
        seen.setdefault(k, v)
    return False


def has_fact(fs, pred):
    return any(pred(f) for f in fs)


# ---------------------------------------------------------------------------


def field_writes(facts, adt, field, include_borrows=True, body_filter=None):
    """Every MIR site that stores to (or mutably borrows) `adt.field`.
    Yields dict(body, bb, idx, kind='store'|'call-dest'|'mut-borrow'|'whole', rv/term)."""
    out = []
    for b in facts.bodies.values():
        if body_filter and not body_filter(b):
            continue
        live = b.live_blocks()
        for i, bl in enumerate(b.blocks):
            if i not in live:
                continue
            for j, s in enumerate(bl["stmts"]):
                if s["k"] != "assign":
                    continue
                if _ends_with_field(s["place"], adt, field):
                    out.append({"body": b, "bb": i, "idx": j, "kind": "store", "rv": s["rv"], "span": s.get("span")})
                elif s["place"]["p"] == ["deref"] and b.local_ty(s["place"]["l"]).replace("&mut ", "").replace("&", "").split("<")[0] == adt:
                    # `*guard = S { .. }`: the whole value is replaced; that stores every field of the literal
                    rv = s["rv"]
                    for _hop in range(5):
                        if "use" not in rv:
                            break
                        q = op_place(rv["use"])
                        ds_ = [d for d in b.defs_of(q["l"])] if q is not None and not q["p"] else []
                        if len(ds_) == 1 and ds_[0][0] == "assign":
                            rv = ds_[0][3]
                        else:
                            break
                    if rv.get("agg") == "adt" and rv.get("adt") == adt and field in (rv.get("fields") or []):
                        out.append({"body": b, "bb": i, "idx": j, "kind": "store", "rv": {"use": rv["ops"][rv["fields"].index(field)]}, "span": s.get("span"), "whole": True})
                    elif rv.get("agg") != "adt":
                        out.append({"body": b, "bb": i, "idx": j, "kind": "whole", "rv": s["rv"], "span": s.get("span")})
                if "ref" in s["rv"] and s["rv"]["mut"] and _ends_with_field(s["rv"]["ref"], adt, field):
                    # `match &mut x.f { slot @ None => *slot = v, .. }`: a borrow that is only looked at and stored through is the
                    # stores made through it
                    via = _stores_through(b, s["place"]["l"]) if not s["place"]["p"] else None
                    if via is not None:
                        for (vi, vj, vs) in via:
                            if vi not in live or any(o_["body"] is b and o_["bb"] == vi and o_["idx"] == vj for o_ in out):
                                continue      # (the copy of a drop-and-replace store on the unwind path is not a second store)
                            out.append({"body": b, "bb": vi, "idx": vj, "kind": "store", "rv": vs["rv"], "span": vs.get("span"), "via_ref": s["place"]["l"]})
                    elif include_borrows:
                        out.append({"body": b, "bb": i, "idx": j, "kind": "mut-borrow", "rv": s["rv"], "span": s.get("span"), "dest": s["place"]})
            t = bl["term"]
            if t["k"] == "call" and _ends_with_field(t["dest"], adt, field):
                out.append({"body": b, "bb": i, "idx": len(bl["stmts"]), "kind": "call-dest", "term": t, "span": t.get("span")})
    return out


def _stores_through(body, r, depth=0):
    """If reference local r (one definition) is used only to read the referent (discriminant, fields, copies) and to store whole
    values through it (`*r = v`), return those store statements [(bb, idx, stmt)]; None when it escapes (passed to a call,
    reborrowed into something else, ..)."""
    if depth > 3 or len([d for d in body.defs_of(r)]) != 1:
        return None
    stores = []
    aliases = []
    for i, bl in enumerate(body.blocks):
        for j, st in enumerate(bl["stmts"]):
            if st["k"] != "assign":
                continue
            pl, rv = st["place"], st["rv"]
            if pl["l"] == r and pl["p"]:
                if pl["p"] == ["deref"]:
                    stores.append((i, j, st))
                    continue
                return None        # partial store through the reference: not a whole-value store
            for key in ("use", "cast"):
                o = rv.get(key)
                if isinstance(o, dict):
                    q = o.get("move") or o.get("copy")
                    if q is not None and q["l"] == r:
                        if not q["p"] and not pl["p"]:
                            aliases.append(pl["l"])      # r2 = move r
                        elif q["p"] and q["p"][0] == "deref":
                            pass                          # a read of the referent
                        else:
                            return None
            if "ref" in rv and rv["ref"]["l"] == r:
                if rv.get("mut") or rv["ref"]["p"][:1] != ["deref"]:
                    # `&mut *r` reborrow: follow it like an alias
                    if rv["ref"]["p"] == ["deref"] and not pl["p"]:
                        aliases.append(pl["l"])
                    else:
                        return None
            if "discr" in rv and rv["discr"]["l"] == r:
                continue
            for o in (rv.get("ops") or []) + [rv.get("a"), rv.get("b")]:
                if isinstance(o, dict):
                    q = o.get("move") or o.get("copy")
                    if q is not None and q["l"] == r and not (q["p"] and q["p"][0] == "deref"):
                        return None
        t = bl["term"]
        if t["k"] == "call":
            for a in t["args"]:
                q = a.get("move") or a.get("copy")
                if q is not None and q["l"] == r and not (q["p"] and q["p"][0] == "deref"):
                    return None
            if t["dest"]["l"] == r and t["dest"]["p"]:
                return None
    for a in aliases:
        sub = _stores_through(body, a, depth + 1)
        if sub is None:
            return None
        stores.extend(sub)
    return stores


def struct_constructions(facts, adt):
    out = []
    for b in facts.bodies.values():
        for i, j, s in b.assigns():
            rv = s["rv"]
            if rv.get("agg") == "adt" and rv["adt"] == adt:
                out.append((b, i, j, s))
    return out


def _ends_with_field(place, adt, field):
    last = None
    for e in place["p"]:
        if isinstance(e, dict) and "f" in e:
            last = e
        elif e == "deref":
            continue
        elif isinstance(e, dict) and "variant" in e:
            continue
        else:
            last = None
    if last is None:
        return False
    # must be the final non-deref element
    tail = [e for e in place["p"] if e != "deref"]
    return tail and tail[-1] is last and last.get("a") == adt and last["f"] == field


def field_reads(body, adt, field):
    """(bb, idx) of statements / terminators that read adt.field in body."""
    out = []
    for i, bl in enumerate(body.blocks):
        for j, s in enumerate(bl["stmts"]):
            if s["k"] == "assign":
                rv = s["rv"]
                for key in ("ref", "discr"):
                    if key in rv and _mentions_field(rv[key], adt, field):
                        out.append((i, j))
                from .mir import rv_operands
                for o in rv_operands(rv):
                    p = op_place(o)
                    if p is not None and _mentions_field(p, adt, field):
                        out.append((i, j))
    return out


def _mentions_field(place, adt, field):
    return any(isinstance(e, dict) and e.get("f") == field and e.get("a") == adt for e in place["p"])
