"""Desugaring of Option/Result combinators that a function did not use on the reference tree.

A refactoring that replaces `match r { Ok(x) => f(x), Err(e) => return Err(e) }` by `r.and_then(|x| f(x))` moves the
decision into std and the arm into a closure body: path rules (which edge leads where, what value a row carries) lose
both.  For functions whose MIR differs from the reference tree this pass rewrites such a call back into the match it
stands for, with the closure body inlined (analysis/inline.py machinery):

    dest = Result::and_then(move r, move c)      =>      switch discriminant(r) { Ok  => dest = c(move (r as Ok).0)
                                                                                   Err => dest = Err(move (r as Err).0) }

Only combinators the reference version of the same function did not call are rewritten (rules/spec/known_shapes.json,
"combinators"): the rules recognise the combinator calls of the reference tree by name, and those keep their form.  The
rewrite is the std definition of each combinator (stated assumption); nothing is executed.
"""
import copy
from . import inline

# (kind, name) -> (variant on which the closure runs, closure takes the payload?, wrap closure result in, passthrough form)
# passthrough form: ("same", V) rebuild variant V with its payload, ("payload", V) the bare payload, ("unit", V) payload-less variant
TABLE = {
    ("Result", "and_then"): ("Ok", True, None, ("same", "Err")),
    ("Result", "map"): ("Ok", True, "Ok", ("same", "Err")),
    ("Result", "map_err"): ("Err", True, "Err", ("same", "Ok")),
    ("Result", "or_else"): ("Err", True, None, ("same", "Ok")),
    ("Result", "unwrap_or_else"): ("Err", True, None, ("payload", "Ok")),
    ("Option", "and_then"): ("Some", True, None, ("unit", "None")),
    ("Option", "map"): ("Some", True, "Some", ("unit", "None")),
    ("Option", "or_else"): ("None", False, None, ("same", "Some")),
    ("Option", "unwrap_or_else"): ("None", False, None, ("payload", "Some")),
    ("Option", "ok_or_else"): ("None", False, "Result::Err", ("as", "Some", "Result::Ok")),
    # predicates on the payload: `o.is_some_and(f)` == match o { Some(x) => f(x), None => false }
    ("Option", "is_some_and"): ("Some", True, None, ("const", "None", 0)),
    ("Option", "is_none_or"): ("Some", True, None, ("const", "None", 1)),
    ("Result", "is_ok_and"): ("Ok", True, None, ("const", "Err", 0)),
    ("Result", "is_err_and"): ("Err", True, None, ("const", "Ok", 0)),
}
TRANSPOSE = "std::option::Option::<std::result::Result<T, E>>::transpose"
# closure-less forms: (kind, name) -> [(variant, what dest becomes)]; "wrap:V" = V(payload), "unit:V" = V, "arg:V" = V(second argument)
SIMPLE = {
    ("Result", "ok"): {"Ok": "wrap:Some", "Err": "unit:None"},
    ("Result", "err"): {"Err": "wrap:Some", "Ok": "unit:None"},
    ("Option", "ok_or"): {"Some": "wrap:Ok", "None": "arg:Err"},
    ("Option", "unwrap_or"): {"Some": "payload:", "None": "argv:"},
    ("Result", "unwrap_or"): {"Ok": "payload:", "Err": "argv:"},
}
VI = {"Ok": 0, "Err": 1, "None": 0, "Some": 1}
ADT = {"Ok": "std::result::Result", "Err": "std::result::Result", "None": "std::option::Option", "Some": "std::option::Option"}
MAX_CLOSURE_BLOCKS = 60
_ADTS = {}
_KNOWN_FNS = set()
_ALL_FNS = set()
INLINED_CLOSURES = []       # closure definition paths whose call was replaced by their body (filled by the passes below)


def _kind_of(callee):
    p = callee.get("path", "")
    if p.startswith("std::result::Result::<T, E>::"):
        return "Result"
    if p.startswith("std::option::Option::<T>::"):
        return "Option"
    if p == TRANSPOSE:
        return "Option"
    if p in ("core::bool::<impl bool>::then", "core::bool::<impl bool>::then_some"):
        return "bool"
    if callee.get("decl") == "std::iter::Iterator::for_each":
        return "Iterator"
    return None


FN_CALLS = ("std::ops::Fn::call", "std::ops::FnMut::call_mut", "std::ops::FnOnce::call_once")


def _is_local_closure_call(path, t):
    c = t["callee"]
    return c.get("decl") in FN_CALLS and c["path"].startswith(path + "::{closure#") and len(t["args"]) == 2


def counts(body, path=None):
    """{combinator name: number of call sites} of one raw body (frozen per function on the reference tree)"""
    out = {}
    for blk in body["blocks"]:
        t = blk["term"]
        if t["k"] == "call" and path is not None and _is_local_closure_call(path, t):
            out["closure-call"] = out.get("closure-call", 0) + 1
        if t["k"] == "call":
            k = _kind_of(t["callee"])
            if k and ((k, t["callee"]["name"]) in TABLE or (k, t["callee"]["name"]) in SIMPLE or t["callee"]["path"] == TRANSPOSE or k in ("bool", "Iterator")
                      or (k, t["callee"]["name"]) in (("Option", "filter"), ("Option", "map_or"), ("Result", "map_or"), ("Result", "inspect_err"), ("Result", "inspect"),
                                                      ("Option", "inspect"))):
                key = k + "::" + t["callee"]["name"]
                out[key] = out.get(key, 0) + 1
    return out


def _bare(op):
    p = op.get("move") or op.get("copy")
    if p is None or p["p"]:
        return None
    return p["l"]


def _agg(variant, ops):
    adt = ADT[variant]
    return {"agg": "adt", "adt": adt, "variant": variant, "vi": VI[variant], "fields": ["0"] if ops else [], "ops": ops}


def _payload(r, variant):
    return {"l": r, "p": [{"variant": variant, "vi": VI[variant]}, {"f": "0", "i": 0, "a": ADT[variant]}]}


def _new_local(body, ty):
    body["locals"].append({"ty": ty, "user": False})
    return len(body["locals"]) - 1


def _new_block(body, stmts, term):
    body["blocks"].append({"cleanup": False, "stmts": stmts, "term": term, "desugared": True})
    return len(body["blocks"]) - 1


def _payload_ty(res_ty, variant):
    """best-effort type text of a variant's payload from `Result<A, B>` / `Option<A>` (only used for display)"""
    if "<" not in res_ty:
        return "?"
    inner = res_ty[res_ty.index("<") + 1:res_ty.rindex(">")]
    depth, parts, cur = 0, [], ""
    for ch in inner:
        if ch in "<([":
            depth += 1
        elif ch in ">)]":
            depth -= 1
        if ch == "," and depth == 0:
            parts.append(cur.strip())
            cur = ""
        else:
            cur += ch
    parts.append(cur.strip())
    if variant in ("Ok", "Some"):
        return parts[0]
    return parts[1] if len(parts) > 1 else "?"


def desugar_transpose(body, bb):
    """Option<Result<T, E>>::transpose:  None => Ok(None) | Some(Ok(x)) => Ok(Some(x)) | Some(Err(e)) => Err(e)"""
    t = body["blocks"][bb]["term"]
    r = _bare(t["args"][0]) if len(t["args"]) == 1 else None
    if r is None or t.get("target") is None or t["dest"]["p"]:
        return False
    span, target, dest = t.get("span"), t["target"], t["dest"]
    opt_ty = body["locals"][r]["ty"]
    inner_ty = _payload_ty(opt_ty, "Some")
    d1, d2 = _new_local(body, "isize"), _new_local(body, "isize")
    il = _new_local(body, inner_ty)
    sl = _new_local(body, "std::option::Option<%s>" % _payload_ty(inner_ty, "Ok"))
    nl = _new_local(body, "std::option::Option<%s>" % _payload_ty(inner_ty, "Ok"))
    go = {"k": "goto", "target": target, "span": span}
    b_none = _new_block(body, [{"k": "assign", "place": {"l": nl, "p": []}, "rv": _agg("None", []), "span": span},
                               {"k": "assign", "place": copy.deepcopy(dest), "rv": _agg("Ok", [{"move": {"l": nl, "p": []}}]), "span": span, "desugared": "transpose"}], dict(go))
    b_ok = _new_block(body, [{"k": "assign", "place": {"l": sl, "p": []}, "rv": _agg("Some", [{"move": _payload(il, "Ok")}]), "span": span},
                             {"k": "assign", "place": copy.deepcopy(dest), "rv": _agg("Ok", [{"move": {"l": sl, "p": []}}]), "span": span, "desugared": "transpose"}], dict(go))
    b_err = _new_block(body, [{"k": "assign", "place": copy.deepcopy(dest), "rv": _agg("Err", [{"move": _payload(il, "Err")}]), "span": span, "desugared": "transpose"}], dict(go))
    b_some = _new_block(body, [{"k": "assign", "place": {"l": il, "p": []}, "rv": {"use": {"move": _payload(r, "Some")}}, "span": span, "desugared": "payload"},
                               {"k": "assign", "place": {"l": d2, "p": []}, "rv": {"discr": {"l": il, "p": []}, "ty": inner_ty, "variants": {"0": "Ok", "1": "Err"}}, "span": span}],
                       {"k": "switch", "on": {"move": {"l": d2, "p": []}}, "on_ty": "isize", "targets": [[0, b_ok]], "otherwise": b_err, "span": span, "desugared": TRANSPOSE})
    body["blocks"][bb]["stmts"].append({"k": "assign", "place": {"l": d1, "p": []}, "rv": {"discr": {"l": r, "p": []}, "ty": opt_ty, "variants": {"0": "None", "1": "Some"}},
                                        "span": span, "desugared": "transpose"})
    body["blocks"][bb]["term"] = {"k": "switch", "on": {"move": {"l": d1, "p": []}}, "on_ty": "isize", "targets": [[0, b_none]], "otherwise": b_some, "span": span,
                                  "desugared": TRANSPOSE}
    return True


def desugar_simple(body, bb, kind, spec):
    t = body["blocks"][bb]["term"]
    r = _bare(t["args"][0]) if t["args"] else None
    if r is None or t.get("target") is None or t["dest"]["p"]:
        return False
    if t["callee"]["name"] == "unwrap_or":
        # `x.unwrap_or(d)` is worth opening up only where x comes out of a helper that will be inlined (its variants are then
        # known per path); on the result of an ordinary call the call form says the same thing more plainly
        d = inline._single_def(body, r)
        if d is not None and d[0] == "call" and (d[2]["callee"]["path"] in _KNOWN_FNS or d[2]["callee"]["path"] not in _ALL_FNS):
            return False
    span, target, dest = t.get("span"), t["target"], t["dest"]
    res_ty = body["locals"][r]["ty"]
    variants = {"0": "Ok", "1": "Err"} if kind == "Result" else {"0": "None", "1": "Some"}
    blocks = {}
    for v, what in spec.items():
        how, wv = what.split(":")
        if how == "wrap":
            rv = _agg(wv, [{"move": _payload(r, v)}])
        elif how == "unit":
            rv = _agg(wv, [])
        elif how == "payload":
            rv = {"use": {"move": _payload(r, v)}}
        elif how == "argv":
            if len(t["args"]) < 2:
                return False
            rv = {"use": copy.deepcopy(t["args"][1])}
        else:
            if len(t["args"]) < 2:
                return False
            rv = _agg(wv, [copy.deepcopy(t["args"][1])])
        blocks[v] = _new_block(body, [{"k": "assign", "place": copy.deepcopy(dest), "rv": rv, "span": span, "desugared": t["callee"]["name"]}],
                               {"k": "goto", "target": target, "span": span})
    dl = _new_local(body, "isize")
    body["blocks"][bb]["stmts"].append({"k": "assign", "place": {"l": dl, "p": []}, "rv": {"discr": {"l": r, "p": []}, "ty": res_ty, "variants": variants},
                                        "span": span, "desugared": t["callee"]["name"]})
    names = list(spec)
    body["blocks"][bb]["term"] = {"k": "switch", "on": {"move": {"l": dl, "p": []}}, "on_ty": "isize", "targets": [[VI[names[0]], blocks[names[0]]]],
                                  "otherwise": blocks[names[1]], "span": span, "desugared": t["callee"]["path"]}
    return True


def _closure_arg(bodies, body, op, argc):
    c = _bare(op)
    if c is None:
        return None, None, None
    d = inline._single_def(body, c)
    if d is None or d[0] != "assign" or d[2]["rv"].get("agg") != "closure":
        return None, None, None
    cp = d[2]["rv"]["def"]
    clo = bodies.get(cp)
    if clo is None or clo["kind"] != "closure" or len(clo["blocks"]) > MAX_CLOSURE_BLOCKS or clo["argc"] != argc:
        return None, None, None
    return c, cp, clo


def _call_closure(bodies, body, stmts, c, cp, clo, extra_args, dest, target, unwind, span, what):
    """append a block that calls closure `cp` (value in local c) with extra_args, result into dest, then goes to target; the
    closure body is inlined.  Returns the block index."""
    args = []
    env_ty = clo["locals"][1]["ty"]
    if env_ty.startswith("&"):
        el = _new_local(body, env_ty)
        stmts.append({"k": "assign", "place": {"l": el, "p": []}, "rv": {"ref": {"l": c, "p": []}, "mut": env_ty.startswith("&mut"), "fake": False}, "span": span})
        args.append({"move": {"l": el, "p": []}})
    else:
        args.append({"move": {"l": c, "p": []}})
    args += extra_args
    call = {"k": "call", "callee": {"decl": cp, "name": cp.rsplit("::", 1)[-1], "targs": [], "path": cp, "kind": "item"}, "args": args,
            "arg_tys": [body["locals"][(a.get("move") or a.get("copy"))["l"]]["ty"] for a in args], "dest": dest, "target": target, "span": span, "desugared": what}
    if unwind is not None:
        call["unwind"] = unwind
    cb = _new_block(body, stmts, call)
    clo_alias = {q: q for q in bodies if q.startswith(cp + "::{") and q != cp}
    inline.inline_call(body, cb, copy.deepcopy(clo), cp, clo_alias)
    INLINED_CLOSURES.append(cp)
    return cb


def desugar_bool_then(bodies, path, body, bb):
    """b.then(f) == if b { Some(f()) } else { None };  b.then_some(v) == if b { Some(v) } else { None }"""
    t = body["blocks"][bb]["term"]
    if len(t["args"]) != 2 or t.get("target") is None or t["dest"]["p"]:
        return False
    span, target, unwind, dest = t.get("span"), t["target"], t.get("unwind"), t["dest"]
    go = {"k": "goto", "target": target, "span": span}
    nb = _new_block(body, [{"k": "assign", "place": copy.deepcopy(dest), "rv": _agg("None", []), "span": span, "desugared": "then"}], dict(go))
    if t["callee"]["name"] == "then_some":
        yb = _new_block(body, [{"k": "assign", "place": copy.deepcopy(dest), "rv": _agg("Some", [copy.deepcopy(t["args"][1])]), "span": span, "desugared": "then"}], dict(go))
    else:
        c, cp, clo = _closure_arg(bodies, body, t["args"][1], 1)
        if clo is None:
            del body["blocks"][nb:]
            return False
        yl = _new_local(body, clo["locals"][0]["ty"])
        jb = _new_block(body, [{"k": "assign", "place": copy.deepcopy(dest), "rv": _agg("Some", [{"move": {"l": yl, "p": []}}]), "span": span, "desugared": "then"}], dict(go))
        yb = _call_closure(bodies, body, [], c, cp, clo, [], {"l": yl, "p": []}, jb, unwind, span, "then")
    body["blocks"][bb]["term"] = {"k": "switch", "on": copy.deepcopy(t["args"][0]), "on_ty": "bool", "targets": [[0, nb]], "otherwise": yb, "span": span,
                                  "desugared": t["callee"]["path"]}
    return True


def desugar_for_each(bodies, path, body, bb):
    """it.for_each(f) == for x in it { f(x) }   (the loop rustc builds: into_iter, then next() until None)"""
    t = body["blocks"][bb]["term"]
    it = _bare(t["args"][0]) if len(t["args"]) == 2 else None
    if it is None or t.get("target") is None or t["dest"]["p"]:
        return False
    c, cp, clo = _closure_arg(bodies, body, t["args"][1], 2)
    if clo is None:
        return False
    span, target, unwind, dest = t.get("span"), t["target"], t.get("unwind"), t["dest"]
    it_ty = body["locals"][it]["ty"]
    item_ty = clo["locals"][2]["ty"]
    self_ty = t["callee"].get("self_ty") or it_ty
    base = t["callee"]["path"].rsplit("::", 1)[0]
    il = _new_local(body, it_ty)
    ol = _new_local(body, "std::option::Option<%s>" % item_ty)
    rl = _new_local(body, "&mut " + it_ty)
    dl = _new_local(body, "isize")
    xl = _new_local(body, item_ty)
    ul = _new_local(body, "()")
    eb = _new_block(body, [{"k": "assign", "place": copy.deepcopy(dest), "rv": {"use": {"const": {"ty": "()"}}}, "span": span, "desugared": "for_each"}],
                    {"k": "goto", "target": target, "span": span})
    # loop head: next(&mut it)
    nxt = {"k": "call", "callee": {"decl": "std::iter::Iterator::next", "name": "next", "targs": [self_ty], "trait": "std::iter::Iterator", "self_ty": self_ty,
                                   "path": base + "::next", "kind": "item"},
           "args": [{"move": {"l": rl, "p": []}}], "arg_tys": ["&mut " + it_ty], "dest": {"l": ol, "p": []}, "target": None, "span": span, "desugared": "for_each"}
    if unwind is not None:
        nxt["unwind"] = unwind
    hb = _new_block(body, [{"k": "assign", "place": {"l": rl, "p": []}, "rv": {"ref": {"l": il, "p": []}, "mut": True, "fake": False}, "span": span}], nxt)
    # body: f(x), back to the head
    stmts = [{"k": "assign", "place": {"l": xl, "p": []}, "rv": {"use": {"move": _payload(ol, "Some")}}, "span": span, "desugared": "payload"}]
    cb = _call_closure(bodies, body, stmts, c, cp, clo, [{"move": {"l": xl, "p": []}}], {"l": ul, "p": []}, hb, unwind, span, "for_each")
    sb = _new_block(body, [{"k": "assign", "place": {"l": dl, "p": []}, "rv": {"discr": {"l": ol, "p": []}, "ty": "std::option::Option<%s>" % item_ty,
                                                                                 "variants": {"0": "None", "1": "Some"}}, "span": span, "desugared": "for_each"}],
                    {"k": "switch", "on": {"move": {"l": dl, "p": []}}, "on_ty": "isize", "targets": [[1, cb]], "otherwise": eb, "span": span, "desugared": "for_each"})
    body["blocks"][hb]["term"]["target"] = sb
    # entry: it' = into_iter(it)
    body["blocks"][bb]["term"] = {"k": "call", "callee": {"decl": "std::iter::IntoIterator::into_iter", "name": "into_iter", "targs": [self_ty], "trait": "std::iter::IntoIterator",
                                                          "self_ty": self_ty, "path": "<I as std::iter::IntoIterator>::into_iter", "kind": "item"},
                                  "args": [copy.deepcopy(t["args"][0])], "arg_tys": [it_ty], "dest": {"l": il, "p": []}, "target": hb, "span": span, "desugared": "for_each"}
    if unwind is not None:
        body["blocks"][bb]["term"]["unwind"] = unwind
    return True


def desugar_map_or(bodies, path, body, bb, kind):
    """o.map_or(d, f) == match o { Some(x) / Ok(x) => f(x), _ => d }"""
    t = body["blocks"][bb]["term"]
    r = _bare(t["args"][0]) if len(t["args"]) == 3 else None
    if r is None or t.get("target") is None or t["dest"]["p"]:
        return False
    c, cp, clo = _closure_arg(bodies, body, t["args"][2], 2)
    if clo is None:
        return False
    span, target, unwind, dest = t.get("span"), t["target"], t.get("unwind"), t["dest"]
    hit = "Some" if kind == "Option" else "Ok"
    variants = {"0": "None", "1": "Some"} if kind == "Option" else {"0": "Ok", "1": "Err"}
    nb = _new_block(body, [{"k": "assign", "place": copy.deepcopy(dest), "rv": {"use": copy.deepcopy(t["args"][1])}, "span": span, "desugared": "map_or"}],
                    {"k": "goto", "target": target, "span": span})
    xl = _new_local(body, clo["locals"][2]["ty"])
    stmts = [{"k": "assign", "place": {"l": xl, "p": []}, "rv": {"use": {"move": _payload(r, hit)}}, "span": span, "desugared": "payload"}]
    cb = _call_closure(bodies, body, stmts, c, cp, clo, [{"move": {"l": xl, "p": []}}], copy.deepcopy(dest), target, unwind, span, "map_or")
    dl = _new_local(body, "isize")
    body["blocks"][bb]["stmts"].append({"k": "assign", "place": {"l": dl, "p": []}, "rv": {"discr": {"l": r, "p": []}, "ty": body["locals"][r]["ty"], "variants": variants},
                                        "span": span, "desugared": "map_or"})
    body["blocks"][bb]["term"] = {"k": "switch", "on": {"move": {"l": dl, "p": []}}, "on_ty": "isize", "targets": [[VI[hit], cb]], "otherwise": nb, "span": span,
                                  "desugared": t["callee"]["path"]}
    return True


def desugar_inspect(bodies, path, body, bb, kind):
    """r.inspect_err(f) == { if let Err(e) = &r { f(e) }; r }   (inspect: the Ok / Some side)"""
    t = body["blocks"][bb]["term"]
    r = _bare(t["args"][0]) if len(t["args"]) == 2 else None
    if r is None or t.get("target") is None or t["dest"]["p"]:
        return False
    c, cp, clo = _closure_arg(bodies, body, t["args"][1], 2)
    if clo is None:
        return False
    span, target, unwind, dest = t.get("span"), t["target"], t.get("unwind"), t["dest"]
    hit = "Err" if t["callee"]["name"] == "inspect_err" else ("Ok" if kind == "Result" else "Some")
    variants = {"0": "None", "1": "Some"} if kind == "Option" else {"0": "Ok", "1": "Err"}
    jb = _new_block(body, [{"k": "assign", "place": copy.deepcopy(dest), "rv": {"use": {"move": {"l": r, "p": []}}}, "span": span, "desugared": "inspect"}],
                    {"k": "goto", "target": target, "span": span})
    xr = _new_local(body, clo["locals"][2]["ty"])
    ul = _new_local(body, "()")
    stmts = [{"k": "assign", "place": {"l": xr, "p": []}, "rv": {"ref": _payload(r, hit), "mut": False, "fake": False}, "span": span, "desugared": "payload"}]
    cb = _call_closure(bodies, body, stmts, c, cp, clo, [{"move": {"l": xr, "p": []}}], {"l": ul, "p": []}, jb, unwind, span, "inspect")
    dl = _new_local(body, "isize")
    body["blocks"][bb]["stmts"].append({"k": "assign", "place": {"l": dl, "p": []}, "rv": {"discr": {"l": r, "p": []}, "ty": body["locals"][r]["ty"], "variants": variants},
                                        "span": span, "desugared": "inspect"})
    # the untouched side gets a block of its own, so that "r is Ok" has an edge to live on
    pb = _new_block(body, [], {"k": "goto", "target": jb, "span": span})
    body["blocks"][bb]["term"] = {"k": "switch", "on": {"move": {"l": dl, "p": []}}, "on_ty": "isize", "targets": [[VI[hit], cb]], "otherwise": pb, "span": span,
                                  "desugared": t["callee"]["path"]}
    return True


def desugar_filter(bodies, path, body, bb):
    """o.filter(p) == match o { Some(x) if p(&x) => Some(x), _ => None }"""
    t = body["blocks"][bb]["term"]
    r = _bare(t["args"][0]) if len(t["args"]) == 2 else None
    if r is None or t.get("target") is None or t["dest"]["p"]:
        return False
    c, cp, clo = _closure_arg(bodies, body, t["args"][1], 2)
    if clo is None:
        return False
    span, target, unwind, dest = t.get("span"), t["target"], t.get("unwind"), t["dest"]
    res_ty = body["locals"][r]["ty"]
    go = {"k": "goto", "target": target, "span": span}
    nb = _new_block(body, [{"k": "assign", "place": copy.deepcopy(dest), "rv": _agg("None", []), "span": span, "desugared": "filter"}], dict(go))
    kb = _new_block(body, [{"k": "assign", "place": copy.deepcopy(dest), "rv": _agg("Some", [{"move": _payload(r, "Some")}]), "span": span, "desugared": "filter"}], dict(go))
    bl = _new_local(body, "bool")
    tb = _new_block(body, [], {"k": "switch", "on": {"move": {"l": bl, "p": []}}, "on_ty": "bool", "targets": [[0, nb]], "otherwise": kb, "span": span, "desugared": "filter"})
    xr = _new_local(body, clo["locals"][2]["ty"])
    stmts = [{"k": "assign", "place": {"l": xr, "p": []}, "rv": {"ref": _payload(r, "Some"), "mut": False, "fake": False}, "span": span, "desugared": "payload"}]
    cb = _call_closure(bodies, body, stmts, c, cp, clo, [{"move": {"l": xr, "p": []}}], {"l": bl, "p": []}, tb, unwind, span, "filter")
    dl = _new_local(body, "isize")
    body["blocks"][bb]["stmts"].append({"k": "assign", "place": {"l": dl, "p": []}, "rv": {"discr": {"l": r, "p": []}, "ty": res_ty, "variants": {"0": "None", "1": "Some"}},
                                        "span": span, "desugared": "filter"})
    body["blocks"][bb]["term"] = {"k": "switch", "on": {"move": {"l": dl, "p": []}}, "on_ty": "isize", "targets": [[1, cb]], "otherwise": nb, "span": span,
                                  "desugared": t["callee"]["path"]}
    return True


def desugar_call(bodies, path, body, bb):
    """Rewrite the combinator call ending block bb.  Returns True when rewritten."""
    t = body["blocks"][bb]["term"]
    if t["callee"]["path"] == TRANSPOSE:
        return desugar_transpose(body, bb)
    kind = _kind_of(t["callee"])
    if (kind, t["callee"]["name"]) in SIMPLE:
        return desugar_simple(body, bb, kind, SIMPLE[(kind, t["callee"]["name"])])
    if kind == "bool":
        return desugar_bool_then(bodies, path, body, bb)
    if kind == "Iterator":
        return desugar_for_each(bodies, path, body, bb)
    if (kind, t["callee"]["name"]) == ("Option", "filter"):
        return desugar_filter(bodies, path, body, bb)
    if t["callee"]["name"] == "map_or" and kind in ("Option", "Result"):
        return desugar_map_or(bodies, path, body, bb, kind)
    if t["callee"]["name"] in ("inspect_err", "inspect") and kind in ("Option", "Result"):
        return desugar_inspect(bodies, path, body, bb, kind)
    spec = TABLE.get((kind, t["callee"]["name"]))
    if spec is None or len(t["args"]) != 2 or t.get("target") is None or t["dest"]["p"]:
        return False
    run_v, takes, wrap, passthrough = spec
    r = _bare(t["args"][0])
    if r is None:
        return False
    fop = t["args"][1]
    c = _bare(fop)
    clo_path = clo = fn_path = None
    c_is_ref = False
    if c is not None:
        d = inline._single_def(body, c)
        if d is not None and d[0] == "assign" and d[2]["rv"].get("agg") != "closure":
            # `.and_then(&f)` with `let f = |..| ..;`: the argument is a reference to a closure value built here
            cp_, holder_ = _closure_of(body, c)
            if cp_ is None or not body["locals"][c]["ty"].startswith("&"):
                return False
            c_is_ref = True
            d = inline._single_def(body, holder_)
        if d is None or d[0] != "assign" or d[2]["rv"].get("agg") != "closure":
            return False
        clo_path = d[2]["rv"]["def"]
        clo = bodies.get(clo_path)
        if clo is None or clo["kind"] != "closure" or len(clo["blocks"]) > MAX_CLOSURE_BLOCKS or clo["argc"] != (2 if takes else 1):
            return False
    else:
        k = fop.get("const")
        if not (k and isinstance(k.get("fn"), dict) and k["fn"].get("path")) or not takes:
            return False
        fn_path = k["fn"]["path"]
    span, target, unwind, dest = t.get("span"), t["target"], t.get("unwind"), t["dest"]
    res_ty = body["locals"][r]["ty"]
    other_v = passthrough[1]
    # discriminant + switch
    dl = _new_local(body, "isize")
    variants = {"0": "Ok", "1": "Err"} if kind == "Result" else {"0": "None", "1": "Some"}
    body["blocks"][bb]["stmts"].append({"k": "assign", "place": {"l": dl, "p": []}, "rv": {"discr": {"l": r, "p": []}, "ty": res_ty, "variants": variants},
                                        "span": span, "desugared": t["callee"]["name"]})
    # passthrough block
    if passthrough[0] == "same":
        rv = _agg(other_v, [{"move": _payload(r, other_v)}])
    elif passthrough[0] == "payload":
        rv = {"use": {"move": _payload(r, other_v)}}
    elif passthrough[0] == "unit":
        rv = _agg(other_v, [])
    elif passthrough[0] == "const":
        rv = {"use": {"const": {"ty": "bool", "v": passthrough[2]}}}
    else:
        rv = _agg(passthrough[2].split("::")[1], [{"move": _payload(r, other_v)}])
    pb = _new_block(body, [{"k": "assign", "place": copy.deepcopy(dest), "rv": rv, "span": span, "desugared": "pass"}], {"k": "goto", "target": target, "span": span})
    # closure block
    stmts = []
    args = []
    if clo is not None and c_is_ref:
        args.append({"copy": {"l": c, "p": []}})        # already `&closure`, which is what the closure body takes
    elif clo is not None:
        env_ty = clo["locals"][1]["ty"]
        if env_ty.startswith("&"):
            el = _new_local(body, env_ty)
            stmts.append({"k": "assign", "place": {"l": el, "p": []}, "rv": {"ref": {"l": c, "p": []}, "mut": env_ty.startswith("&mut"), "fake": False}, "span": span})
            args.append({"move": {"l": el, "p": []}})
        else:
            args.append({"move": {"l": c, "p": []}})
    if takes:
        xl = _new_local(body, clo["locals"][2]["ty"] if clo is not None else _payload_ty(res_ty, run_v))
        stmts.append({"k": "assign", "place": {"l": xl, "p": []}, "rv": {"use": {"move": _payload(r, run_v)}}, "span": span, "desugared": "payload"})
        args.append({"move": {"l": xl, "p": []}})
    if wrap:
        yl = _new_local(body, clo["locals"][0]["ty"] if clo is not None else "?")
        wv = wrap.split("::")[-1]
        jb = _new_block(body, [{"k": "assign", "place": copy.deepcopy(dest), "rv": _agg(wv, [{"move": {"l": yl, "p": []}}]), "span": span, "desugared": "wrap"}],
                        {"k": "goto", "target": target, "span": span})
        cdest, ctarget = {"l": yl, "p": []}, jb
    else:
        cdest, ctarget = copy.deepcopy(dest), target
    cp = clo_path or fn_path
    if fn_path is not None and "::" in fn_path:
        # `.map(Enum::Variant)`: a tuple-variant constructor used as a function builds that variant
        ep, vn = fn_path.rsplit("::", 1)
        adt = _ADTS.get(ep)
        cty = (fop.get("const") or {}).get("ty", "")
        ret_ty = cty.split("-> ", 1)[1].split(" {", 1)[0].split("<")[0] if "-> " in cty else None
        if adt is None and ret_ty == ep and vn[:1].isupper():
            # a variant constructor of an enum defined in another crate (`.map(WsMessage::Binary)`): its function type returns the enum
            adt = {"kind": "enum", "variants": [{"name": vn}]}
        if vn in ("Some", "Ok", "Err") and (ep.endswith("prelude::v1") or ep in ("std::option::Option", "std::result::Result", "core::option::Option", "core::result::Result")) and len(args) == 1:
            # `.map(Some)` / `.map_err(Err)`: the std constructors are the std aggregates
            rvv = _agg(vn, args)
            cb = _new_block(body, stmts + [{"k": "assign", "place": cdest, "rv": rvv, "span": span, "desugared": "ctor"}], {"k": "goto", "target": ctarget, "span": span})
            body["blocks"][bb]["term"] = {"k": "switch", "on": {"move": {"l": dl, "p": []}}, "on_ty": "isize", "targets": [[VI[run_v], cb]], "otherwise": pb, "span": span,
                                          "desugared": t["callee"]["path"]}
            return True
        if adt is not None and adt.get("kind") == "enum" and any(v.get("name") == vn for v in adt.get("variants", [])):
            vi = [k for k, v in enumerate(adt["variants"]) if v.get("name") == vn][0] if ep in _ADTS else None
            rvv = {"agg": "adt", "adt": ep, "variant": vn, "vi": vi, "fields": [str(k) for k in range(len(args))], "ops": args}
            cb = _new_block(body, stmts + [{"k": "assign", "place": cdest, "rv": rvv, "span": span, "desugared": "ctor"}], {"k": "goto", "target": ctarget, "span": span})
            body["blocks"][bb]["term"] = {"k": "switch", "on": {"move": {"l": dl, "p": []}}, "on_ty": "isize", "targets": [[VI[run_v], cb]], "otherwise": pb, "span": span,
                                          "desugared": t["callee"]["path"]}
            return True
    call = {"k": "call", "callee": {"decl": cp, "name": cp.rsplit("::", 1)[-1], "targs": [], "path": cp, "kind": "item"}, "args": args,
            "arg_tys": [body["locals"][(a.get("move") or a.get("copy"))["l"]]["ty"] for a in args], "dest": cdest, "target": ctarget, "span": span,
            "desugared": t["callee"]["name"]}
    if unwind is not None:
        call["unwind"] = unwind
    cb = _new_block(body, stmts, call)
    targets = [[VI[run_v], cb]]
    body["blocks"][bb]["term"] = {"k": "switch", "on": {"move": {"l": dl, "p": []}}, "on_ty": "isize", "targets": targets, "otherwise": pb, "span": span,
                                  "desugared": t["callee"]["path"]}
    if clo is not None:
        clo_alias = {}
        for q in list(bodies):
            if q.startswith(clo_path + "::{") and q != clo_path:
                clo_alias[q] = q
        inline.inline_call(body, cb, copy.deepcopy(clo), clo_path, clo_alias)
        INLINED_CLOSURES.append(clo_path)
    return True


def inline_closure_call(bodies, path, body, bb):
    """`let f = |a, b| ..; f(x, y)`: the call of a closure built in this very function becomes the closure's body."""
    t = body["blocks"][bb]["term"]
    cp = t["callee"]["path"]
    clo = bodies.get(cp)
    if clo is None or clo["kind"] != "closure" or len(clo["blocks"]) > MAX_CLOSURE_BLOCKS or t.get("target") is None:
        return False
    tup = _bare(t["args"][1])
    env = _bare(t["args"][0])
    if tup is None or env is None:
        return False
    d = inline._single_def(body, tup)
    if d is None or d[0] != "assign" or d[2]["rv"].get("agg") != "tuple" or len(d[2]["rv"]["ops"]) != clo["argc"] - 1:
        return False
    # the environment must be (a reference to) a closure value built here
    span = t.get("span")
    stmts = body["blocks"][bb]["stmts"]
    args = [copy.deepcopy(t["args"][0])]
    for k in range(clo["argc"] - 1):
        al = _new_local(body, clo["locals"][2 + k]["ty"])
        stmts.append({"k": "assign", "place": {"l": al, "p": []}, "rv": {"use": {"move": {"l": tup, "p": [{"f": str(k), "i": k}]}}}, "span": span, "desugared": "closure-arg"})
        args.append({"move": {"l": al, "p": []}})
    call = {"k": "call", "callee": {"decl": cp, "name": cp.rsplit("::", 1)[-1], "targs": [], "path": cp, "kind": "item"}, "args": args,
            "arg_tys": [body["locals"][(a.get("move") or a.get("copy"))["l"]]["ty"] for a in args], "dest": copy.deepcopy(t["dest"]), "target": t["target"], "span": span,
            "desugared": "closure-call"}
    if t.get("unwind") is not None:
        call["unwind"] = t["unwind"]
    body["blocks"][bb]["term"] = call
    clo_alias = {q: q for q in bodies if q.startswith(cp + "::{") and q != cp}
    inline.inline_call(body, bb, copy.deepcopy(clo), cp, clo_alias)
    INLINED_CLOSURES.append(cp)
    return True


def _closure_of(body, local, depth=0):
    """the closure definition path a local (possibly a reference to / a move of a closure value) stands for, and the local
    that holds the closure value itself"""
    if depth > 8:
        return None, None
    d = inline._single_def(body, local)
    if d is None or d[0] != "assign":
        return None, None
    rv = d[2]["rv"]
    if rv.get("agg") == "closure":
        return rv["def"], local
    q = None
    if "use" in rv:
        q = rv["use"].get("move") or rv["use"].get("copy")
    elif "ref" in rv:
        q = rv["ref"]
    if q is None or [e for e in q["p"] if e != "deref"]:
        return None, None
    return _closure_of(body, q["l"], depth + 1)


def resolve_closure_calls(raw, paths):
    """After a helper that takes `impl FnMut(..)` is inlined, its call of the parameter is a call through the type parameter.
    Where the called value is, in the caller, a closure built there, the call is that closure's body: resolve it and inline it.
    Returns [(body path, closure path)]."""
    bodies = raw["bodies"]
    rep = []
    for p in paths:
        body = bodies.get(p)
        if body is None:
            continue
        for _round in range(3):
            did = False
            for bb in range(len(body["blocks"])):
                t = body["blocks"][bb]["term"]
                if t["k"] != "call" or t["callee"].get("decl") not in FN_CALLS or t["callee"].get("kind") != "unresolved" or len(t["args"]) != 2:
                    continue
                a0 = _bare(t["args"][0])
                if a0 is None:
                    continue
                cp, holder = _closure_of(body, a0)
                if cp is None or cp not in bodies:
                    continue
                c = dict(t["callee"])
                c.update({"path": cp, "kind": "item", "resolved_closure": True})
                t["callee"] = c
                # FnOnce::call_once passes the closure by value, the others by reference; the closure body says which it wants
                env_ty = bodies[cp]["locals"][1]["ty"]
                arg_ty = body["locals"][a0]["ty"]
                if env_ty.startswith("&") and not arg_ty.startswith("&"):
                    el = _new_local(body, env_ty)
                    body["blocks"][bb]["stmts"].append({"k": "assign", "place": {"l": el, "p": []}, "rv": {"ref": {"l": a0, "p": []}, "mut": env_ty.startswith("&mut"), "fake": False},
                                                        "span": t.get("span")})
                    t["args"][0] = {"move": {"l": el, "p": []}}
                if inline_closure_call(bodies, p, body, bb):
                    rep.append((p, cp))
                    did = True
            if not did:
                break
    return rep


def drop_orphan_closures(raw, closure_paths):
    """closure bodies whose every call was inlined and whose value no remaining call receives are represented inside their
    callers now: remove them so that crate-wide rules judge the code once, where it runs"""
    bodies = raw["bodies"]
    removed = []
    for cp in sorted(set(closure_paths)):
        if cp not in bodies:
            continue
        parent = cp.rsplit("::{closure#", 1)[0]
        still = False
        for p, body in bodies.items():
            if p == cp or p.startswith(cp + "::"):
                continue
            for blk in body["blocks"]:
                t = blk["term"]
                if t["k"] != "call":
                    continue
                if t["callee"]["path"] == cp:
                    still = True
                if p == parent or p.startswith(parent + "::") or cp.startswith(p + "::"):      # (any ancestor: the parent closure may itself have been inlined)
                    for a in t["args"]:
                        l = _bare(a)
                        if l is not None and _closure_of(body, l)[0] == cp:
                            still = True
            if still:
                break
        if not still:
            # (closures nested in it stay: the inlined code still builds and calls them, and crate-wide rules must keep seeing their
            # bodies - `or_else(|| self.fallback.as_ref().map(|e| e.dispatched.clone()))` leaves the inner closure behind)
            for q in [q for q in bodies if q == cp]:
                del bodies[q]
                removed.append(q)
    return removed


def apply(raw, changed, ref_counts):
    """Desugar, in the bodies listed in `changed`, the combinator calls whose name the reference version of that body did not
    call.  Returns [(body path, combinator, closure/function)]"""
    rep = []
    bodies = raw["bodies"]
    del INLINED_CLOSURES[:]
    _KNOWN_FNS.clear()
    _KNOWN_FNS.update(inline.load_known() or ())
    _ALL_FNS.clear()
    _ALL_FNS.update(bodies)
    _ADTS.clear()
    _ADTS.update(raw.get("adts") or {})
    for path in sorted(changed):
        body = bodies.get(path)
        if body is None or len(body["blocks"]) > 3000:
            continue
        ref = dict(ref_counts.get(path, {}))
        # a combinator the function now uses more often than its reference version did is a new usage pattern: all its sites in
        # this function are rewritten (a mixture of rewritten and kept sites is harder to read than either form)
        now = counts(body, path)
        for k_, n_ in now.items():
            if n_ > ref.get(k_, 0):
                ref[k_] = 0
        for _round in range(4):
            did = False
            for bb in range(len(body["blocks"])):
                t = body["blocks"][bb]["term"]
                if t["k"] != "call" or t.get("desugared"):
                    continue
                if _is_local_closure_call(path, t) and ref.get("closure-call", 0) == 0 and ("::{closure" not in path or body.get("kind") == "coroutine"):
                    if inline_closure_call(bodies, path, body, bb):
                        rep.append((path, "closure-call"))
                        did = True
                    continue
                k = _kind_of(t["callee"])
                if not k or ((k, t["callee"]["name"]) not in TABLE and (k, t["callee"]["name"]) not in SIMPLE and t["callee"]["path"] != TRANSPOSE
                             and k not in ("bool", "Iterator") and (k, t["callee"]["name"]) not in (("Option", "filter"), ("Option", "map_or"), ("Result", "map_or"),
                                                                                                     ("Result", "inspect_err"), ("Result", "inspect"), ("Option", "inspect"))):
                    continue
                key = k + "::" + t["callee"]["name"]
                if ref.get(key, 0) > 0:
                    continue
                what = t["callee"]["name"]
                if desugar_call(bodies, path, body, bb):
                    rep.append((path, key))
                    did = True
            if not did:
                break
    return rep
